"""Regex syntax-tree analysis on re._parser trees: nullability, literal
prefixes, alphabet projection, zero-width alternatives and exponential
ambiguity (EDA) via a Thompson NFA and its self-product."""

import re
import sys

try:
    import re._parser as sre_parse
    import re._constants as sre_c
except ImportError:  # Python < 3.11
    import sre_parse
    import sre_constants as sre_c

from ..core import AnalysisError

MAXREPEAT = sre_c.MAXREPEAT
OP = sre_c

REPEATS = (OP.MAX_REPEAT, OP.MIN_REPEAT) + ((OP.POSSESSIVE_REPEAT,) if hasattr(OP, "POSSESSIVE_REPEAT") else ())


def parse(pattern, flags=0):
    try:
        return sre_parse.parse(pattern, flags)
    except Exception as e:
        raise AnalysisError("regex %r does not parse: %s" % (pattern, e))


def flags_of(sub):
    return sub.state.flags


# ----------------------------------------------------------------------
# single-character atoms
# ----------------------------------------------------------------------

def _cat_match(cat, ch, flags):
    uni = not (flags & re.ASCII)
    if cat == OP.CATEGORY_DIGIT:
        return ch.isdigit() if uni else ch in "0123456789"
    if cat == OP.CATEGORY_NOT_DIGIT:
        return not _cat_match(OP.CATEGORY_DIGIT, ch, flags)
    if cat == OP.CATEGORY_SPACE:
        return ch.isspace() if uni else ch in " \t\n\r\f\v"
    if cat == OP.CATEGORY_NOT_SPACE:
        return not _cat_match(OP.CATEGORY_SPACE, ch, flags)
    if cat == OP.CATEGORY_WORD:
        return (ch.isalnum() or ch == "_") if uni else (ch.isascii() and (ch.isalnum() or ch == "_"))
    if cat == OP.CATEGORY_NOT_WORD:
        return not _cat_match(OP.CATEGORY_WORD, ch, flags)
    raise AnalysisError("regex category %r not modelled" % (cat,))


def atom_matches(item, ch, flags):
    op, av = item
    ic = bool(flags & re.IGNORECASE)
    if op == OP.LITERAL:
        return ord(ch) == av or (ic and ch.lower() == chr(av).lower())
    if op == OP.NOT_LITERAL:
        return not (ord(ch) == av or (ic and ch.lower() == chr(av).lower()))
    if op == OP.ANY:
        return bool(flags & re.DOTALL) or ch != "\n"
    if op == OP.IN:
        neg = False
        hit = False
        for o, a in av:
            if o == OP.NEGATE:
                neg = True
            elif o == OP.LITERAL:
                hit = hit or ord(ch) == a or (ic and ch.lower() == chr(a).lower())
            elif o == OP.RANGE:
                hit = hit or a[0] <= ord(ch) <= a[1] or (ic and (a[0] <= ord(ch.lower()) <= a[1] or a[0] <= ord(ch.upper()) <= a[1]))
            elif o == OP.CATEGORY:
                hit = hit or _cat_match(a, ch, flags)
            else:
                raise AnalysisError("regex set member %r not modelled" % (o,))
        return hit != neg
    raise AnalysisError("not a single-character atom: %r" % (op,))


CHAR_OPS = (OP.LITERAL, OP.NOT_LITERAL, OP.ANY, OP.IN)


def walk(sub):
    """yield every (op, av) item in the tree, depth first."""
    for item in sub:
        yield item
        op, av = item
        if op == OP.BRANCH:
            for alt in av[1]:
                yield from walk(alt)
        elif op in REPEATS:
            yield from walk(av[2])
        elif op == OP.SUBPATTERN:
            yield from walk(av[3])
        elif op in (OP.ASSERT, OP.ASSERT_NOT):
            yield from walk(av[1])
        elif hasattr(OP, "ATOMIC_GROUP") and op == OP.ATOMIC_GROUP:
            yield from walk(av)
        elif op == OP.GROUPREF_EXISTS:
            yield from walk(av[1])
            if av[2] is not None:
                yield from walk(av[2])


def alphabet(subs, extra=""):
    """representative characters: every literal, range end-points and their
    neighbours, one member of each category and of its complement."""
    reps = set(" \t\n\r\fa_Z0!-.é€　" + extra)
    for sub in subs:
        for op, av in walk(sub):
            if op in (OP.LITERAL, OP.NOT_LITERAL):
                reps.add(chr(av))
            elif op == OP.IN:
                for o, a in av:
                    if o == OP.LITERAL:
                        reps.add(chr(a))
                    elif o == OP.RANGE:
                        for c in (a[0], a[1], a[0] - 1, a[1] + 1):
                            if 0 <= c < sys.maxunicode and not (0xD800 <= c <= 0xDFFF):
                                reps.add(chr(c))
    return sorted(reps)


def atom_set(item, alpha, flags):
    return frozenset(c for c in alpha if atom_matches(item, c, flags))


# ----------------------------------------------------------------------
# structure queries
# ----------------------------------------------------------------------

def nullable(sub):
    for op, av in sub:
        if op in CHAR_OPS:
            return False
        if op == OP.BRANCH:
            if not any(nullable(a) for a in av[1]):
                return False
        elif op in REPEATS:
            if av[0] > 0 and not nullable(av[2]):
                return False
        elif op == OP.SUBPATTERN:
            if not nullable(av[3]):
                return False
        elif op in (OP.AT, OP.ASSERT, OP.ASSERT_NOT):
            continue
        elif op == OP.GROUPREF:
            continue  # may be empty
        elif hasattr(OP, "ATOMIC_GROUP") and op == OP.ATOMIC_GROUP:
            if not nullable(av):
                return False
        elif op == OP.GROUPREF_EXISTS:
            continue
        else:
            raise AnalysisError("regex op %r not modelled" % (op,))
    return True


def find_group(sub, index):
    """the SUBPATTERN body with capture index `index`."""
    for op, av in walk(sub):
        if op == OP.SUBPATTERN and av[0] == index:
            return av[3]
    return None


def literal_prefix(sub):
    """(prefix string, rest items) - the longest mandatory literal prefix."""
    out = []
    items = list(sub)
    i = 0
    while i < len(items):
        op, av = items[i]
        if op == OP.LITERAL:
            out.append(chr(av))
            i += 1
            continue
        if op == OP.SUBPATTERN and not (av[1] or av[2]):
            p, rest = literal_prefix(av[3])
            if p and not rest:
                out.append(p)
                i += 1
                continue
            if p:
                out.append(p)
                return "".join(out), rest + items[i + 1:]
        break
    return "".join(out), items[i:]


def items_nullable(items):
    class _S(list):
        pass
    return nullable(items)


def chars_in(sub, alpha, flags):
    """alphabet projection: representative chars that can occur somewhere in a
    string matched by sub (over-approximation ignoring look-arounds)."""
    out = set()
    for item in walk(sub):
        op, av = item
        if op in CHAR_OPS:
            out |= atom_set(item, alpha, flags)
    return out


def zero_width_alternatives(sub):
    """For a pattern/group that is a BRANCH (possibly inside one SUBPATTERN):
    list of (alternative items, nullable?)"""
    items = list(sub)
    if len(items) == 1 and items[0][0] == OP.SUBPATTERN:
        return zero_width_alternatives(items[0][1][3])
    if len(items) == 1 and items[0][0] == OP.BRANCH:
        return [(alt, nullable(alt)) for alt in items[0][1][1]]
    return [(sub, nullable(sub))]


def describe(items):
    """short printable form of a tree fragment."""
    out = []
    for op, av in items:
        if op == OP.LITERAL:
            out.append(repr(chr(av))[1:-1])
        elif op == OP.AT:
            out.append("<%s>" % str(av).replace("AT_", "").lower())
        elif op in (OP.ASSERT, OP.ASSERT_NOT):
            out.append("(?%s%s%s)" % ("<" if av[0] < 0 else "", "=" if op == OP.ASSERT else "!", describe(av[1])))
        elif op == OP.SUBPATTERN:
            out.append("(%s)" % describe(av[3]))
        elif op == OP.BRANCH:
            out.append("|".join(describe(a) for a in av[1]))
        elif op in REPEATS:
            body = describe(av[2])
            if len(list(av[2])) != 1 or list(av[2])[0][0] not in CHAR_OPS:
                body = "(?:%s)" % body
            lo, hi = av[0], av[1]
            q = "?" if (lo, hi) == (0, 1) else "*" if (lo, hi) == (0, MAXREPEAT) else "+" if (lo, hi) == (1, MAXREPEAT) else "{%d,%s}" % (lo, "" if hi == MAXREPEAT else hi)
            out.append("%s%s%s" % (body, q, "?" if op == OP.MIN_REPEAT else ""))
        elif op == OP.ANY:
            out.append(".")
        elif op == OP.IN:
            out.append(_describe_set(av))
        elif op == OP.NOT_LITERAL:
            out.append("[^%s]" % chr(av))
        else:
            out.append("<%s>" % str(op).lower())
    return "".join(out)


_CAT = {"CATEGORY_DIGIT": "\\d", "CATEGORY_NOT_DIGIT": "\\D", "CATEGORY_SPACE": "\\s",
        "CATEGORY_NOT_SPACE": "\\S", "CATEGORY_WORD": "\\w", "CATEGORY_NOT_WORD": "\\W"}


def _describe_set(av):
    parts = []
    for o, a in av:
        if o == OP.NEGATE:
            parts.append("^")
        elif o == OP.LITERAL:
            parts.append(repr(chr(a))[1:-1])
        elif o == OP.RANGE:
            parts.append("%s-%s" % (repr(chr(a[0]))[1:-1], repr(chr(a[1]))[1:-1]))
        elif o == OP.CATEGORY:
            parts.append(_CAT.get(str(a), str(a)))
    if len(parts) == 1 and parts[0].startswith("\\"):
        return parts[0]
    return "[%s]" % "".join(parts)


def is_anchored_leading(pattern, ch, flags=0):
    """pattern == ^ch+ (one or more of ch at the start) -> True."""
    sub = list(parse(pattern, flags))
    if len(sub) != 2:
        return False
    (o1, a1), (o2, a2) = sub
    if o1 != OP.AT or a1 not in (OP.AT_BEGINNING, OP.AT_BEGINNING_STRING):
        return False
    if o2 not in (OP.MAX_REPEAT,) or a2[0] < 1 or a2[1] != MAXREPEAT:
        return False
    body = list(a2[2])
    return len(body) == 1 and body[0] == (OP.LITERAL, ord(ch))


def only_literals(pattern, ch, flags=0):
    """every consuming atom of the pattern is the literal `ch`."""
    atoms = [it for it in walk(parse(pattern, flags)) if it[0] in CHAR_OPS]
    return bool(atoms) and all(it == (OP.LITERAL, ord(ch)) for it in atoms)


# ----------------------------------------------------------------------
# Thompson NFA and exponential-ambiguity detection
# ----------------------------------------------------------------------

class NFA:
    def __init__(self, flags):
        self.flags = flags
        self.eps = {}  # state -> [state]
        self.chr = {}  # state -> [(atom item | ('OPAQUE', k), state)]
        self.n = 0
        self.loops = []  # (entry_state, description) for unbounded repeats
        self.opaque = 0
        self.skipped_loops = []

    def new(self):
        self.n += 1
        self.eps[self.n] = []
        self.chr[self.n] = []
        return self.n

    def e(self, a, b):
        self.eps[a].append(b)

    def c(self, a, atom, b):
        self.chr[a].append((atom, b))


def _has_opaque(sub):
    for op, av in walk(sub):
        if op in (OP.ASSERT, OP.ASSERT_NOT, OP.GROUPREF, OP.GROUPREF_EXISTS, OP.AT):
            return True
    return False


def _build(nfa, sub, start):
    """build fragment for sequence `sub` from `start`; returns end state."""
    cur = start
    for item in sub:
        op, av = item
        if op in CHAR_OPS:
            nxt = nfa.new()
            nfa.c(cur, item, nxt)
            cur = nxt
        elif op == OP.AT:
            pass  # anchors treated as epsilon
        elif op in (OP.ASSERT, OP.ASSERT_NOT, OP.GROUPREF, OP.GROUPREF_EXISTS):
            nfa.opaque += 1
            nxt = nfa.new()
            nfa.c(cur, ("OPAQUE", nfa.opaque), nxt)
            cur = nxt
        elif op == OP.SUBPATTERN:
            cur = _build(nfa, av[3], cur)
        elif hasattr(OP, "ATOMIC_GROUP") and op == OP.ATOMIC_GROUP:
            cur = _build(nfa, av, cur)
        elif op == OP.BRANCH:
            end = nfa.new()
            for alt in av[1]:
                s = nfa.new()
                nfa.e(cur, s)
                e = _build(nfa, alt, s)
                nfa.e(e, end)
            cur = end
        elif op in REPEATS:
            lo, hi, body = av
            for _ in range(min(lo, 3)):
                cur = _build(nfa, body, cur)
            if hi == MAXREPEAT:
                entry = nfa.new()
                nfa.e(cur, entry)
                s = nfa.new()
                nfa.e(entry, s)
                e = _build(nfa, body, s)
                nfa.e(e, entry)
                out = nfa.new()
                nfa.e(entry, out)
                if _has_opaque(body):
                    nfa.skipped_loops.append(describe([item]))
                else:
                    nfa.loops.append((entry, describe([item])))
                cur = out
            else:
                for _ in range(min(hi - lo, 2)):
                    s = nfa.new()
                    nfa.e(cur, s)
                    e = _build(nfa, body, s)
                    out = nfa.new()
                    nfa.e(e, out)
                    nfa.e(cur, out)
                    cur = out
        else:
            raise AnalysisError("regex op %r not modelled in NFA" % (op,))
    return cur


def _eclose(nfa, s, memo):
    if s in memo:
        return memo[s]
    seen = {s}
    todo = [s]
    while todo:
        x = todo.pop()
        for y in nfa.eps[x]:
            if y not in seen:
                seen.add(y)
                todo.append(y)
    memo[s] = seen
    return seen


def nested_nullable_star(sub):
    """epsilon-path ambiguity: an unbounded repeat whose body is nullable and
    itself contains an unbounded repeat, e.g. (a*)*  -> description or None."""
    for op, av in walk(sub):
        if op in REPEATS and av[1] == MAXREPEAT:
            body = av[2]
            if nullable(body) and any(o in REPEATS and a[1] == MAXREPEAT for o, a in walk(body)):
                return describe([(op, av)])
    return None


def eda(pattern, flags=0, alpha_extra=""):
    """Exponential degree of ambiguity.  Returns dict(found=bool, loop=..., pump=..., skipped=[...])."""
    sub = parse(pattern, flags)
    fl = sub.state.flags
    res = dict(found=False, loop=None, pump=None, skipped=[], states=0)
    nn = nested_nullable_star(sub)
    if nn:
        res.update(found=True, loop=nn, pump="(nullable body containing an unbounded repeat)")
        return res
    nfa = NFA(fl)
    start = nfa.new()
    _build(nfa, sub, start)
    res["skipped"] = list(nfa.skipped_loops)
    res["states"] = nfa.n
    if not nfa.loops:
        return res
    alpha = alphabet([sub], alpha_extra)
    memo = {}
    # char step from a state: set of post-char states per representative char
    step_cache = {}

    def step(p):
        if p in step_cache:
            return step_cache[p]
        out = {}
        for q in _eclose(nfa, p, memo):
            for atom, r in nfa.chr[q]:
                if atom[0] == "OPAQUE":
                    continue
                for c in atom_set(atom, alpha, fl):
                    out.setdefault(c, set()).add(r)
        step_cache[p] = out
        return out

    for entry, desc in sorted(nfa.loops, key=lambda l: -len(l[1])):
        # product search from (entry, entry)
        # nodes: pairs of post-char states (plus the entry pair)
        start_pair = (entry, entry)
        succ = {}
        todo = [start_pair]
        seen = {start_pair}
        label = {}
        while todo:
            pr = todo.pop()
            a, b = pr
            sa, sb = step(a), step(b)
            outs = []
            for c in sa:
                if c in sb:
                    for x in sa[c]:
                        for y in sb[c]:
                            outs.append(((x, y), c))
            succ[pr] = outs
            for nxt, c in outs:
                if nxt not in seen:
                    seen.add(nxt)
                    label[nxt] = (pr, c)
                    todo.append(nxt)
            if len(seen) > 250000:
                raise AnalysisError("regex product too large for %r" % pattern)
        # can a pair return to the loop entry?  "returns" = entry in eclose(state)
        def at_entry(s):
            return entry in _eclose(nfa, s, memo)
        # find off-diagonal pair (x,y), x!=y, reachable from start, from which a
        # pair (u,v) with both at_entry is reachable
        # backward reachability from "both at entry" pairs
        good = {pr for pr in seen if pr != start_pair and at_entry(pr[0]) and at_entry(pr[1])}
        if not good:
            continue
        rev = {}
        for pr, outs in succ.items():
            for nxt, c in outs:
                rev.setdefault(nxt, []).append(pr)
        back = set(good)
        todo = list(good)
        while todo:
            pr = todo.pop()
            for p in rev.get(pr, ()):
                if p not in back:
                    back.add(p)
                    todo.append(p)
        for pr in seen:
            if pr[0] != pr[1] and pr in back and pr != start_pair:
                # witness word from start to pr
                w = []
                cur = pr
                while cur != start_pair:
                    cur, c = label[cur][0], label[cur][1]
                    w.append(c)
                w = "".join(reversed(w))
                # and back to entry
                prev = {pr: None}
                q = [pr]
                tail = None
                while q:
                    x = q.pop(0)
                    if x in good and x is not pr or (x in good and x == pr):
                        tail = x
                        break
                    for nxt, c in succ.get(x, ()):
                        if nxt not in prev and nxt in back:
                            prev[nxt] = (x, c)
                            q.append(nxt)
                w2 = []
                cur = tail
                while cur is not None and prev.get(cur) is not None:
                    x, c = prev[cur]
                    w2.append(c)
                    cur = x
                res.update(found=True, loop=desc, pump=w + "".join(reversed(w2)))
                return res
    return res


# ----------------------------------------------------------------------
# prefix-match automata with EOF and single-character negative look-ahead:
# "does pattern P match a prefix of s" decided for all s, coverage between
# matchers of a cascade
# ----------------------------------------------------------------------

class Unsupported(AnalysisError):
    pass


EOF = "\x00EOF"


class PNFA:
    """NFA for `pattern` used in match-at-position mode.  Leading
    look-behinds become a context tag; trailing look-aheads are consumed;
    (?!c) becomes a guard on the next symbol; \\Z consumes the EOF symbol."""

    def __init__(self, pattern, flags=0, sub=None):
        self.pattern = pattern
        self.sub = sub if sub is not None else parse(pattern, flags)
        self.flags = self.sub.state.flags if hasattr(self.sub, "state") else flags
        self.eps = {}
        self.chr = {}
        self.guard = {}  # state -> [(atom, state)]  negative single-char look-ahead
        self.n = 0
        self.context = None  # None | 'linestart' | 'after-nl'
        items = list(self.sub)
        items = self._strip_context(items)
        self.start = self.new()
        self.final = self._seq(items, self.start, top=True)

    def new(self):
        self.n += 1
        self.eps[self.n] = []
        self.chr[self.n] = []
        self.guard[self.n] = []
        return self.n

    def _strip_context(self, items):
        while items:
            op, av = items[0]
            if op == OP.AT and av in (OP.AT_BEGINNING, OP.AT_BEGINNING_STRING):
                self.context = "linestart" if (self.flags & re.MULTILINE and av == OP.AT_BEGINNING) else "stringstart"
                items = items[1:]
                continue
            if op == OP.ASSERT and av[0] < 0:
                body = list(av[1])
                if len(body) == 1 and body[0][0] == OP.AT and body[0][1] in (OP.AT_BEGINNING, OP.AT_BEGINNING_STRING):
                    self.context = "linestart" if self.flags & re.MULTILINE else "stringstart"
                elif len(body) == 1 and body[0] == (OP.LITERAL, 10):
                    self.context = "after-nl"
                else:
                    raise Unsupported("look-behind %s not modelled" % describe([items[0]]))
                items = items[1:]
                continue
            break
        return items

    def _seq(self, items, cur, top=False):
        items = list(items)
        for idx, item in enumerate(items):
            op, av = item
            last = idx == len(items) - 1
            if op in CHAR_OPS:
                nxt = self.new()
                self.chr[cur].append((item, nxt))
                cur = nxt
            elif op == OP.AT:
                if av == OP.AT_END_STRING or (av == OP.AT_END and not (self.flags & re.MULTILINE)):
                    nxt = self.new()
                    self.chr[cur].append((("EOF",), nxt))
                    cur = nxt
                elif av == OP.AT_END:
                    # $ in MULTILINE: before a newline or at the end
                    nxt = self.new()
                    self.chr[cur].append((("EOF",), nxt))
                    n2 = self.new()
                    self.chr[cur].append(((OP.LITERAL, 10), n2))
                    self.eps[n2].append(nxt)
                    cur = nxt
                else:
                    raise Unsupported("anchor %s inside a pattern" % av)
            elif op == OP.ASSERT and av[0] > 0:
                # look-ahead: consumed (prefix-language view); must be trailing in its sequence
                if not all(o in (OP.ASSERT,) for o, _ in items[idx + 1:]):
                    if not last:
                        raise Unsupported("look-ahead in the middle of a pattern: %s" % describe([item]))
                cur = self._seq(av[1], cur)
            elif op == OP.ASSERT_NOT and av[0] > 0:
                body = list(av[1])
                if len(body) == 1 and body[0][0] in CHAR_OPS:
                    nxt = self.new()
                    self.guard[cur].append((body[0], nxt))
                    cur = nxt
                else:
                    raise Unsupported("negative look-ahead %s not modelled" % describe([item]))
            elif op == OP.SUBPATTERN:
                cur = self._seq(av[3], cur)
            elif op == OP.BRANCH:
                end = self.new()
                for alt in av[1]:
                    s = self.new()
                    self.eps[cur].append(s)
                    e = self._seq(alt, s)
                    self.eps[e].append(end)
                cur = end
            elif op in REPEATS:
                lo, hi, body = av
                for _ in range(lo):
                    cur = self._seq(body, cur)
                if hi == MAXREPEAT:
                    entry = self.new()
                    self.eps[cur].append(entry)
                    s = self.new()
                    self.eps[entry].append(s)
                    e = self._seq(body, s)
                    self.eps[e].append(entry)
                    cur = entry
                else:
                    if hi - lo > 8:
                        raise Unsupported("large bounded repeat")
                    for _ in range(hi - lo):
                        s = self.new()
                        self.eps[cur].append(s)
                        e = self._seq(body, s)
                        out = self.new()
                        self.eps[e].append(out)
                        self.eps[cur].append(out)
                        cur = out
            else:
                raise Unsupported("regex op %s not modelled (prefix automaton)" % (op,))
        return cur

    # -- simulation ---------------------------------------------------------
    def closure(self, items, alpha):
        """items: set of (state, guard frozenset|None)"""
        seen = set(items)
        todo = list(items)
        while todo:
            q, g = todo.pop()
            for r in self.eps[q]:
                it = (r, g)
                if it not in seen:
                    seen.add(it)
                    todo.append(it)
            for atom, r in self.guard[q]:
                bad = frozenset(c for c in alpha if atom_matches(atom, c, self.flags))
                it = (r, (g or frozenset()) | bad)
                if it not in seen:
                    seen.add(it)
                    todo.append(it)
        return frozenset(seen)

    def init(self, alpha):
        return self.closure({(self.start, None)}, alpha)

    def accepts_before(self, state, sym):
        """is a complete match present whose pending guards allow `sym` next"""
        for q, g in state:
            if q == self.final and (g is None or sym == EOF or sym not in g):
                return True
        return False

    def step(self, state, sym, alpha):
        out = set()
        for q, g in state:
            if g is not None and sym != EOF and sym in g:
                continue
            for atom, r in self.chr[q]:
                if atom == ("EOF",):
                    if sym == EOF:
                        out.add((r, None))
                elif sym != EOF and atom_matches(atom, sym, self.flags):
                    out.add((r, None))
        return self.closure(out, alpha)


def _ctx_implies(left, right):
    if right is None:
        return True
    if right == "linestart":
        return left in ("linestart", "after-nl", "stringstart")
    return left == right


def prefix_total(pnfa, alpha, maxlen=12):
    """(True, None) if for every string s, pnfa matches some prefix of s (EOF
    aware); else (False, witness string)."""
    start = pnfa.init(alpha)
    seen = {start: ""}
    todo = [start]
    while todo:
        st = todo.pop(0)
        w = seen[st]
        for sym in list(alpha) + [EOF]:
            if pnfa.accepts_before(st, sym):
                continue  # matched a prefix
            nxt = pnfa.step(st, sym, alpha)
            if sym == EOF:
                if not any(q == pnfa.final for q, g in nxt):
                    return False, w + "<EOF>"
                continue
            if not nxt:
                return False, w + sym
            if nxt not in seen:
                seen[nxt] = w + sym
                todo.append(nxt)
    return True, None


def covered(left, rights, alpha):
    """every string with a prefix matched by `left` (a PNFA for the look-ahead
    condition) has a non-empty... prefix matched by one of `rights` usable in
    left's context.  Returns (True, None, used) or (False, witness, used)."""
    rs = [r for r in rights if _ctx_implies(left.context, r.context)]
    start = (left.init(alpha), False, tuple(r.init(alpha) for r in rs))
    seen = {start: ""}
    todo = [start]
    while todo:
        cur = todo.pop(0)
        ls, lm, rss = cur
        w = seen[cur]
        for sym in list(alpha) + [EOF]:
            lm2 = lm or left.accepts_before(ls, sym)
            if any(r.accepts_before(s, sym) for r, s in zip(rs, rss)):
                continue  # some earlier matcher matches a prefix: covered
            ls2 = left.step(ls, sym, alpha) if not lm2 else ls
            rss2 = tuple(r.step(s, sym, alpha) for r, s in zip(rs, rss))
            if sym == EOF:
                lm3 = lm2 or any(q == left.final for q, g in ls2)
                rm = any(any(q == r.final for q, g in s) for r, s in zip(rs, rss2))
                if lm3 and not rm:
                    return False, w + "<EOF>", rs
                continue
            if not lm2 and not ls2:
                continue  # not in left's language
            if lm2 and not any(rss2):
                return False, w + sym, rs
            nxt = (ls2, lm2, rss2)
            if nxt not in seen:
                seen[nxt] = w + sym
                todo.append(nxt)
            if len(seen) > 200000:
                raise AnalysisError("coverage product too large")
    return True, None, rs


# ----------------------------------------------------------------------
# bounds on what a match can contain
# ----------------------------------------------------------------------

INF = float("inf")


def max_count(sub, ch, flags=None):
    """upper bound on the occurrences of character `ch` in any string the
    (sub)pattern consumes (INF when unbounded); look-arounds consume nothing"""
    if flags is None:
        flags = flags_of(sub) if hasattr(sub, "state") else 0
    total = 0
    for op, av in sub:
        if op in CHAR_OPS:
            total += 1 if atom_matches((op, av), ch, flags) else 0
        elif op == OP.BRANCH:
            total += max([max_count(a, ch, flags) for a in av[1]] or [0])
        elif op == OP.SUBPATTERN:
            total += max_count(av[3], ch, flags)
        elif op in REPEATS:
            lo, hi, body = av
            b = max_count(body, ch, flags)
            if b:
                total += INF if hi == MAXREPEAT else hi * b
        elif op in (OP.ASSERT, OP.ASSERT_NOT, OP.AT):
            pass
        elif hasattr(OP, "ATOMIC_GROUP") and op == OP.ATOMIC_GROUP:
            total += max_count(av, ch, flags)
        elif op == OP.GROUPREF:
            total += INF
        else:
            raise Unsupported("regex op %s not modelled (max_count)" % (op,))
    return total


def finite_language(sub, flags=None, limit=64):
    """the set of strings the (sub)pattern can consume, when finite and small;
    None when unbounded, larger than `limit`, or built from open character classes"""
    if flags is None:
        flags = flags_of(sub) if hasattr(sub, "state") else 0
    langs = [""]
    for op, av in sub:
        if op == OP.LITERAL:
            part = [chr(av)]
        elif op == OP.IN:
            members = []
            for o, a in av:
                if o == OP.LITERAL:
                    members.append(chr(a))
                else:
                    return None
            part = members
        elif op == OP.BRANCH:
            part = []
            for alt in av[1]:
                l = finite_language(alt, flags, limit)
                if l is None:
                    return None
                part.extend(l)
        elif op == OP.SUBPATTERN:
            part = finite_language(av[3], flags, limit)
            if part is None:
                return None
        elif op in REPEATS:
            lo, hi, body = av
            if hi == MAXREPEAT or hi > 3:
                return None
            b = finite_language(body, flags, limit)
            if b is None:
                return None
            part = []
            for k in range(lo, hi + 1):
                cur = [""]
                for _ in range(k):
                    cur = [x + y for x in cur for y in b]
                part.extend(cur)
        elif op in (OP.ASSERT, OP.ASSERT_NOT, OP.AT):
            continue
        else:
            return None
        langs = [x + y for x in langs for y in part]
        if len(langs) > limit:
            return None
    return sorted(set(langs))
