"""Abstract model of the Python code Mako's code generator emits.

A partial evaluator over the AST of codegen's emitter methods (never executing
them): printer calls become emission events, `if` tests are decomposed into
boolean atoms and enumerated by lazy forking, helper emitters are inlined when
they are not self-contained (not indentation-neutral) and summarised as one
opaque balanced statement otherwise.  The event traces are laid out with the
indentation automaton of PythonPrinter.writeline (parameterised by the regex
constants read from pygen.py) into *skeleton programs* that ast.parse accepts
and on which the CFG/typestate rules run."""

import ast
import re

from ..core import AnalysisError
from .facts import dotted, const, src, walk_func


# ----------------------------------------------------------------------
# abstract values
# ----------------------------------------------------------------------

class Const:
    def __init__(self, v):
        self.v = v

    def __repr__(self):
        return "Const(%r)" % (self.v,)


class Atom:
    """opaque value identified by a key (expression text)."""

    def __init__(self, key):
        self.key = key

    def __repr__(self):
        return "Atom(%s)" % self.key


class Str:
    """abstract string: list of ('lit', text) | ('hole', tag, kind)
    kind: 's' str(), 'r' repr(), 'join' comma-joined list (possibly empty),
    'opt' possibly-empty fragment, 'user' user supplied source text."""

    def __init__(self, parts):
        self.parts = parts

    def __repr__(self):
        return "Str(%s)" % self.text()

    def text(self):
        out = []
        for p in self.parts:
            if p[0] == "lit":
                out.append(p[1])
            else:
                out.append("<%s:%s>" % (p[2], p[1]))
        return "".join(out)

    def literal(self):
        return "".join(p[1] for p in self.parts if p[0] == "lit")

    def is_const(self):
        return all(p[0] == "lit" for p in self.parts)

    def holes(self):
        return [p for p in self.parts if p[0] == "hole"]


class PrinterVal:
    pass


class SelfVal:
    pass


class LocalDef:
    def __init__(self, node):
        self.node = node


class LocalInstance:
    def __init__(self, cls):
        self.cls = cls


PRINTER = PrinterVal()
SELF = SelfVal()


class ListVal:
    """a list of text pieces built by the emitter (`call_args = ['context', file, '_template_uri']; call_args.append(args)`):
    joined it gives a line with the pieces in order; a piece appended under a condition is an optional piece"""

    def __init__(self, items):
        self.items = list(items)  # Str values

    def __repr__(self):
        return "<list %s>" % ", ".join(i.text() for i in self.items)


class Lazy:
    """a boolean combination of guard atoms held in a local (`content = bool(buffered or cached)`):
    its truth is derived from the atoms it is made of, never decided on its own"""

    def __init__(self, expr, env):
        self.expr, self.env = expr, dict(env)

    def __repr__(self):
        return "<lazy %s>" % src(self.expr)


class Fork(Exception):
    def __init__(self, key):
        self.key = key


class Trace:
    def __init__(self, events, outcome, retval, asg, sets):
        self.events = events
        self.outcome = outcome  # 'return' | 'raise' | 'fall'
        self.retval = retval
        self.asg = dict(asg)
        self.sets = sets  # attribute stores seen: [(target text, value)]

    def lines(self):
        return [e for e in self.events if e[0] == "LINE"]

    def key(self):
        return tuple(sorted(self.asg.items()))

    def brief(self):
        out = []
        for e in self.events:
            if e[0] == "LINE":
                out.append(e[1].text())
            elif e[0] == "DEDENT":
                out.append("<dedent>")
            elif e[0] == "STAR":
                out.append("<star x%d>" % len(e[1]))
            else:
                out.append("<%s %s>" % (e[0].lower(), e[1] if len(e) > 1 else ""))
        return out


PRINTER_METHODS = {"writeline", "writelines", "write_blanks", "start_source", "write_indented_block", "write", "close"}


class Model:
    """The emitter model of one codegen module."""

    MAX_FORKS = 1 << 14

    def __init__(self, db):
        self.db = db
        self.mod = db.mod("codegen")
        self.cls = db.cls("codegen._GenerateRenderMethod")
        self.methods = db.methods("codegen._GenerateRenderMethod")
        self.modfuncs = {n.name: n for n in self.mod.tree.body if isinstance(n, ast.FunctionDef)}
        self.modclasses = {n.name: n for n in self.mod.tree.body if isinstance(n, ast.ClassDef)}
        self._emits = {}
        self._summary = {}
        self._in_progress = set()
        self.layout = Layout(db)
        self.stats = dict(traces=0, forks=0, inlined=set(), summarised=set())

    # -- does a function (transitively) emit? ------------------------------
    def emits(self, fn):
        k = id(fn)
        if k in self._emits:
            return self._emits[k]
        self._emits[k] = False  # recursion guard
        r = False
        for n in ast.walk(fn):
            if isinstance(n, ast.Call):
                f = n.func
                if isinstance(f, ast.Attribute) and f.attr in PRINTER_METHODS and (dotted(f.value) or "").endswith("printer"):
                    r = True
                    break
                if isinstance(f, ast.Attribute) and dotted(f.value) == "self" and f.attr in self.methods and self.emits(self.methods[f.attr]):
                    r = True
                    break
                if isinstance(f, ast.Name) and f.id in self.modfuncs and self.emits(self.modfuncs[f.id]):
                    r = True
                    break
                if isinstance(f, ast.Name) and f.id == "_GenerateRenderMethod":
                    r = True
                    break
        self._emits[k] = r
        return r

    def node_emits(self, node):
        class _F:
            pass
        for n in ast.walk(node):
            if isinstance(n, ast.Call):
                f = n.func
                if isinstance(f, ast.Attribute) and f.attr in PRINTER_METHODS and (dotted(f.value) or "").endswith("printer"):
                    return True
                if isinstance(f, ast.Attribute) and dotted(f.value) == "self" and f.attr in self.methods and self.emits(self.methods[f.attr]):
                    return True
                if isinstance(f, ast.Name) and f.id in self.modfuncs and self.emits(self.modfuncs[f.id]):
                    return True
                if isinstance(f, ast.Name) and f.id == "_GenerateRenderMethod":
                    return True
        return False

    # -- enumeration driver ------------------------------------------------
    def traces(self, fn, bindings=None, preset=None, inline_depth=0):
        """all traces of fn under every assignment of its guard atoms."""
        out = []
        stack = [dict(preset or {})]
        n = 0
        while stack:
            asg = stack.pop()
            n += 1
            if n > self.MAX_FORKS:
                raise AnalysisError("emit: more than %d guard assignments in %s" % (self.MAX_FORKS, fn.name))
            it = Interp(self, asg, inline_depth)
            try:
                tr = it.run_function(fn, bindings or {})
                out.append(tr)
            except Fork as f:
                self.stats["forks"] += 1
                for v in (False, True):
                    a = dict(asg)
                    a[f.key] = v
                    stack.append(a)
        self.stats["traces"] += len(out)
        return out

    def method_traces(self, name, bindings=None, preset=None):
        if name in self.methods:
            fn = self.methods[name]
        elif name in self.modfuncs:
            fn = self.modfuncs[name]
        else:
            raise AnalysisError("emit: emitter %s not found in codegen.py" % name)
        return self.traces(fn, bindings, preset)

    # -- is a callee self-contained (summarise) or not (inline)? ----------
    def self_contained(self, name, fn):
        if name in self._summary:
            return self._summary[name]
        if name in self._in_progress:
            return True  # coinductive assumption, verified when the outer call finishes
        self._in_progress.add(name)
        try:
            trs = self.traces(fn, {}, None, inline_depth=1)
            ok = True
            for t in trs:
                if t.outcome == "raise":
                    continue
                res = self.layout.run(t.events)
                if res.error or res.final_indent != 0 or parse_skeleton(res) is None:
                    ok = False
                    break
            self._summary[name] = ok
            (self.stats["summarised"] if ok else self.stats["inlined"]).add(name)
            return ok
        finally:
            self._in_progress.discard(name)


class Interp:
    def __init__(self, model, asg, inline_depth=0):
        self.m = model
        self.asg = asg
        self.events = []
        self.sets = []
        self.depth = inline_depth

    # ------------------------------------------------------------------
    def run_function(self, fn, bindings):
        env = {}
        a = fn.args
        params = [x.arg for x in a.posonlyargs + a.args + a.kwonlyargs]
        defaults = {}
        pos = a.posonlyargs + a.args
        for p, d in zip(pos[len(pos) - len(a.defaults):], a.defaults):
            defaults[p.arg] = d
        for p, d in zip(a.kwonlyargs, a.kw_defaults):
            if d is not None:
                defaults[p.arg] = d
        for p in params:
            if p in bindings:
                env[p] = bindings[p]
            elif p == "self" or p == "s":
                env[p] = SELF if p == "self" else Atom("s")
            elif p in defaults and isinstance(defaults[p], ast.Constant) and ("__defaults__" in bindings):
                env[p] = Const(defaults[p].value)
            elif p == "printer":
                env[p] = PRINTER
            else:
                env[p] = Atom(p)
        # closure environment handed in by the caller (for local defs)
        for k, v in bindings.get("__closure__", {}).items():
            env.setdefault(k, v)
        try:
            outcome, ret = self.block(fn.body, env) or (None, None)
        except _Raised:
            outcome, ret = "raise", None
        return Trace(self.events, outcome or "fall", ret, self.asg, self.sets)

    # ------------------------------------------------------------------
    def block(self, stmts, env):
        for s in stmts:
            r = self.stmt(s, env)
            if r is not None:
                return r
        return None

    def stmt(self, s, env):
        if isinstance(s, ast.Expr):
            if isinstance(s.value, ast.Constant):
                return None
            self.value(s.value, env)
            return None
        if isinstance(s, ast.Assign):
            v = self.value(s.value, env)
            for t in s.targets:
                self.bind(t, v, env, s)
                if isinstance(t, ast.Name) and isinstance(s.value, ast.Tuple):
                    # a tuple of format arguments held in a local: remembered with the values its elements have here
                    env["\0tuple:" + t.id] = [(self.value(a, env), src(a)) for a in s.value.elts]
                    # ... or a tuple of lines to be written with writelines(*lines)
                    vs_ = [self.value(a, env) for a in s.value.elts]
                    if vs_ and all(isinstance(v_, Str) or (isinstance(v_, Const) and (v_.v is None or isinstance(v_.v, str))) for v_ in vs_):
                        env["\0lines:" + t.id] = ListVal([v_ if isinstance(v_, Str) or v_.v is None else Str([("lit", v_.v)]) for v_ in vs_])
                elif isinstance(t, ast.Name):
                    env.pop("\0lines:" + t.id, None)
                elif isinstance(t, ast.Name):
                    env.pop("\0tuple:" + t.id, None)
            return None
        if isinstance(s, ast.AugAssign):
            v = self.value(s.value, env)
            if isinstance(s.target, ast.Name):
                old = env.get(s.target.id)
                if isinstance(old, (Str, Const)) and isinstance(s.op, ast.Add) and isinstance(v, (Str, Const)) and isinstance(getattr(old, "v", ""), str) and isinstance(getattr(v, "v", ""), str):
                    env[s.target.id] = concat(to_str(old, "?"), to_str(v, "?"))
                else:
                    env[s.target.id] = Atom("%s(aug)" % s.target.id)
            return None
        if isinstance(s, ast.If):
            if self.truth(s.test, env):
                return self.block(s.body, env) if s.body else None
            return self.block(s.orelse, env) if s.orelse else None
        if isinstance(s, ast.For):
            return self.for_(s, env)
        if isinstance(s, ast.Return):
            return "return", (self.value(s.value, env) if s.value is not None else Const(None))
        if isinstance(s, ast.Raise):
            self.events.append(("RAISE", src(s.exc) if s.exc is not None else "reraise", s))
            return "raise", None
        if isinstance(s, (ast.FunctionDef, ast.ClassDef)):
            env[s.name] = LocalDef(s)
            return None
        if isinstance(s, (ast.Pass, ast.Assert, ast.Global, ast.Nonlocal, ast.Import, ast.ImportFrom, ast.Delete)):
            if isinstance(s, ast.Delete) and self.m.node_emits(s):
                raise AnalysisError("emit: emission inside del statement")
            return None
        if isinstance(s, ast.Continue):
            return "continue", None
        if isinstance(s, ast.Break):
            return "break", None
        if isinstance(s, (ast.While, ast.With, ast.Try)):
            if self.m.node_emits(s):
                raise AnalysisError("emit: %s statement containing emission at codegen.py:%d is not modelled" % (type(s).__name__, getattr(s, "_srcline", s.lineno)))
            return None
        raise AnalysisError("emit: statement %s at codegen.py:%d not modelled" % (type(s).__name__, getattr(s, "_srcline", s.lineno)))

    def bind(self, t, v, env, stmt):
        if isinstance(t, ast.Name):
            env[t.id] = v
        elif isinstance(t, ast.Attribute):
            d = dotted(t)
            if d:
                env[d] = v
                self.sets.append((d, v, stmt))
                self.events.append(("SET", d, v))
        elif isinstance(t, (ast.Tuple, ast.List)):
            for i, e in enumerate(t.elts):
                self.bind(e, Atom("%s[%d]" % (getattr(v, "key", "?"), i)), env, stmt)
        elif isinstance(t, ast.Subscript):
            d = dotted(t)
            if d:
                self.sets.append((d, v, stmt))
                self.events.append(("SET", d, v))

    # ------------------------------------------------------------------
    def for_(self, s, env):
        body = s.body
        itertext = src(s.iter)
        # `for n in X.nodes: n.accept_visitor(V)`
        if len(body) == 1 and isinstance(body[0], ast.Expr) and isinstance(body[0].value, ast.Call):
            c = body[0].value
            if isinstance(c.func, ast.Attribute) and c.func.attr == "accept_visitor" and isinstance(c.func.value, ast.Name) and isinstance(s.target, ast.Name) and c.func.value.id == s.target.id:
                vis = self.value(c.args[0], env) if c.args else None
                if vis is SELF:
                    self.events.append(("CHILDREN", itertext))
                    return None
                if isinstance(vis, LocalInstance):
                    self.visitor_star(vis, env, itertext)
                    return None
                return None
        if not self.m.node_emits(s) and not self._has_sets(s):
            # pure bookkeeping loop
            if isinstance(s.target, ast.Name):
                pass
            return None
        # emitting loop: STAR over the alternatives of one iteration
        alts = []
        stack = [dict(self.asg)]
        base_keys = set(self.asg)
        n = 0
        while stack:
            asg = stack.pop()
            n += 1
            if n > 4096:
                raise AnalysisError("emit: loop body at codegen.py:%d has too many alternatives" % getattr(s, "_srcline", s.lineno))
            sub = Interp(self.m, asg, self.depth)
            env2 = dict(env)
            for nm in _target_names(s.target):
                env2[nm] = Atom(nm)
            try:
                out = sub.block(body, env2)
                alts.append(Trace(sub.events, (out or (None,))[0] or "fall", None, {k: v for k, v in asg.items() if k not in base_keys}, sub.sets))
            except Fork as f:
                if f.key in base_keys:
                    raise
                for v in (False, True):
                    a = dict(asg)
                    a[f.key] = v
                    stack.append(a)
        # an atom that was forked inside the loop but does not depend on the
        # loop variable is really loop-invariant: hoist it
        invariant = set()
        tn = set(_target_names(s.target))
        for a in alts:
            for k in a.asg:
                if not any(re.search(r"\b%s\b" % re.escape(t), k) for t in tn) and not k.startswith("~"):
                    invariant.add(k)
        for k in sorted(invariant):
            if k not in self.asg:
                raise Fork(k)
        self.events.append(("STAR", alts, itertext))
        for a in alts:
            for st in a.sets:
                self.sets.append(st)
        return None

    def _has_sets(self, node):
        return False

    def visitor_star(self, vis, env, itertext):
        """children visited by a local visitor class: STAR over its emitting methods."""
        alts = []
        meths = {n.name: n for n in vis.cls.body if isinstance(n, ast.FunctionDef)}
        for name, fn in meths.items():
            if not name.startswith("visit") or name == "visitDefOrBase":
                continue
            if not self._local_emits(fn, meths):
                continue
            stack = [dict(self.asg)]
            base_keys = set(self.asg)
            while stack:
                asg = stack.pop()
                sub = Interp(self.m, asg, self.depth)
                try:
                    t = sub.run_function(fn, {"s": LocalInstance(vis.cls), "__closure__": env})
                    t.asg = {k: v for k, v in asg.items() if k not in base_keys}
                    alts.append(t)
                except Fork as f:
                    if f.key in base_keys:
                        raise
                    for v in (False, True):
                        a = dict(asg)
                        a[f.key] = v
                        stack.append(a)
        if alts:
            self.events.append(("STAR", alts, itertext + " via " + vis.cls.name))

    def _local_emits(self, fn, meths):
        for n in ast.walk(fn):
            if isinstance(n, ast.Call) and isinstance(n.func, ast.Attribute):
                if dotted(n.func.value) == "s" and n.func.attr in meths and meths[n.func.attr] is not fn and self._local_emits(meths[n.func.attr], meths):
                    return True
        return self.m.node_emits(fn)

    # ------------------------------------------------------------------
    def truth(self, e, env):
        if isinstance(e, ast.BoolOp):
            if isinstance(e.op, ast.And):
                for v in e.values:
                    if not self.truth(v, env):
                        return False
                return True
            for v in e.values:
                if self.truth(v, env):
                    return True
            return False
        if isinstance(e, ast.UnaryOp) and isinstance(e.op, ast.Not):
            return not self.truth(e.operand, env)
        v = self.value(e, env)
        return self.truth_of(v)

    def truth_of(self, v):
        if isinstance(v, Const):
            return bool(v.v)
        if isinstance(v, Str):
            if v.is_const():
                return bool(v.literal())
            if v.literal():
                return True
            return self.atom("nonempty(%s)" % v.text())
        if isinstance(v, Atom):
            return self.atom(v.key)
        if isinstance(v, Lazy):
            return self.truth(v.expr, v.env)
        if isinstance(v, (LocalDef, LocalInstance, PrinterVal, SelfVal)):
            return True
        return self.atom("?%r" % (v,))

    def atom(self, key):
        if key in self.asg:
            return self.asg[key]
        raise Fork(key)

    # ------------------------------------------------------------------
    def key_of(self, e, env):
        """expression text with locals replaced by the key of the atom they hold."""
        class R(ast.NodeTransformer):
            def visit_Name(s, n):
                v = env.get(n.id)
                if isinstance(v, Atom):
                    return ast.Name(id="{%s}" % v.key if v.key != n.id else n.id, ctx=n.ctx)
                if isinstance(v, Const):
                    return ast.Constant(value=v.v)
                return n

            def visit_Attribute(s, n):
                d = dotted(n)
                if d in env and isinstance(env[d], Const):
                    return ast.Constant(value=env[d].v)
                return s.generic_visit(n)
        try:
            t = R().visit(_clone(e))
            return ast.unparse(t)
        except Exception:
            return src(e)

    def value(self, e, env):
        if e is None:
            return Const(None)
        if isinstance(e, ast.Constant):
            return Str([("lit", e.value)]) if isinstance(e.value, str) else Const(e.value)
        if isinstance(e, ast.Name):
            if e.id in env:
                return env[e.id]
            if e.id in ("True", "False", "None"):
                return Const(eval(e.id))
            return Atom(e.id)
        if isinstance(e, ast.Attribute):
            d = dotted(e)
            if d and d in env:
                return env[d]
            if d == "self.printer":
                return PRINTER
            if d and d.startswith("self.") and d.count(".") == 1 and d in env:
                return env[d]
            base = self.value(e.value, env) if not isinstance(e.value, ast.Name) or e.value.id in env else None
            if isinstance(base, Atom) and isinstance(e.value, ast.Name) and base.key != e.value.id:
                return Atom("{%s}.%s" % (base.key, e.attr))
            return Atom(self.key_of(e, env))
        if isinstance(e, (ast.BoolOp,)):
            # value of and/or used as value (e.g. `pagetag or node`)
            if isinstance(e.op, ast.Or):
                for v in e.values[:-1]:
                    val = self.value(v, env)
                    if isinstance(val, Const):
                        if val.v:
                            return val
                        continue
                    return Atom(self.key_of(e, env))
                return self.value(e.values[-1], env)
            return Lazy(e, env)
        if isinstance(e, ast.UnaryOp) and isinstance(e.op, ast.Not):
            v = self.value(e.operand, env)
            if isinstance(v, Const):
                return Const(not v.v)
            return Lazy(e, env)
        if isinstance(e, ast.Compare):
            if len(e.ops) == 1:
                l, r = self.value(e.left, env), self.value(e.comparators[0], env)
                lc, rc = _pyconst(l), _pyconst(r)
                if lc is not _NO and rc is not _NO:
                    op = e.ops[0]
                    try:
                        if isinstance(op, ast.Eq):
                            return Const(lc == rc)
                        if isinstance(op, ast.NotEq):
                            return Const(lc != rc)
                        if isinstance(op, ast.Is):
                            return Const(lc is rc)
                        if isinstance(op, ast.IsNot):
                            return Const(lc is not rc)
                        if isinstance(op, ast.In):
                            return Const(lc in rc)
                        if isinstance(op, ast.NotIn):
                            return Const(lc not in rc)
                    except Exception:
                        pass
                # `x is None` where x is a non-None abstract object
                if isinstance(e.ops[0], (ast.Is, ast.IsNot)) and rc is None and isinstance(l, (LocalDef, LocalInstance, PrinterVal, SelfVal, Str)):
                    return Const(isinstance(e.ops[0], ast.IsNot))
            return Atom(self.key_of(e, env))
        if isinstance(e, ast.BinOp):
            if isinstance(e.op, ast.Mod):
                l = self.value(e.left, env)
                if isinstance(l, Str):
                    return self.fmt(l, e.right, env)
            if isinstance(e.op, ast.Add):
                l, r = self.value(e.left, env), self.value(e.right, env)
                if isinstance(l, Str) or isinstance(r, Str):
                    return concat(to_str(l, src(e.left)), to_str(r, src(e.right)))
            return Atom(self.key_of(e, env))
        if isinstance(e, ast.JoinedStr):
            parts = []
            for v in e.values:
                if isinstance(v, ast.Constant):
                    parts.append(("lit", v.value))
                else:
                    val = self.value(v.value, env)
                    kind = "r" if v.conversion == ord("r") else "s"
                    parts.extend(to_str(val, src(v.value), kind).parts)
            return Str(parts)
        if isinstance(e, ast.Call) and isinstance(e.func, ast.Name) and e.func.id == "bool" and len(e.args) == 1 and not e.keywords and "bool" not in env:
            v = self.value(e.args[0], env)
            if isinstance(v, Const):
                return Const(bool(v.v))
            return Lazy(e.args[0], env)
        if isinstance(e, ast.Call):
            return self.call(e, env)
        if isinstance(e, ast.IfExp):
            return self.value(e.body, env) if self.truth(e.test, env) else self.value(e.orelse, env)
        if isinstance(e, (ast.List, ast.Tuple)):
            vals = [self.value(x, env) for x in e.elts]
            if all(_pyconst(v) is not _NO for v in vals):
                c = [_pyconst(v) for v in vals]
                return Const(c if isinstance(e, ast.List) else tuple(c))
            if isinstance(e, ast.List) and vals and all(isinstance(v, (Str, Atom)) or (isinstance(v, Const) and isinstance(v.v, str)) for v in vals) and any(isinstance(v, Str) for v in vals):
                return ListVal([to_str(v, src(x)) for v, x in zip(vals, e.elts)])
            return Atom(self.key_of(e, env))
        if isinstance(e, (ast.Dict, ast.Set, ast.ListComp, ast.DictComp, ast.SetComp, ast.GeneratorExp, ast.Lambda, ast.Subscript, ast.Starred)):
            if isinstance(e, ast.Subscript):
                d = dotted(e)
                if d and d in env:
                    return env[d]
            return Atom(self.key_of(e, env))
        raise AnalysisError("emit: expression %s at codegen.py:%d not modelled" % (type(e).__name__, getattr(e, "_srcline", getattr(e, "lineno", 0))))

    def fmt(self, l, right, env):
        args = list(right.elts) if isinstance(right, ast.Tuple) else [right]
        if isinstance(right, ast.Name) and ("\0tuple:" + right.id) in env:
            vals = list(env["\0tuple:" + right.id])
        else:
            vals = [(self.value(a, env), src(a)) for a in args]
        out = []
        i = 0
        for p in l.parts:
            if p[0] != "lit":
                out.append(p)
                continue
            for m in re.finditer(r"%%|%[#0\- +]*\d*(?:\.\d+)?([srd])|([^%]+)", p[1]):
                if m.group(0) == "%%":
                    out.append(("lit", "%"))
                elif m.group(1):
                    if i >= len(vals):
                        raise AnalysisError("emit: format string has more holes than arguments at codegen.py:%d" % getattr(right, "_srcline", right.lineno))
                    v, t = vals[i]
                    i += 1
                    out.extend(to_str(v, t, "r" if m.group(1) == "r" else "s").parts)
                else:
                    out.append(("lit", m.group(2)))
        return Str(_merge(out))

    # ------------------------------------------------------------------
    def call(self, c, env):
        f = c.func
        name = dotted(f)
        # printer calls
        if isinstance(f, ast.Attribute) and f.attr in PRINTER_METHODS:
            recv = self.value(f.value, env)
            if recv is PRINTER:
                return self.printer_call(f.attr, c, env)
        # methods of the generator
        if isinstance(f, ast.Attribute) and self.value(f.value, env) is SELF and f.attr in self.m.methods:
            return self.emitter_call(f.attr, self.m.methods[f.attr], c, env, True)
        if isinstance(f, ast.Name) and f.id in self.m.modfuncs and f.id not in env:
            fn = self.m.modfuncs[f.id]
            if self.m.emits(fn):
                return self.emitter_call(f.id, fn, c, env, False)
            return Atom(self.key_of(c, env))
        if isinstance(f, ast.Name) and f.id == "_GenerateRenderMethod":
            self.events.append(("CALL", "_GenerateRenderMethod", {}))
            return Atom("generator")
        # local helper functions / classes
        if isinstance(f, ast.Name) and isinstance(env.get(f.id), LocalDef):
            d = env[f.id].node
            if isinstance(d, ast.ClassDef):
                return LocalInstance(d)
            if self.m.node_emits(d):
                sub = Interp(self.m, self.asg, self.depth)
                sub.events = self.events
                sub.sets = self.sets
                b = {"__closure__": env}
                for p, a in zip([x.arg for x in d.args.args], c.args):
                    b[p] = self.value(a, env)
                t = sub.run_function(d, b)
                return t.retval or Const(None)
            return Atom(self.key_of(c, env))
        # visitor dispatch on a single node: node.accept_visitor(x)
        if isinstance(f, ast.Attribute) and f.attr == "accept_visitor" and c.args:
            vis = self.value(c.args[0], env)
            if vis is SELF:
                self.events.append(("CHILDREN", src(f.value)))
            elif isinstance(vis, LocalInstance):
                self.visitor_star(vis, env, src(f.value))
            return Const(None)
        # local-visitor method calling a sibling method: s.visitDefOrBase(node)
        if isinstance(f, ast.Attribute) and isinstance(self.value(f.value, env), LocalInstance):
            inst = self.value(f.value, env)
            meths = {n.name: n for n in inst.cls.body if isinstance(n, ast.FunctionDef)}
            if f.attr in meths:
                sub = Interp(self.m, self.asg, self.depth)
                sub.events = self.events
                sub.sets = self.sets
                d = meths[f.attr]
                b = {"__closure__": env.get("__closure_env__", env), "s": inst}
                for p, a in zip([x.arg for x in d.args.args[1:]], c.args):
                    b[p] = self.value(a, env)
                t = sub.run_function(d, b)
                return t.retval or Const(None)
        # text pieces collected in a list
        if isinstance(f, ast.Attribute) and f.attr in ("append", "extend") and isinstance(f.value, ast.Name) and isinstance(env.get(f.value.id), Const) and isinstance(env[f.value.id].v, list) \
                and all(isinstance(x_, str) for x_ in env[f.value.id].v) and len(c.args) == 1:
            # a list of lines started empty / with constant lines
            env[f.value.id] = ListVal([Str([("lit", x_)]) for x_ in env[f.value.id].v])
        if isinstance(f, ast.Attribute) and f.attr in ("append", "extend") and isinstance(f.value, ast.Name) and isinstance(env.get(f.value.id), ListVal) and len(c.args) == 1:
            v = self.value(c.args[0], env)
            if f.attr == "extend" and isinstance(v, Const) and isinstance(v.v, (list, tuple)) and all(isinstance(x_, str) for x_ in v.v):
                env[f.value.id] = ListVal(env[f.value.id].items + [Str([("lit", x_)]) for x_ in v.v])
                return Const(None)
            if f.attr == "append":
                env[f.value.id] = ListVal(env[f.value.id].items + [to_str(v, src(c.args[0]))])
                return Const(None)
            if isinstance(v, ListVal):
                env[f.value.id] = ListVal(env[f.value.id].items + v.items)
                return Const(None)
        # string helpers
        if isinstance(f, ast.Attribute) and f.attr == "join" and len(c.args) == 1:
            sep = self.value(f.value, env)
            lst = self.value(c.args[0], env) if isinstance(c.args[0], (ast.Name, ast.List)) else None
            if isinstance(sep, Str) and sep.is_const() and isinstance(lst, ListVal):
                out = None
                for it in lst.items:
                    out = it if out is None else concat(concat(out, sep), it)
                return out if out is not None else Str([("lit", "")])
            if isinstance(sep, Str) and sep.is_const():
                return Str([("hole", src(c.args[0]), "join" if sep.literal() else "opt")])
        if name == "repr" and len(c.args) == 1:
            v = self.value(c.args[0], env)
            return to_str(v, src(c.args[0]), "r")
        if name == "str" and len(c.args) == 1:
            return to_str(self.value(c.args[0], env), src(c.args[0]), "s")
        if name in ("getattr",) and len(c.args) == 3:
            d = dotted(c.args[0])
            a = const(c.args[1])
            if d and isinstance(a, str) and ("%s.%s" % (d, a)) in env:
                return env["%s.%s" % (d, a)]
            return Atom("%s.%s" % (d, a))
        # everything else must not emit
        for a in list(c.args) + [k.value for k in c.keywords]:
            if self.m.node_emits(a):
                raise AnalysisError("emit: emission inside call arguments at codegen.py:%d" % getattr(c, "_srcline", c.lineno))
        return Atom(self.key_of(c, env))

    def printer_call(self, meth, c, env):
        if meth == "writeline":
            self.line(c.args[0], env, c)
        elif meth == "writelines":
            for a in c.args:
                if isinstance(a, ast.Starred):
                    lv = self.value(a.value, env) if isinstance(a.value, ast.Name) else None
                    if isinstance(a.value, ast.Name) and ("\0lines:" + a.value.id) in env:
                        lv = env["\0lines:" + a.value.id]
                    if isinstance(lv, Const) and isinstance(lv.v, (list, tuple)) and all(isinstance(x_, str) or x_ is None for x_ in lv.v):
                        lv = ListVal([Str([("lit", x_)]) if x_ is not None else Const(None) for x_ in lv.v])
                    if not isinstance(lv, ListVal):
                        raise AnalysisError("emit: writelines(*x) at codegen.py:%d not modelled" % getattr(c, "_srcline", c.lineno))
                    for it_ in lv.items:
                        self.line_value(it_, a.value, c)
                    continue
                self.line(a, env, c)
        elif meth == "write_blanks":
            self.events.append(("BLANK", src(c.args[0]) if c.args else "1"))
        elif meth == "start_source":
            v = self.value(c.args[0], env)
            self.events.append(("SRC", src(c.args[0]), v, c))
        elif meth == "write_indented_block":
            kw = {k.arg: src(k.value) for k in c.keywords}
            self.events.append(("USERBLOCK", src(c.args[0]) if c.args else "", kw, c))
        elif meth in ("write", "close"):
            raise AnalysisError("emit: raw printer.%s at codegen.py:%d" % (meth, getattr(c, "_srcline", c.lineno)))
        return Const(None)

    def line(self, a, env, c):
        v = self.value(a, env)
        return self.line_value(v, a, c)

    def line_value(self, v, a, c):
        if isinstance(v, Const) and v.v is None:
            self.events.append(("DEDENT", c))
            return
        s = to_str(v, src(a), "user" if isinstance(v, Atom) else "s")
        self.events.append(("LINE", s, c))

    def emitter_call(self, name, fn, c, env, is_method):
        params = [x.arg for x in fn.args.args]
        if is_method:
            params = params[1:]
        b = {"__defaults__": True}
        for p, a in zip(params, c.args):
            b[p] = self.value(a, env)
        for k in c.keywords:
            if k.arg:
                b[k.arg] = self.value(k.value, env)
        if not self.m.emits(fn):
            # pure helper: its result is an opaque expression string built around its `target`
            if name == "create_filter_callable":
                tgt = b.get("target")
                args = b.get("args")
                argtxt = src(c.args[0]) if c.args else "?"
                return Str([("hole", "filters(%s)" % argtxt, "opt"), ("lit", "(")] + to_str(tgt, "target").parts + [("lit", ")")])
            return Atom(self.key_of(c, env))
        if self.depth < 6 and not self.m.self_contained(name, fn):
            # inline with parameter binding: shares our assignment and event list
            sub = Interp(self.m, self.asg, self.depth + 1)
            sub.events = self.events
            sub.sets = self.sets
            # attribute-valued state (self.in_def = True ...) flows into the callee
            for k, v in env.items():
                if k.startswith("self."):
                    b.setdefault("__closure__", {})[k] = v
            t = sub.run_function(fn, b)
            if t.outcome == "raise":
                raise _Raised()
            return t.retval if t.retval is not None else Const(None)
        self.events.append(("CALL", name, {k: v for k, v in b.items() if not k.startswith("__")}, c))
        return Atom("%s()" % name)


def _clone(n):
    """structural copy of an AST subtree (fields only; no parent links)."""
    if isinstance(n, ast.AST):
        new = type(n)()
        for f in n._fields:
            if hasattr(n, f):
                setattr(new, f, _clone(getattr(n, f)))
        return new
    if isinstance(n, list):
        return [_clone(x) for x in n]
    return n


class _Raised(Exception):
    pass


_NO = object()


def _pyconst(v):
    if isinstance(v, Const):
        return v.v
    if isinstance(v, Str) and v.is_const():
        return v.literal()
    return _NO


def _target_names(t):
    if isinstance(t, ast.Name):
        return [t.id]
    if isinstance(t, (ast.Tuple, ast.List)):
        return [n for e in t.elts for n in _target_names(e)]
    return []


def _merge(parts):
    out = []
    for p in parts:
        if p[0] == "lit" and out and out[-1][0] == "lit":
            out[-1] = ("lit", out[-1][1] + p[1])
        elif p[0] == "lit" and p[1] == "":
            continue
        else:
            out.append(p)
    return out


def to_str(v, text, kind="s"):
    if isinstance(v, Str):
        if kind == "r":
            if v.is_const():
                return Str([("lit", repr(v.literal()))])
            return Str([("hole", v.text(), "r")])
        return v
    if isinstance(v, Const):
        return Str([("lit", repr(v.v) if kind == "r" else str(v.v))])
    if isinstance(v, Atom):
        return Str([("hole", v.key, kind)])
    return Str([("hole", text, kind)])


def concat(a, b):
    return Str(_merge(list(a.parts) + list(b.parts)))


def parse_skeleton(res, wrap=True):
    """ast of a laid-out skeleton (wrapped in a function so that `return` is
    legal); None when it is not well-formed Python."""
    body = res.source(1 if wrap else 0)
    text = ("def __skeleton__(context, **pageargs):\n" + (body if body.strip() else "    pass\n")) if wrap else body
    try:
        return ast.parse(text)
    except SyntaxError:
        return None


# ----------------------------------------------------------------------
# layout: PythonPrinter.writeline's indentation automaton
# ----------------------------------------------------------------------

class LayoutResult:
    def __init__(self):
        self.lines = []  # (indent, text, event)
        self.final_indent = 0
        self.error = None
        self.min_indent = 0

    def source(self, prefix_indent=0):
        return "\n".join("    " * (i + prefix_indent) + t for i, t, _ in self.lines) + "\n"


class Layout:
    """re-implementation of PythonPrinter.writeline's indent logic with the
    regex tables read from pygen.py on every run."""

    NAMES = ("_re_space_comment", "_re_space", "_re_indent", "_re_compound", "_re_indent_keyword", "_re_unindentor")

    def __init__(self, db):
        init = db.func("pygen.PythonPrinter.__init__")
        self.re = {}
        self.re_src = {}
        for n in walk_func(init):
            if isinstance(n, ast.Assign) and isinstance(n.value, ast.Call) and dotted(n.value.func) == "re.compile":
                t = dotted(n.targets[0])
                if t and t.startswith("self._re_"):
                    from .facts import str_value
                    pat = str_value(n.value.args[0])
                    if pat is None:
                        raise AnalysisError("pygen: regex %s is not a constant" % t)
                    self.re[t[5:]] = re.compile(pat)
                    self.re_src[t[5:]] = pat
        # an optional "which keyword may continue which statement" table used by _is_unindentor
        self.continuations = None
        self.unindentor_shape = "any"
        for n in walk_func(init):
            if isinstance(n, ast.Assign) and isinstance(n.value, ast.Dict) and dotted(n.targets[0]) and dotted(n.targets[0]).startswith("self."):
                try:
                    tbl = {const(k): {const(e) for e in v.elts} for k, v in zip(n.value.keys, n.value.values) if isinstance(v, (ast.Tuple, ast.List, ast.Set))}
                except Exception:
                    tbl = None
                if tbl and all(isinstance(k, str) for k in tbl) and len(tbl) == len(n.value.keys):
                    attr = dotted(n.targets[0])[5:]
                    iu = db.func("pygen.PythonPrinter._is_unindentor")
                    if any(isinstance(x, ast.Attribute) and x.attr == attr for x in ast.walk(iu)):
                        self.continuations = tbl
                        self.unindentor_shape = "table:" + attr
        iu = db.func("pygen.PythonPrinter._is_unindentor")
        rets = [r for r in walk_func(iu) if isinstance(r, ast.Return)]
        last = rets[-1] if rets else None
        # the modelled decision: "some unindentor keyword matches" (bool(match)), optionally
        # restricted by the continuation table
        self.unindentor_model_ok = last is not None and (
            (isinstance(last.value, ast.Call) and dotted(last.value.func) == "bool" and len(last.value.args) == 1)
            or (self.continuations is not None and isinstance(last.value, ast.Compare) and isinstance(last.value.ops[0], ast.In))
            or (isinstance(last.value, ast.Compare) and isinstance(last.value.ops[0], (ast.IsNot,)))
            or (isinstance(last.value, ast.Name))
        )
        missing = [n for n in self.NAMES if n not in self.re]
        if missing:
            raise AnalysisError("pygen.PythonPrinter.__init__: regex tables %s not found" % missing)

    def render(self, s, user_header=None):
        """concrete text for an abstract line."""
        out = []
        for p in s.parts:
            if p[0] == "lit":
                out.append(p[1])
            else:
                kind = p[2]
                if kind == "r":
                    out.append("'__H__'")
                elif kind == "opt":
                    out.append("")
                elif kind == "user":
                    out.append(user_header if user_header is not None else "__USER__")
                else:
                    out.append("__H__")
        return "".join(out)

    def run(self, events, user_header=None, star_unroll=1, children="__CHILDREN__()", start_indent=0):
        res = LayoutResult()
        st = dict(indent=start_indent, detail=[None] * start_indent)
        self._run(events, res, st, user_header, star_unroll, children)
        res.final_indent = st["indent"] - start_indent
        return res

    def _emit(self, res, st, text, ev):
        res.lines.append((st["indent"], text, ev))

    def _writeline(self, res, st, line, ev):
        R = self.re
        if line is None or R["_re_space_comment"].match(line) or R["_re_space"].match(line):
            hastext = False
        else:
            hastext = True
        is_comment = line and len(line) and line[0] == "#"
        if (not is_comment) and (not hastext or self._is_unindentor(st, line)) and st["indent"] > 0:
            st["indent"] -= 1
            if not st["detail"]:
                res.error = res.error or "Too many whitespace closures at %r" % (line,)
            else:
                st["detail"].pop()
        elif (not is_comment) and (not hastext) and st["indent"] == 0 and line is None:
            res.min_indent = min(res.min_indent, -1)
            res.error = res.error or "dedent below the starting level"
        if line is None:
            return
        self._emit(res, st, line, ev)
        if R["_re_indent"].search(line):
            m = R["_re_compound"].match(line)
            if m:
                st["indent"] += 1
                st["detail"].append(m.group(1))
            else:
                m2 = R["_re_indent_keyword"].match(line)
                if m2:
                    st["indent"] += 1
                    st["detail"].append(None)

    def _is_unindentor(self, st, line):
        if not st["detail"]:
            return False
        if st["detail"][-1] is None:
            return False
        m = self.re["_re_unindentor"].match(line)
        if not m:
            return False
        if self.continuations is not None:
            return m.group(1) in self.continuations.get(st["detail"][-1], ())
        return True

    def _run(self, events, res, st, user_header, star_unroll, children):
        for ev in events:
            k = ev[0]
            if k == "LINE":
                text = self.render(ev[1], user_header)
                for ln in text.split("\n")[:1]:
                    self._writeline(res, st, text, ev)
            elif k == "DEDENT":
                self._writeline(res, st, None, ev)
            elif k == "BLANK":
                pass
            elif k == "SRC":
                pass
            elif k == "SET":
                pass
            elif k == "USERBLOCK":
                self._emit(res, st, "__USERBLOCK__()", ev)
            elif k == "CHILDREN":
                self._emit(res, st, children, ev)
            elif k == "CALL":
                self._emit(res, st, "__CALL_%s__()" % ev[1], ev)
            elif k == "RAISE":
                pass
            elif k == "STAR":
                alts = ev[1]
                for _ in range(star_unroll):
                    for a in alts:
                        if a.outcome == "raise":
                            continue
                        self._run(a.events, res, st, user_header, star_unroll, children)
            else:
                raise AnalysisError("layout: unknown event %s" % k)
