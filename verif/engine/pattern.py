"""Syntax-tree patterns with metavariables (semgrep style), so that rules do
not depend on the spelling of local names, formatting or quoting.

    $x        matches any expression; repeated occurrences must match the same
              expression (compared structurally)
    $_        matches any expression, no consistency requirement
    ...       as a statement: any (possibly empty) sequence of statements
              as a call argument: any remaining arguments

A pattern that is a single expression matches expressions and expression
statements; otherwise it is a sequence of statements matched against a
contiguous slice of a statement list."""

import ast
import re

_MV = "__mv_"


def _compile(text):
    srcp = re.sub(r"\$(\w+)", lambda m: _MV + m.group(1), text)
    tree = ast.parse(srcp)
    # patterns go through the same canonicalisation as the analysed code (engine/normalize.py)
    from . import normalize
    normalize.percent_format(tree)
    normalize.canon_flow(tree, pattern=True)
    body = tree.body
    if len(body) == 1 and isinstance(body[0], ast.Expr):
        return ("expr", body[0].value)
    return ("stmts", body)


_cache = {}


def compile_pattern(text):
    if text not in _cache:
        _cache[text] = _compile(text)
    return _cache[text]


def _is_mv(n):
    return isinstance(n, ast.Name) and n.id.startswith(_MV)


def _is_ellipsis_stmt(s):
    return isinstance(s, ast.Expr) and isinstance(s.value, ast.Constant) and s.value.value is Ellipsis


def is_noop(s):
    """a statement without effect in the analysed code: `pass`, a docstring or any other constant expression statement"""
    return isinstance(s, ast.Pass) or (isinstance(s, ast.Expr) and isinstance(s.value, ast.Constant) and s.value.value is not Ellipsis)


def effective(stmts):
    return [s for s in stmts if not is_noop(s)]


def _is_ellipsis_expr(e):
    return isinstance(e, ast.Constant) and e.value is Ellipsis


def _dump(n):
    """structural text of a node, ignoring load/store context"""
    if isinstance(n, ast.AST):
        return "%s(%s)" % (type(n).__name__, ",".join(_dump(getattr(n, f, None)) for f in n._fields if f not in ("ctx", "type_comment", "kind")))
    if isinstance(n, list):
        return "[%s]" % ",".join(_dump(x) for x in n)
    return repr(n)


def match(p, n, env):
    """structural match of pattern node p against node n; env: metavariable bindings"""
    if _is_mv(p):
        if not isinstance(n, ast.AST):
            return False
        name = p.id[len(_MV):]
        if name == "_":
            return True
        d = _dump(_strip_ctx(n))
        if name in env:
            return env[name][0] == d
        env[name] = (d, n)
        return True
    if isinstance(p, ast.arg) and p.arg.startswith(_MV):
        # a parameter metavariable binds the parameter's name (as a Name, so that uses in the body agree)
        if not isinstance(n, ast.arg):
            return False
        name = p.arg[len(_MV):]
        if name == "_":
            return True
        nm = ast.Name(id=n.arg, ctx=ast.Load())
        d = _dump(nm)
        if name in env:
            return env[name][0] == d
        env[name] = (d, nm)
        return True
    if isinstance(p, ast.ExceptHandler) and isinstance(n, ast.ExceptHandler) and isinstance(p.name, str) and p.name.startswith(_MV):
        name = p.name[len(_MV):]
        if n.name is None:
            return False
        nm = ast.Name(id=n.name, ctx=ast.Load())
        if name != "_":
            if name in env and env[name][0] != _dump(nm):
                return False
            env[name] = (_dump(nm), nm)
        return match(p.type, n.type, env) and match(p.body, n.body, env)
    if isinstance(p, ast.AST):
        if type(p) is not type(n):
            return False
        if isinstance(p, ast.Call) and p.args and _is_ellipsis_expr(p.args[-1]) and not p.keywords:
            # f(a, ...): remaining positional and all keyword arguments are free
            return match(p.func, n.func, env) and match(p.args, n.args, env)
        for f in p._fields:
            if f in ("ctx", "type_comment", "kind", "type_ignores"):
                continue
            pv, nv = getattr(p, f, None), getattr(n, f, None)
            if not match(pv, nv, env):
                return False
        return True
    if isinstance(p, list):
        if not isinstance(n, list):
            return False
        if p and all(isinstance(x, ast.stmt) for x in p):
            n = effective(n)
            if not _is_ellipsis_stmt(p[-1]) and len([x for x in p if not _is_ellipsis_stmt(x)]) < len(n) and not any(_is_ellipsis_stmt(x) for x in p):
                return False  # a nested block is matched whole unless the pattern leaves it open with `...`
            return _match_stmts(p, n, env, anchored=True)
        # call arguments with a trailing `...`
        if p and _is_ellipsis_expr(p[-1]):
            if len(n) < len(p) - 1:
                return False
            return all(match(a, b, env) for a, b in zip(p[:-1], n))
        if len(p) != len(n):
            return False
        return all(match(a, b, env) for a, b in zip(p, n))
    return p == n


def _strip_ctx(n):
    return n


def _match_stmts(ps, ns, env, anchored):
    """match pattern statements ps against a prefix (anchored) of ns, with `...` wildcards"""
    if not ps:
        return True if not anchored else True
    if _is_ellipsis_stmt(ps[0]):
        for k in range(len(ns) + 1):
            e2 = dict(env)
            if _match_stmts(ps[1:], ns[k:], e2, True):
                env.update(e2)
                return True
        return False
    if not ns:
        return False
    e2 = dict(env)
    if match(ps[0], ns[0], e2) and _match_stmts(ps[1:], ns[1:], e2, True):
        env.update(e2)
        return True
    return False


def _stmt_lists(root):
    for n in ast.walk(root):
        for f in ("body", "orelse", "finalbody"):
            v = getattr(n, f, None)
            if isinstance(v, list) and v and isinstance(v[0], ast.stmt):
                yield v
        if isinstance(n, ast.Try):
            for h in n.handlers:
                yield h.body


def find(root, text, skip_nested=False):
    """all matches of the pattern below root: list of (node or first stmt, env)"""
    kind, pat = compile_pattern(text)
    out = []
    if kind == "expr":
        for n in ast.walk(root):
            if isinstance(n, ast.expr):
                env = {}
                if match(pat, n, env):
                    out.append((n, env))
        return out
    for lst in _stmt_lists(root):
        lst = effective(lst)
        for i in range(len(lst)):
            env = {}
            if _match_stmts(pat, lst[i:], env, True):
                out.append((lst[i], env))
    return out


def has(root, text):
    return bool(find(root, text))


def count(root, text):
    return len(find(root, text))


def matches(node, text, env=None):
    """does this very node (expression or single statement) match the pattern"""
    kind, pat = compile_pattern(text)
    env = {} if env is None else env
    if kind == "expr":
        if isinstance(node, ast.Expr):
            node = node.value
        return match(pat, node, env)
    return len(pat) == 1 and match(pat[0], node, env)
