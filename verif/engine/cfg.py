"""Statement-level control-flow graph with exceptional edges, dominance,
must-pass-through queries and a small forward dataflow driver.

Used both on real functions of the package and on the skeleton programs
reconstructed from the code generator (engine.emit)."""

import ast

from ..core import AnalysisError

SIMPLE = (ast.Expr, ast.Assign, ast.AugAssign, ast.AnnAssign, ast.Delete, ast.Pass,
          ast.Import, ast.ImportFrom, ast.Global, ast.Nonlocal, ast.Assert,
          ast.FunctionDef, ast.AsyncFunctionDef, ast.ClassDef)


def expr_may_raise(e):
    """Conservative: anything that is not a plain name / constant / tuple of
    those may raise."""
    if e is None:
        return False
    if isinstance(e, (ast.Constant, ast.Name)):
        return False
    if isinstance(e, (ast.Tuple, ast.List)):
        return any(expr_may_raise(x) for x in e.elts)
    if isinstance(e, ast.Lambda):
        return False
    return True


def stmt_may_raise(s):
    if isinstance(s, (ast.Pass, ast.Break, ast.Continue, ast.Global, ast.Nonlocal)):
        return False
    if isinstance(s, (ast.FunctionDef, ast.AsyncFunctionDef)):
        return bool(s.decorator_list) or any(expr_may_raise(d) for d in s.args.defaults + [d for d in s.args.kw_defaults if d is not None])
    if isinstance(s, ast.ClassDef):
        return True
    if isinstance(s, ast.Assign):
        if all(isinstance(t, ast.Name) or (isinstance(t, ast.Tuple) and all(isinstance(x, ast.Name) for x in t.elts)) for t in s.targets):
            if isinstance(s.targets[0], ast.Tuple):
                return True if not isinstance(s.value, ast.Tuple) else expr_may_raise(s.value)
            return expr_may_raise(s.value)
        # attribute / subscript store
        if all(isinstance(t, ast.Attribute) and isinstance(t.value, ast.Name) for t in s.targets):
            return expr_may_raise(s.value)
        return True
    if isinstance(s, ast.Return):
        return expr_may_raise(s.value)
    if isinstance(s, ast.Expr):
        return expr_may_raise(s.value)
    return True


class N:
    __slots__ = ("id", "stmt", "label", "succ", "pred", "copy")

    def __init__(self, id, stmt, label, copy=""):
        self.id = id
        self.stmt = stmt
        self.label = label
        self.succ = []  # (node, kind)  kind: 'n' normal, 'e' exceptional
        self.pred = []
        self.copy = copy

    def __repr__(self):
        ln = getattr(self.stmt, "_srcline", getattr(self.stmt, "lineno", "-"))
        return "<%d %s L%s%s>" % (self.id, self.label, ln, ("/" + self.copy) if self.copy else "")


class CFG:
    def __init__(self, body, name="<fn>", raise_everywhere=False):
        """body: list of statements (function body or module body).
        raise_everywhere: every non-trivial statement gets an exceptional edge
        (default: per stmt_may_raise)."""
        self.name = name
        self.nodes = []
        self.entry = self._new(None, "ENTRY")
        self.exit = self._new(None, "EXIT")  # normal return / fall off
        self.rexit = self._new(None, "RAISE")  # exceptional exit
        self._all_raise = raise_everywhere
        ctx = dict(next=self.exit, exc=self.rexit, ret=self.exit, brk=None, cont=None, copy="")
        first = self._block(body, ctx)
        self._edge(self.entry, first, "n")
        self._by_stmt = {}
        for n in self.nodes:
            if n.stmt is not None:
                self._by_stmt.setdefault(id(n.stmt), []).append(n)
        self._dom = None

    # -- construction ------------------------------------------------------
    def _new(self, stmt, label, copy=""):
        n = N(len(self.nodes), stmt, label, copy)
        self.nodes.append(n)
        return n

    def _edge(self, a, b, kind):
        if b is None:
            raise AnalysisError("CFG(%s): break/continue outside loop" % self.name)
        if (b, kind) not in a.succ:
            a.succ.append((b, kind))
            b.pred.append((a, kind))

    def _block(self, stmts, ctx):
        nxt = ctx["next"]
        for s in reversed(stmts):
            nxt = self._stmt(s, dict(ctx, next=nxt))
        return nxt

    def _raises(self, s):
        return True if self._all_raise and not isinstance(s, (ast.Pass, ast.Break, ast.Continue)) else stmt_may_raise(s)

    def _stmt(self, s, ctx):
        cp = ctx["copy"]
        if isinstance(s, SIMPLE):
            n = self._new(s, type(s).__name__, cp)
            self._edge(n, ctx["next"], "n")
            if self._raises(s):
                self._edge(n, ctx["exc"], "e")
            return n
        if isinstance(s, ast.Return):
            n = self._new(s, "Return", cp)
            self._edge(n, ctx["ret"], "n")
            if self._raises(s):
                self._edge(n, ctx["exc"], "e")
            return n
        if isinstance(s, ast.Raise):
            n = self._new(s, "Raise", cp)
            self._edge(n, ctx["exc"], "e")
            return n
        if isinstance(s, ast.Break):
            n = self._new(s, "Break", cp)
            self._edge(n, ctx["brk"], "n")
            return n
        if isinstance(s, ast.Continue):
            n = self._new(s, "Continue", cp)
            self._edge(n, ctx["cont"], "n")
            return n
        if isinstance(s, ast.If):
            t = self._new(s, "If", cp)
            self._edge(t, self._block(s.body, ctx), "n")
            self._edge(t, self._block(s.orelse, ctx) if s.orelse else ctx["next"], "n")
            if expr_may_raise(s.test) or self._all_raise:
                self._edge(t, ctx["exc"], "e")
            return t
        if isinstance(s, ast.While):
            t = self._new(s, "While", cp)
            body = self._block(s.body, dict(ctx, next=t, cont=t, brk=ctx["next"]))
            self._edge(t, body, "n")
            always = isinstance(s.test, ast.Constant) and bool(s.test.value)
            if not always:
                self._edge(t, self._block(s.orelse, ctx) if s.orelse else ctx["next"], "n")
            if expr_may_raise(s.test) or self._all_raise:
                self._edge(t, ctx["exc"], "e")
            return t
        if isinstance(s, (ast.For, ast.AsyncFor)):
            h = self._new(s, "For", cp)
            body = self._block(s.body, dict(ctx, next=h, cont=h, brk=ctx["next"]))
            self._edge(h, body, "n")
            self._edge(h, self._block(s.orelse, ctx) if s.orelse else ctx["next"], "n")
            self._edge(h, ctx["exc"], "e")
            return h
        if isinstance(s, (ast.With, ast.AsyncWith)):
            w = self._new(s, "With", cp)
            self._edge(w, self._block(s.body, ctx), "n")
            self._edge(w, ctx["exc"], "e")
            return w
        if isinstance(s, ast.Try) or type(s).__name__ == "TryStar":
            return self._try(s, ctx)
        raise AnalysisError("CFG(%s): statement kind %s not modelled" % (self.name, type(s).__name__))

    def _try(self, s, ctx):
        cp = ctx["copy"]
        outer = ctx
        if s.finalbody:
            def fin(kind, target, edge_kind):
                if target is None:
                    return None
                tag = (cp + "." if cp else "") + "fin-" + kind
                if edge_kind == "e":
                    r = self._new(s, "Reraise", tag)
                    self._edge(r, target, "e")
                    target = r
                return self._block(s.finalbody, dict(outer, next=target, copy=tag))
            f_next = fin("next", outer["next"], "n")
            f_exc = fin("exc", outer["exc"], "e")
            f_ret = fin("ret", outer["ret"], "n")
            f_brk = fin("brk", outer["brk"], "n")
            f_cont = fin("cont", outer["cont"], "n")
            inner = dict(outer, next=f_next, exc=f_exc, ret=f_ret, brk=f_brk, cont=f_cont)
        else:
            inner = dict(outer)
        after = inner["next"]
        if s.handlers:
            disp = self._new(s, "ExceptDispatch", cp)
            catch_all = False
            for h in s.handlers:
                hn = self._new(h, "Handler", cp)
                self._edge(disp, hn, "n")
                self._edge(hn, self._block(h.body, dict(inner, next=after)), "n")
                if h.type is None or (isinstance(h.type, ast.Name) and h.type.id == "BaseException"):
                    catch_all = True
            if not catch_all:
                self._edge(disp, inner["exc"], "e")
            body_exc = disp
        else:
            body_exc = inner["exc"]
        orelse = self._block(s.orelse, dict(inner, next=after)) if s.orelse else after
        t = self._new(s, "Try", cp)
        self._edge(t, self._block(s.body, dict(inner, next=orelse, exc=body_exc)), "n")
        return t

    # -- queries -----------------------------------------------------------
    def nodes_of(self, stmt):
        return self._by_stmt.get(id(stmt), [])

    def reachable(self, start=None, kinds=("n", "e"), blocked=()):
        start = start or self.entry
        seen = {start}
        todo = [start]
        blocked = set(blocked)
        while todo:
            n = todo.pop()
            for m, k in n.succ:
                if k in kinds and m not in seen and m not in blocked:
                    seen.add(m)
                    todo.append(m)
        return seen

    def dominators(self):
        if self._dom is not None:
            return self._dom
        reach = self.reachable()
        allset = set(reach)
        dom = {n: set(allset) for n in reach}
        dom[self.entry] = {self.entry}
        order = [n for n in self.nodes if n in reach]
        changed = True
        while changed:
            changed = False
            for n in order:
                if n is self.entry:
                    continue
                preds = [p for p, _ in n.pred if p in reach]
                new = set.intersection(*(dom[p] for p in preds)) if preds else set()
                new = new | {n}
                if new != dom[n]:
                    dom[n] = new
                    changed = True
        self._dom = dom
        return dom

    def stmt_dominates(self, a, b):
        """every reachable CFG node of statement b is dominated by a node of a."""
        dom = self.dominators()
        na = set(self.nodes_of(a))
        nb = [n for n in self.nodes_of(b) if n in dom]
        if not na or not nb:
            return False
        return all(dom[n] & na for n in nb)

    def path_avoiding(self, start, targets, avoid, kinds=("n", "e")):
        """a path (list of nodes) from start to any node in targets that does
        not pass through a node in avoid; None if there is none."""
        avoid = set(avoid)
        targets = set(targets)
        if start in avoid:
            return None
        prev = {start: None}
        todo = [start]
        while todo:
            n = todo.pop(0)
            if n in targets and n is not start:
                path = []
                while n is not None:
                    path.append(n)
                    n = prev[n]
                return path[::-1]
            for m, k in n.succ:
                if k in kinds and m not in prev and m not in avoid:
                    prev[m] = n
                    todo.append(m)
        return None

    def must_pass(self, start, through, exits=None, kinds=("n", "e")):
        """(True, None) if every path start ->* exit passes a node in `through`,
        else (False, witness path)."""
        exits = exits or [self.exit, self.rexit]
        p = self.path_avoiding(start, exits, through, kinds)
        return (p is None), p

    def fmt_path(self, path):
        out = []
        for n in path or []:
            ln = getattr(n.stmt, "_srcline", getattr(n.stmt, "lineno", None))
            out.append("%s%s" % (n.label, "@%s" % ln if ln else ""))
        return " -> ".join(out)


def forward(cfg, init, transfer, max_states=4000):
    """Forward dataflow with state *sets* (property simulation).
    transfer(node, state) -> iterable of (state', edge_kind_filter) where
    edge_kind_filter is 'n', 'e' or None (both).  The default convention used
    by callers: on 'n' edges the statement completed, on 'e' edges it did not.
    Returns dict node -> set of in-states."""
    IN = {cfg.entry: {init}}
    todo = [(cfg.entry, init)]
    count = 0
    while todo:
        n, st = todo.pop()
        count += 1
        if count > max_states * 50:
            raise AnalysisError("dataflow on %s does not converge" % cfg.name)
        outs = list(transfer(n, st))
        for m, k in n.succ:
            for st2, filt in outs:
                if filt is not None and filt != k:
                    continue
                s = IN.setdefault(m, set())
                if st2 not in s:
                    if len(s) > max_states:
                        raise AnalysisError("state explosion in %s" % cfg.name)
                    s.add(st2)
                    todo.append((m, st2))
    return IN


def function_cfg(fn, raise_everywhere=False):
    return CFG(fn.body, getattr(fn, "_qual", fn.name), raise_everywhere)
