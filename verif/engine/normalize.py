"""Canonical form of the analysed syntax trees.

The rules decide properties from the shape of the code; a behaviour-preserving
refactoring must therefore not change the shape they see.  Before anything is
indexed every module is brought into a canonical form in which the common
refactorings converge:

  N1  statements without effect are dropped (docstrings, constant expressions)
  N2  f-strings and simple str.format() calls become %-formatting
  N3  module-level constants (strings, tuples of constants, compiled regular
      expressions) are substituted where they are used; a compiled pattern's
      method call becomes the equivalent re.<method>(pattern, ..., flags)
  N4  `with <lock>:` becomes acquire / try / finally release
  N5  calls of helper functions that are NOT in the inventory of known
      functions (engine/known_symbols.json: the functions the rules know as
      units) are inlined into their callers: "extract helper / method" is undone
  N6  single-assignment locals whose value is a pure expression are substituted
      into their uses ("introduce explaining variable" is undone)

The passes are deliberately conservative: where a construct is outside what a
pass understands, the tree is left as it is (and the rules see the
refactored shape)."""

import ast
import copy
import json
import os

# calls without effect whose result is an immutable value (a fresh list / dict / set has an identity: it is never substituted)
PURE_CALLS = {"len", "bool", "str", "repr", "int", "tuple", "frozenset", "isinstance", "hasattr", "getattr", "abs", "min", "max", "hex", "id"}
RE_METHODS = {"match", "search", "fullmatch", "sub", "subn", "split", "findall", "finditer"}


# ----------------------------------------------------------------------
# N1
# ----------------------------------------------------------------------

def split_writelines(tree):
    """<x>.printer.writelines(a, b, c)  ->  <x>.printer.writeline(a); ...writeline(b); ...writeline(c)
    (PythonPrinter.writelines is `for line in lines: self.writeline(line)`; the arguments are text expressions)"""
    for node in ast.walk(tree):
        for f in ("body", "orelse", "finalbody"):
            v = getattr(node, f, None)
            if not (isinstance(v, list) and v and isinstance(v[0], ast.stmt)):
                continue
            out = []
            for s in v:
                c = s.value if isinstance(s, ast.Expr) else None
                if isinstance(c, ast.Call) and isinstance(c.func, ast.Attribute) and c.func.attr == "writelines" and not c.keywords and c.args and not any(isinstance(a, ast.Starred) for a in c.args) \
                        and ((isinstance(c.func.value, ast.Attribute) and c.func.value.attr == "printer") or (isinstance(c.func.value, ast.Name) and c.func.value.id == "printer")):
                    for a in c.args:
                        one = ast.Expr(value=ast.Call(func=ast.Attribute(value=copy.deepcopy(c.func.value), attr="writeline", ctx=ast.Load()), args=[a], keywords=[]))
                        out.append(ast.fix_missing_locations(ast.copy_location(one, s)))
                else:
                    out.append(s)
            setattr(node, f, out)


def drop_dead_local_defs(tree):
    """a function defined inside another one and never mentioned there has no effect (what it did now stands at its former call sites)"""
    for fn in ast.walk(tree):
        if not isinstance(fn, (ast.FunctionDef, ast.AsyncFunctionDef)):
            continue
        for lst in _stmt_lists(fn):
            for s in list(lst):
                if isinstance(s, ast.FunctionDef) and not s.decorator_list and all(isinstance(d, ast.Constant) for d in s.args.defaults + [d for d in s.args.kw_defaults if d is not None]):
                    used = any(isinstance(n, ast.Name) and n.id == s.name for n in ast.walk(fn) if n is not s) or any(isinstance(n, (ast.Global, ast.Nonlocal)) and s.name in n.names for n in ast.walk(fn))
                    inner = any(isinstance(n, ast.Name) and n.id == s.name for n in ast.walk(s))
                    refs = sum(1 for n in ast.walk(fn) if isinstance(n, ast.Name) and n.id == s.name) - sum(1 for n in ast.walk(s) if isinstance(n, ast.Name) and n.id == s.name)
                    if refs == 0 and len(lst) > 1:
                        lst.remove(s)


def split_or_callee(tree):
    """(a or b)(args)  as a statement  ->  if a: a(args) else: b(args)     (a, b plain names / attribute chains)"""
    for node in ast.walk(tree):
        for f in ("body", "orelse", "finalbody"):
            v = getattr(node, f, None)
            if not (isinstance(v, list) and v and isinstance(v[0], ast.stmt)):
                continue
            out = []
            for s in v:
                c = s.value if isinstance(s, ast.Expr) else None
                if isinstance(c, ast.Call) and isinstance(c.func, ast.BoolOp) and isinstance(c.func.op, ast.Or) and len(c.func.values) == 2 and all(_simple_arg(x) for x in c.func.values):
                    a, b = c.func.values
                    one = ast.Expr(value=ast.Call(func=copy.deepcopy(a), args=c.args, keywords=c.keywords))
                    two = ast.Expr(value=ast.Call(func=b, args=copy.deepcopy(c.args), keywords=copy.deepcopy(c.keywords)))
                    new = ast.If(test=a, body=[one], orelse=[two])
                    out.append(ast.fix_missing_locations(ast.copy_location(new, s)))
                else:
                    out.append(s)
            setattr(node, f, out)


def split_star_calls(tree):
    """f(*(A if c else B))  as a statement  ->  if c: f(*A) else: f(*B);    f(*(a, b))  ->  f(a, b)"""
    def expand(s):
        c = s.value if isinstance(s, ast.Expr) else None
        if isinstance(c, ast.Call) and len(c.args) == 1 and isinstance(c.args[0], ast.Starred) and not c.keywords:
            v = c.args[0].value
            if isinstance(v, ast.IfExp):
                one = ast.copy_location(ast.Expr(value=ast.Call(func=copy.deepcopy(c.func), args=[ast.Starred(value=v.body, ctx=ast.Load())], keywords=[])), s)
                two = ast.copy_location(ast.Expr(value=ast.Call(func=copy.deepcopy(c.func), args=[ast.Starred(value=v.orelse, ctx=ast.Load())], keywords=[])), s)
                new = ast.If(test=v.test, body=expand(one), orelse=expand(two))
                return [ast.fix_missing_locations(ast.copy_location(new, s))]
            if isinstance(v, (ast.Tuple, ast.List)) and not any(isinstance(e, ast.Starred) for e in v.elts):
                new = ast.Expr(value=ast.Call(func=c.func, args=list(v.elts), keywords=[]))
                return [ast.fix_missing_locations(ast.copy_location(new, s))]
        return [s]
    for node in ast.walk(tree):
        for f in ("body", "orelse", "finalbody"):
            v = getattr(node, f, None)
            if isinstance(v, list) and v and isinstance(v[0], ast.stmt):
                out = []
                for s in v:
                    out.extend(expand(s))
                setattr(node, f, out)


def split_chained_assign(tree):
    """t1 = n = E   ->   n = E; t1 = n      (n a plain name that the other targets do not mention)"""
    for node in ast.walk(tree):
        for f in ("body", "orelse", "finalbody"):
            v = getattr(node, f, None)
            if not (isinstance(v, list) and v and isinstance(v[0], ast.stmt)):
                continue
            out = []
            for s in v:
                if isinstance(s, ast.Assign) and len(s.targets) > 1:
                    names = [t for t in s.targets if isinstance(t, ast.Name)]
                    carrier = next((t for t in names if not any(isinstance(x, ast.Name) and x.id == t.id for o in s.targets if o is not t for x in ast.walk(o))
                                    and not any(isinstance(x, ast.Name) and x.id == t.id for x in ast.walk(s.value))), None)
                    if carrier is not None:
                        out.append(ast.fix_missing_locations(ast.copy_location(ast.Assign(targets=[carrier], value=s.value), s)))
                        for o in s.targets:
                            if o is not carrier:
                                out.append(ast.fix_missing_locations(ast.copy_location(ast.Assign(targets=[o], value=ast.Name(id=carrier.id, ctx=ast.Load())), s)))
                        continue
                out.append(s)
            setattr(node, f, out)


def drop_noops(tree):
    for node in ast.walk(tree):
        for f in ("body", "orelse", "finalbody"):
            v = getattr(node, f, None)
            if isinstance(v, list) and v and isinstance(v[0], ast.stmt):
                kept = [s for s in v if not (isinstance(s, ast.Expr) and isinstance(s.value, ast.Constant) and s.value.value is not Ellipsis)]
                if not kept and f == "body":
                    p = ast.Pass()
                    ast.copy_location(p, v[0])
                    kept = [p]
                setattr(node, f, kept)


# ----------------------------------------------------------------------
# N2  f-strings / str.format -> %
# ----------------------------------------------------------------------

class _Percent(ast.NodeTransformer):
    def visit_JoinedStr(self, node):
        self.generic_visit(node)
        fmt, args = "", []
        for v in node.values:
            if isinstance(v, ast.Constant) and isinstance(v.value, str):
                fmt += v.value.replace("%", "%%")
            elif isinstance(v, ast.FormattedValue) and v.format_spec is None and v.conversion in (-1, 115, 114):
                fmt += "%r" if v.conversion == 114 else "%s"
                args.append(v.value)
            else:
                return node
        if not args:
            return ast.copy_location(ast.Constant(value=fmt.replace("%%", "%")), node)
        right = args[0] if len(args) == 1 and not isinstance(args[0], ast.Tuple) else ast.Tuple(elts=args, ctx=ast.Load())
        new = ast.BinOp(left=ast.Constant(value=fmt), op=ast.Mod(), right=right)
        return ast.fix_missing_locations(ast.copy_location(new, node))

    def visit_Call(self, node):
        self.generic_visit(node)
        if isinstance(node.func, ast.Attribute) and node.func.attr == "format" and isinstance(node.func.value, ast.Constant) and isinstance(node.func.value.value, str) and not node.keywords and node.args and not any(isinstance(a, ast.Starred) for a in node.args):
            s = node.func.value.value
            import re
            parts = re.split(r"(\{\d*(?:![rs])?\})", s)
            fmt, args, auto = "", [], 0
            for p in parts:
                m = re.fullmatch(r"\{(\d*)(?:!([rs]))?\}", p)
                if m:
                    idx = int(m.group(1)) if m.group(1) else auto
                    auto += 1
                    if idx >= len(node.args):
                        return node
                    args.append(node.args[idx])
                    fmt += "%r" if m.group(2) == "r" else "%s"
                else:
                    if "{" in p.replace("{{", "") or "}" in p.replace("}}", ""):
                        return node
                    fmt += p.replace("{{", "{").replace("}}", "}").replace("%", "%%")
            right = args[0] if len(args) == 1 and not isinstance(args[0], ast.Tuple) else ast.Tuple(elts=args, ctx=ast.Load())
            new = ast.BinOp(left=ast.Constant(value=fmt), op=ast.Mod(), right=right)
            return ast.fix_missing_locations(ast.copy_location(new, node))
        return node


def percent_format(tree):
    return _Percent().visit(tree)


# ----------------------------------------------------------------------
# N3  module-level constants and compiled patterns
# ----------------------------------------------------------------------

_MODULE_FUNCS = set()  # set by inline_module_constants for the module at hand


def _is_const_expr(e):
    if isinstance(e, ast.Constant):
        return isinstance(e.value, (str, bytes, int, float, bool, type(None)))
    if isinstance(e, (ast.Tuple, ast.List)):
        return all(_is_const_expr(x) for x in e.elts)
    if isinstance(e, ast.Call) and isinstance(e.func, ast.Name) and e.func.id == "frozenset" and len(e.args) <= 1 and not e.keywords:
        return all(_is_const_expr(x) for x in e.args)
    if isinstance(e, ast.Set):
        return all(_is_const_expr(x) for x in e.elts)
    if isinstance(e, ast.Dict):
        return all(k is not None and _is_const_expr(k) for k in e.keys) and all(_is_const_expr(v) for v in e.values)
    # rows of a dispatch table: references to classes / functions of other modules (`parsetree.DefTag`) and lambdas without
    # free local state are fixed once the class body has run
    if isinstance(e, ast.Attribute) and isinstance(e.value, ast.Name) and e.attr[:1].isupper():
        return True
    if isinstance(e, ast.Name) and e.id in _MODULE_FUNCS:
        return True  # a module-level function that is never rebound
    if isinstance(e, ast.Lambda) and not e.args.defaults and not e.args.kw_defaults:
        params = {a.arg for a in e.args.posonlyargs + e.args.args + e.args.kwonlyargs}
        free = {n.id for n in ast.walk(e.body) if isinstance(n, ast.Name)} - params
        return not free
    return False


def _is_compile(e):
    return isinstance(e, ast.Call) and isinstance(e.func, ast.Attribute) and isinstance(e.func.value, ast.Name) and e.func.value.id == "re" and e.func.attr == "compile" and e.args and _flag_expr_ok(e)


def _flag_expr_ok(call):
    def ok(x):
        if isinstance(x, ast.BinOp) and isinstance(x.op, ast.BitOr):
            return ok(x.left) and ok(x.right)
        return (isinstance(x, ast.Attribute) and isinstance(x.value, ast.Name) and x.value.id == "re") or (isinstance(x, ast.Constant) and isinstance(x.value, int))
    rest = list(call.args[1:]) + [k.value for k in call.keywords]
    return isinstance(call.args[0], (ast.Constant, ast.BinOp, ast.JoinedStr)) and all(ok(x) for x in rest)


def _assigned_names(node):
    out = set()
    for n in ast.walk(node):
        if isinstance(n, ast.Name) and isinstance(n.ctx, (ast.Store, ast.Del)):
            out.add(n.id)
        elif isinstance(n, (ast.FunctionDef, ast.AsyncFunctionDef, ast.ClassDef)):
            out.add(n.name)
        elif isinstance(n, ast.arg):
            out.add(n.arg)
        elif isinstance(n, (ast.Import, ast.ImportFrom)):
            for a in n.names:
                out.add(a.asname or a.name.split(".")[0])
        elif isinstance(n, ast.ExceptHandler) and n.name:
            out.add(n.name)
    return out


class _ConstInliner(ast.NodeTransformer):
    def __init__(self, consts, keep):
        self.consts = consts  # name -> value expr
        self.shadow = [set()]
        self.keep = keep      # names the rules look up at module level by name: uses are still inlined, the definition stays

    def _scope(self, node):
        self.shadow.append(_assigned_names(node) if not isinstance(node, ast.Module) else set())
        self.generic_visit(node)
        self.shadow.pop()
        return node

    visit_FunctionDef = visit_AsyncFunctionDef = visit_Lambda = _scope

    def visit_ClassDef(self, node):
        self.shadow.append({t.id for s in node.body if isinstance(s, ast.Assign) for t in s.targets if isinstance(t, ast.Name)})
        self.generic_visit(node)
        self.shadow.pop()
        return node

    def visit_Name(self, node):
        if isinstance(node.ctx, ast.Load) and node.id in self.consts and not any(node.id in s for s in self.shadow):
            return ast.copy_location(copy.deepcopy(self.consts[node.id]), node)
        return node


class _Fold(ast.NodeTransformer):
    """len('<constant>') -> its value"""

    def visit_Subscript(self, node):
        self.generic_visit(node)
        # {True: a, False: b}[c]  ->  a if c else b     (a two-entry table keyed by a truth value)
        d = node.value
        if isinstance(node.ctx, ast.Load) and isinstance(d, ast.Dict) and len(d.keys) == 2 and all(isinstance(k, ast.Constant) and isinstance(k.value, bool) for k in d.keys) and d.keys[0].value != d.keys[1].value:
            t = d.values[0] if d.keys[0].value else d.values[1]
            f = d.values[1] if d.keys[0].value else d.values[0]
            return ast.fix_missing_locations(ast.copy_location(ast.IfExp(test=node.slice, body=t, orelse=f), node))
        return node

    def visit_Call(self, node):
        self.generic_visit(node)
        # (lambda a, b: E)(x, y)  ->  E[a := x, b := y]   (plain arguments)
        if isinstance(node.func, ast.Lambda) and not node.keywords and not node.func.args.vararg and not node.func.args.kwarg and not node.func.args.defaults \
                and len(node.args) == len(node.func.args.args) and not node.func.args.posonlyargs and not node.func.args.kwonlyargs and all(_simple_arg(a) for a in node.args):
            body = copy.deepcopy(node.func.body)
            for p, a in zip(node.func.args.args, node.args):
                body = _SubstName(p.arg, a).visit(body)
            return ast.fix_missing_locations(ast.copy_location(body, node))
        if isinstance(node.func, ast.Name) and node.func.id == "len" and len(node.args) == 1 and not node.keywords and isinstance(node.args[0], ast.Constant) and isinstance(node.args[0].value, (str, bytes)):
            return ast.copy_location(ast.Constant(value=len(node.args[0].value)), node)
        # getattr(x, '<name>') -> x.<name>
        if isinstance(node.func, ast.Name) and node.func.id == "getattr" and len(node.args) == 2 and not node.keywords and isinstance(node.args[1], ast.Constant) and isinstance(node.args[1].value, str) and node.args[1].value.isidentifier() and not node.args[1].value.startswith("__"):
            return ast.copy_location(ast.Attribute(value=node.args[0], attr=node.args[1].value, ctx=ast.Load()), node)
        return node


def _fold_binop(self, node):
    """(a, b) + (c,) -> (a, b, c);  (x,) * 3 -> (x, x, x) for side-effect free x (small displays only)"""
    self.generic_visit(node)
    l, r = node.left, node.right
    if isinstance(node.op, ast.Mult) and isinstance(l, (ast.Tuple, ast.List)) and isinstance(r, ast.Constant) and isinstance(r.value, int) and not isinstance(r.value, bool) \
            and 0 <= r.value <= 8 and isinstance(l.ctx, ast.Load) and all(isinstance(e, ast.Constant) for e in l.elts):
        return ast.copy_location(type(l)(elts=[copy.deepcopy(e) for _ in range(r.value) for e in l.elts], ctx=ast.Load()), node)
    if isinstance(node.op, ast.Add) and isinstance(l, ast.Tuple) and isinstance(r, ast.Tuple) and isinstance(l.ctx, ast.Load) and isinstance(r.ctx, ast.Load) \
            and not any(isinstance(e, ast.Starred) for e in l.elts + r.elts):
        return ast.copy_location(ast.Tuple(elts=l.elts + r.elts, ctx=ast.Load()), node)
    return node


_Fold.visit_BinOp = _fold_binop


class _ReCanon(ast.NodeTransformer):
    """re.compile(p, f).m(args) -> re.m(p, args, f)"""

    def visit_Call(self, node):
        self.generic_visit(node)
        f = node.func
        if isinstance(f, ast.Attribute) and f.attr in RE_METHODS and _is_compile(f.value):
            comp = f.value
            pat = comp.args[0]
            flags = comp.args[1] if len(comp.args) > 1 else None
            for k in comp.keywords:
                if k.arg == "flags":
                    flags = k.value
            # pos/endpos arguments of pattern methods have no module-level equivalent
            maxargs = {"match": 1, "search": 1, "fullmatch": 1, "findall": 1, "finditer": 1, "split": 2, "sub": 3, "subn": 3}[f.attr]
            if len(node.args) > maxargs:
                return node
            new = ast.Call(func=ast.Attribute(value=ast.Name(id="re", ctx=ast.Load()), attr=f.attr, ctx=ast.Load()), args=[pat] + list(node.args), keywords=list(node.keywords))
            if flags is not None:
                if f.attr in ("match", "search", "fullmatch", "findall", "finditer") and not node.keywords:
                    new.args.append(flags)
                else:
                    new.keywords.append(ast.keyword(arg="flags", value=flags))
            return ast.fix_missing_locations(ast.copy_location(new, node))
        # re.m(re.compile(p, f), args) -> re.m(p, args, f): the module functions accept a compiled pattern
        if isinstance(f, ast.Attribute) and f.attr in RE_METHODS and isinstance(f.value, ast.Name) and f.value.id == "re" and node.args and _is_compile(node.args[0]) and not node.keywords:
            comp = node.args[0]
            flags = comp.args[1] if len(comp.args) > 1 else None
            for k in comp.keywords:
                if k.arg == "flags":
                    flags = k.value
            maxargs = {"match": 2, "search": 2, "fullmatch": 2, "findall": 2, "finditer": 2, "split": 3, "sub": 4, "subn": 4}[f.attr]
            if len(node.args) <= maxargs and not (flags is not None and len(node.args) != {"match": 2, "search": 2, "fullmatch": 2, "findall": 2, "finditer": 2, "split": 2, "sub": 3, "subn": 3}[f.attr]):
                new = ast.Call(func=f, args=[comp.args[0]] + list(node.args[1:]), keywords=[])
                if flags is not None:
                    if f.attr in ("match", "search", "fullmatch", "findall", "finditer"):
                        new.args.append(flags)
                    else:
                        new.keywords.append(ast.keyword(arg="flags", value=flags))
                return ast.fix_missing_locations(ast.copy_location(new, node))
        return node


class _ClassConstInliner(ast.NodeTransformer):
    def __init__(self, clsname, consts):
        self.clsname, self.consts = clsname, consts

    def visit_Attribute(self, node):
        self.generic_visit(node)
        if isinstance(node.ctx, ast.Load) and node.attr in self.consts and isinstance(node.value, ast.Name) and node.value.id in ("self", "cls", self.clsname):
            return ast.copy_location(copy.deepcopy(self.consts[node.attr]), node)
        return node


def inline_class_constants(tree):
    """private class attributes bound once to a constant are substituted where the class's methods read them"""
    stored = set()
    for n in ast.walk(tree):
        if isinstance(n, ast.Attribute) and isinstance(n.ctx, (ast.Store, ast.Del)):
            stored.add(n.attr)
        if isinstance(n, ast.Call) and isinstance(n.func, ast.Name) and n.func.id == "setattr":
            return tree  # attributes set by name: leave everything alone
    for c in ast.walk(tree):
        if not isinstance(c, ast.ClassDef):
            continue
        counts = {}
        for s in c.body:
            if isinstance(s, ast.Assign):
                for t in s.targets:
                    if isinstance(t, ast.Name):
                        counts[t.id] = counts.get(t.id, 0) + 1
        consts = {}
        for s in c.body:
            if isinstance(s, ast.Assign) and len(s.targets) == 1 and isinstance(s.targets[0], ast.Name):
                nm = s.targets[0].id
                if counts.get(nm) == 1 and nm.startswith("_") and not nm.startswith("__") and nm not in stored and _is_const_expr(s.value) and not isinstance(s.value, ast.Constant):
                    consts[nm] = s.value
        if consts:
            tr = _ClassConstInliner(c.name, consts)
            for s in c.body:
                if isinstance(s, (ast.FunctionDef, ast.AsyncFunctionDef)):
                    tr.visit(s)
    return tree


def inline_module_constants(tree):
    """substitute module-level names bound once to a constant / compiled pattern"""
    counts = {}
    for s in tree.body:
        for n in ast.walk(s) if not isinstance(s, (ast.FunctionDef, ast.ClassDef, ast.AsyncFunctionDef)) else []:
            if isinstance(n, ast.Name) and isinstance(n.ctx, ast.Store):
                counts[n.id] = counts.get(n.id, 0) + 1
    # names re-bound inside functions through `global`
    for n in ast.walk(tree):
        if isinstance(n, ast.Global):
            for nm in n.names:
                counts[nm] = counts.get(nm, 0) + 2
    consts = {}
    _MODULE_FUNCS.clear()
    stored_anywhere = {n.id for n in ast.walk(tree) if isinstance(n, ast.Name) and isinstance(n.ctx, (ast.Store, ast.Del))} | {a.arg for a in ast.walk(tree) if isinstance(a, ast.arg)}
    fdefs = [s_.name for s_ in tree.body if isinstance(s_, ast.FunctionDef)]
    _MODULE_FUNCS.update(n_ for n_ in fdefs if fdefs.count(n_) == 1 and n_ not in stored_anywhere and n_.startswith("_") and n_ not in counts)
    for s in tree.body:
        if isinstance(s, ast.Assign) and len(s.targets) == 1 and isinstance(s.targets[0], ast.Name) and counts.get(s.targets[0].id) == 1:
            nm = s.targets[0].id
            if nm.isupper() and not nm.startswith("_") and not _is_compile(s.value):
                continue  # public constants are part of the API surface the rules name (MAGIC_NUMBER, RESERVED_NAMES, ...)
            if _is_compile(s.value) or (_is_const_expr(s.value) and nm.startswith("_")):
                consts[nm] = s.value
    if not consts:
        _ReCanon().visit(tree)
        return tree
    # chains: a constant defined from another constant
    tr = _ConstInliner(consts, set())
    for s in tree.body:
        if isinstance(s, (ast.FunctionDef, ast.AsyncFunctionDef, ast.ClassDef)):
            tr.visit(s)
        elif isinstance(s, ast.Assign) and len(s.targets) == 1 and isinstance(s.targets[0], ast.Name) and s.targets[0].id in consts:
            continue
        else:
            tr.visit(s)
    _ReCanon().visit(tree)
    return tree


# ----------------------------------------------------------------------
# N4  with <lock>:
# ----------------------------------------------------------------------

def _lock_attrs(tree):
    out = set()
    for n in ast.walk(tree):
        if isinstance(n, ast.Assign) and isinstance(n.value, ast.Call) and isinstance(n.value.func, ast.Attribute) and n.value.func.attr in ("Lock", "RLock") and isinstance(n.value.func.value, ast.Name) and n.value.func.value.id == "threading":
            for t in n.targets:
                if isinstance(t, ast.Attribute):
                    out.add(t.attr)
                elif isinstance(t, ast.Name):
                    out.add(t.id)
    return out


class _WithLock(ast.NodeTransformer):
    def __init__(self, locks):
        self.locks = locks

    def visit_With(self, node):
        self.generic_visit(node)
        if len(node.items) == 1 and node.items[0].optional_vars is None:
            e = node.items[0].context_expr
            nm = e.attr if isinstance(e, ast.Attribute) else e.id if isinstance(e, ast.Name) else None
            if nm in self.locks:
                acq = ast.Expr(ast.Call(func=ast.Attribute(value=copy.deepcopy(e), attr="acquire", ctx=ast.Load()), args=[], keywords=[]))
                rel = ast.Expr(ast.Call(func=ast.Attribute(value=copy.deepcopy(e), attr="release", ctx=ast.Load()), args=[], keywords=[]))
                tr = ast.Try(body=node.body, handlers=[], orelse=[], finalbody=[rel])
                for x in (acq, tr):
                    ast.copy_location(x, node)
                    ast.fix_missing_locations(x)
                return [acq, tr]
        return node


def with_lock(tree):
    locks = _lock_attrs(tree)
    if locks:
        _WithLock(locks).visit(tree)
    return tree


# ----------------------------------------------------------------------
# N5  inlining of helpers outside the inventory
# ----------------------------------------------------------------------

def load_known():
    p = os.path.join(os.path.dirname(__file__), "known_symbols.json")
    with open(p) as f:
        return set(json.load(f)["functions"])


def qualnames(tree, modname):
    """(qualname, FunctionDef, owner class or None, enclosing function or None)"""
    out = []

    def visit(node, prefix, cls, func):
        for ch in ast.iter_child_nodes(node):
            if isinstance(ch, (ast.FunctionDef, ast.AsyncFunctionDef)):
                q = prefix + "." + ch.name
                out.append((q, ch, cls, func))
                visit(ch, q, None, ch)
            elif isinstance(ch, ast.ClassDef):
                visit(ch, prefix + "." + ch.name, ch, func)
            else:
                visit(ch, prefix, cls, func)
    visit(tree, modname, None, None)
    return out


def _has(node, types):
    return any(isinstance(n, types) for n in ast.walk(node))


def _tail_returns_only(stmts):
    """every Return in the statement list is in tail position (last statement of the list, recursively through if/else, try bodies excluded)"""
    for i, s in enumerate(stmts):
        last = i == len(stmts) - 1
        if isinstance(s, ast.Return):
            if not last:
                return False
        elif isinstance(s, ast.If):
            if last:
                if not _tail_returns_only(s.body) or not _tail_returns_only(s.orelse):
                    return False
            elif _has_return(s):
                return False
        elif isinstance(s, (ast.FunctionDef, ast.AsyncFunctionDef, ast.ClassDef)):
            continue
        elif isinstance(s, ast.Try) and last and not any(_has_return(f) for f in s.finalbody):
            # try: ...; return E  except X: <raise / return D>: the value is produced inside the try statement either way
            if not _tail_returns_only(s.body) or not _tail_returns_only(s.orelse) or any(not _tail_returns_only(h.body) for h in s.handlers):
                return False
            if s.orelse and _has_return_list(s.body):
                return False
        elif _has_return(s):
            return False
    return True


def _has_return_list(stmts):
    return any(_has_return(s) for s in stmts)


def _has_return(node):
    for n in _walk_same_function(node):
        if isinstance(n, ast.Return):
            return True
    return False


def _walk_same_function(node):
    todo = [node]
    while todo:
        n = todo.pop()
        yield n
        for c in ast.iter_child_nodes(n):
            if isinstance(c, (ast.FunctionDef, ast.AsyncFunctionDef, ast.ClassDef, ast.Lambda)):
                continue
            todo.append(c)


def nest_early_exits(stmts):
    """`if c: ...; return` followed by more statements -> the rest becomes the else branch (so that every return is in tail position)"""
    out = list(stmts)
    for i, s in enumerate(out):
        if isinstance(s, ast.If):
            s.body = nest_early_exits(s.body)
            s.orelse = nest_early_exits(s.orelse)
            rest = out[i + 1:]
            if rest and _has_return(s):
                if s.body and _always_exits(s.body) and not s.orelse:
                    s.orelse = nest_early_exits(rest)
                    return out[: i + 1]
                if s.orelse and _always_exits(s.orelse) and not _always_exits(s.body):
                    s.body = s.body + copy.deepcopy(nest_early_exits(rest))
                    return out[: i + 1]
                if s.body and _always_exits(s.body) and s.orelse and not _always_exits(s.orelse):
                    s.orelse = s.orelse + nest_early_exits(rest)
                    return out[: i + 1]
    return out


def _always_exits(body):
    if not body:
        return False
    last = body[-1]
    if isinstance(last, (ast.Return, ast.Raise)):
        return True
    if isinstance(last, ast.If):
        return _always_exits(last.body) and _always_exits(last.orelse)
    if isinstance(last, ast.Try) and not last.finalbody:
        return (_always_exits(last.orelse) if last.orelse else _always_exits(last.body)) and all(_always_exits(h.body) for h in last.handlers)
    return False


def _replace_returns(stmts, make):
    """replace tail Return statements using make(value_or_None) -> list of statements"""
    out = []
    for s in stmts:
        if isinstance(s, ast.Return):
            out.extend(make(s.value, s))
        elif isinstance(s, ast.If):
            s.body = _replace_returns(s.body, make) or [ast.copy_location(ast.Pass(), s)]
            s.orelse = _replace_returns(s.orelse, make)
            out.append(s)
        elif isinstance(s, ast.Try) and s is stmts[-1]:
            s.body = _replace_returns(s.body, make) or [ast.copy_location(ast.Pass(), s)]
            s.orelse = _replace_returns(s.orelse, make)
            for h in s.handlers:
                h.body = _replace_returns(h.body, make) or [ast.copy_location(ast.Pass(), h)]
            out.append(s)
        else:
            out.append(s)
    return out


def _simple_arg(e):
    if isinstance(e, (ast.Name, ast.Constant)):
        return True
    if isinstance(e, ast.Attribute):
        return _simple_arg(e.value)
    return False


class _Rename(ast.NodeTransformer):
    def __init__(self, names, exprs):
        self.names = names  # old -> new name
        self.exprs = exprs  # param -> expression

    def visit_Name(self, node):
        if node.id in self.exprs:
            if isinstance(node.ctx, ast.Load):
                return ast.copy_location(copy.deepcopy(self.exprs[node.id]), node)
            return node
        if node.id in self.names:
            return ast.copy_location(ast.Name(id=self.names[node.id], ctx=node.ctx), node)
        return node

    def visit_ExceptHandler(self, node):
        if node.name in self.names:
            node.name = self.names[node.name]
        return self.generic_visit(node)

    def visit_FunctionDef(self, node):
        if node.name in self.names:
            node.name = self.names[node.name]
        return self.generic_visit(node)

    def visit_arg(self, node):
        return node


def _handler_style_exit(ex):
    """(E, [extra conditions], [handler statements]) for an __exit__(self, t, v, tb) of the form
         if [c1 or ...] t is None or not issubclass(t, E): return False
         <handler: may use v, ends by raise / return X / falling off>"""
    b = [x for x in ex.body if not (isinstance(x, ast.Expr) and isinstance(x.value, ast.Constant))]
    if not b or not isinstance(b[0], ast.If) or b[0].orelse:
        return None
    t, v, tb = (a.arg for a in ex.args.args[1:])
    test = b[0].test
    ops = list(test.values) if isinstance(test, ast.BoolOp) and isinstance(test.op, ast.Or) else [test]
    etype, none_seen, extra = None, False, []
    for o in ops:
        if isinstance(o, ast.Compare) and len(o.ops) == 1 and isinstance(o.ops[0], ast.Is) and isinstance(o.left, ast.Name) and o.left.id == t \
                and isinstance(o.comparators[0], ast.Constant) and o.comparators[0].value is None:
            none_seen = True
        elif isinstance(o, ast.UnaryOp) and isinstance(o.op, ast.Not) and isinstance(o.operand, ast.Call) and isinstance(o.operand.func, ast.Name) and o.operand.func.id == "issubclass" \
                and len(o.operand.args) == 2 and isinstance(o.operand.args[0], ast.Name) and o.operand.args[0].id == t and etype is None:
            etype = o.operand.args[1]
        elif isinstance(o, ast.UnaryOp) and isinstance(o.op, ast.Not) and isinstance(o.operand, ast.Call) and isinstance(o.operand.func, ast.Name) and o.operand.func.id == "isinstance" \
                and len(o.operand.args) == 2 and isinstance(o.operand.args[0], ast.Name) and o.operand.args[0].id == v and etype is None:
            etype = o.operand.args[1]
        elif any(isinstance(n, ast.Name) and n.id in (t, v, tb) for n in ast.walk(o)) or any(isinstance(n, ast.Call) for n in ast.walk(o)):
            return None
        else:
            extra.append(o)
    if etype is None or not none_seen and not (isinstance(etype, ast.AST)):
        return None
    g = b[0].body
    if not (len(g) == 1 and isinstance(g[0], ast.Return) and (g[0].value is None or (isinstance(g[0].value, ast.Constant) and not g[0].value.value))):
        return None
    rest = b[1:]
    if any(isinstance(n, ast.Name) and n.id in (t, tb) for x in rest for n in ast.walk(x)):
        return None
    if any(isinstance(n, (ast.FunctionDef, ast.Lambda, ast.Yield, ast.YieldFrom)) for x in rest for n in ast.walk(x)):
        return None
    return etype, extra, rest


def _returns_to_reraise(stmts):
    """the statements of a handler-style __exit__ as the body of an except clause: `return <false>` re-raises, `return <true>` ends the
    handler, `return X` re-raises unless X; falling off the end re-raises"""
    def conv(lst, tail):
        out = []
        for x in lst:
            if isinstance(x, ast.Return):
                if x.value is None or (isinstance(x.value, ast.Constant) and not x.value.value):
                    out.append(ast.Raise(exc=None, cause=None))
                elif isinstance(x.value, ast.Constant):
                    out.append(ast.Pass())
                else:
                    val = x.value
                    if isinstance(val, ast.Call) and isinstance(val.func, ast.Name) and val.func.id == "bool" and len(val.args) == 1 and not val.keywords:
                        val = val.args[0]
                    out.append(ast.If(test=ast.UnaryOp(op=ast.Not(), operand=val), body=[ast.Raise(exc=None, cause=None)], orelse=[]))
                return out, True
            if isinstance(x, ast.If):
                x.body, e1 = conv(x.body, False)
                x.orelse, e2 = conv(x.orelse, False) if x.orelse else ([], False)
                x.body = x.body or [ast.Pass()]
            out.append(x)
            if isinstance(x, ast.Raise):
                return out, True
        return out, False
    out, ended = conv(list(stmts), True)
    if not ended:
        out.append(ast.Raise(exc=None, cause=None))
    return out


def _builtin_method_names():
    """attribute names of the objects of the standard library that the package passes around (containers, strings, match objects,
    streams, locks, syntax-tree nodes): a call `x.<name>(...)` on an unknown receiver may be one of those, never assumed to be a new method"""
    import io
    import re as _re
    import threading
    out = set()
    for o in (dict, list, set, frozenset, str, bytes, tuple, int, object, io.StringIO, io.BytesIO, type(_re.compile("")), type(_re.match("", "")),
              type(threading.Lock()), type(threading.RLock()), BaseException, type(iter(())), type(x for x in ())):
        out.update(n for n in dir(o) if not n.startswith("__"))
    return frozenset(out)


_BUILTIN_METHOD_NAMES = _builtin_method_names()


def _pure_chain(e):
    """a name or a chain of attribute reads on a name"""
    while isinstance(e, ast.Attribute):
        e = e.value
    return isinstance(e, ast.Name)


class Inliner:
    MAX_STMTS = 60

    def __init__(self, trees, known):
        self.trees = trees  # modname -> Module ast
        self.known = known
        self.stats = {"inlined": 0, "sites": []}
        self.index = {}
        for mn, t in trees.items():
            for q, fn, cls, func in qualnames(t, mn):
                self.index[q] = (fn, cls, func, mn)
        self.counter = 0
        self._instances = {}
        self._cur = None
        self._objs = {}  # local variable -> qualname of the (new) class it is an instance of, while a function is being dissolved

    def _reindex(self):
        self.index = {}
        for mn, t in self.trees.items():
            for q, fn, cls, func in qualnames(t, mn):
                self.index[q] = (fn, cls, func, mn)

    # -- class hierarchy: overriding and specialisation ---------------------
    def _class_table(self):
        """{class name: (module, ClassDef)} for module-level classes (names are unique enough in one package) and {class: [subclasses]}"""
        classes = {}
        for mn, t in self.trees.items():
            for s in t.body:
                if isinstance(s, ast.ClassDef):
                    classes.setdefault(s.name, (mn, s))
        subs = {}
        for name, (mn, cd) in classes.items():
            for b in cd.bases:
                bn = b.id if isinstance(b, ast.Name) else b.attr if isinstance(b, ast.Attribute) else None
                if bn in classes:
                    subs.setdefault(bn, []).append(name)
        return classes, subs

    def _all_subclasses(self, name):
        out, todo = [], list(self._subs.get(name, []))
        while todo:
            c = todo.pop()
            if c not in out:
                out.append(c)
                todo += self._subs.get(c, [])
        return out

    @staticmethod
    def _methods(cd):
        return {s.name: s for s in cd.body if isinstance(s, (ast.FunctionDef, ast.AsyncFunctionDef))}

    def _override_safe(self, clsname, hook, within):
        """may `self.<hook>()` inside method `within` of class clsname be bound to clsname's own definition: every subclass that
        redefines the hook also has its own `within` (so the method being unfolded never runs for it)"""
        for sub in self._all_subclasses(clsname):
            mn, cd = self._classes[sub]
            ms = self._methods(cd)
            if hook in ms:
                # the nearest definition of `within` on the way up from sub must not be the one of clsname
                c = sub
                while c is not None and c != clsname:
                    if within in self._methods(self._classes[c][1]):
                        break
                    bases = [b.id if isinstance(b, ast.Name) else getattr(b, "attr", None) for b in self._classes[c][1].bases]
                    c = next((b for b in bases if b in self._classes), None)
                if c is None or c == clsname:
                    return False
        return True

    def _specialise(self):
        """template-method pattern: a method M of a base class that calls a hook `self.h()` (h outside the inventory) which a subclass
        redefines is what the subclass runs with its own h: the subclass gets its own copy of M (which the unfolding then specialises).
        This restores per-class methods that a refactoring merged into one base-class method with hooks."""
        made = False
        for name, (mn, cd) in list(self._classes.items()):
            ms = self._methods(cd)
            for mname, m in ms.items():
                hooks = {c.func.attr for c in ast.walk(m) if isinstance(c, ast.Call) and isinstance(c.func, ast.Attribute) and isinstance(c.func.value, ast.Name) and c.func.value.id in ("self", "cls")
                         and c.func.attr in ms and c.func.attr != mname and (mn + "." + name + "." + c.func.attr) not in self.known}
                if not hooks:
                    continue
                for sub in self._all_subclasses(name):
                    smn, scd = self._classes[sub]
                    sms = self._methods(scd)
                    if mname in sms:
                        continue
                    # does sub (or a class between) redefine one of the hooks, and is M inherited from `name` itself
                    c, redefines, inherited_from = sub, False, None
                    while c is not None:
                        cms = self._methods(self._classes[c][1])
                        if c != name and hooks & set(cms):
                            redefines = True
                        if mname in cms:
                            inherited_from = c
                            break
                        bases = [b.id if isinstance(b, ast.Name) else getattr(b, "attr", None) for b in self._classes[c][1].bases]
                        c = next((b for b in bases if b in self._classes), None)
                    if redefines and inherited_from == name and smn == mn:
                        scd.body.append(copy.deepcopy(m))
                        self.stats.setdefault("specialised", []).append("%s.%s.%s <- %s" % (smn, sub, mname, name))
                        made = True
        return made

    # -- N9: objects of classes outside the inventory ---------------------
    DUNDER_OK = {"__init__", "__call__", "__enter__", "__exit__"}

    def _new_class(self, mn, name):
        """(ClassDef, {method name: FunctionDef}) for a class of module mn that the inventory does not know and whose objects are
        nothing but a record of fields with plain methods: no bases, no class attributes, no decorators, no implicit protocol
        besides construction, calling and the with statement"""
        tree = self.trees.get(mn)
        cd = next((s for s in tree.body if isinstance(s, ast.ClassDef) and s.name == name), None) if tree is not None else None
        if cd is None:
            return None
        prefix = mn + "." + name + "."
        if any(k.startswith(prefix) for k in self.known):
            return None
        if cd.keywords or cd.decorator_list or any(not (isinstance(b, ast.Name) and b.id == "object") for b in cd.bases):
            return None
        methods = {}
        for s in cd.body:
            if isinstance(s, ast.FunctionDef):
                static = [ast.unparse(d) for d in s.decorator_list] == ["staticmethod"]
                if (s.decorator_list and not static) or s.args.vararg or s.args.kwarg or (not s.args.args and not static) or _has(s, (ast.Yield, ast.YieldFrom, ast.Global, ast.Nonlocal)):
                    return None
                if s.name.startswith("__") and s.name.endswith("__") and s.name not in self.DUNDER_OK:
                    return None
                methods[s.name] = s
            elif isinstance(s, ast.Pass) or (isinstance(s, ast.Expr) and isinstance(s.value, ast.Constant)):
                continue
            elif isinstance(s, ast.Assign) and len(s.targets) == 1 and isinstance(s.targets[0], ast.Name) and s.targets[0].id == "__slots__":
                continue
            else:
                return None
        for m in methods.values():
            if m.decorator_list:
                continue  # a static method: no object to speak of
            sp = m.args.args[0].arg
            bare = 0
            for n in ast.walk(m):
                if isinstance(n, ast.Name) and n.id == sp:
                    bare += 1
                if isinstance(n, ast.Attribute) and isinstance(n.value, ast.Name) and n.value.id == sp:
                    bare -= 1
                if isinstance(n, ast.Return) and isinstance(n.value, ast.Name) and n.value.id == sp and m.name == "__enter__":
                    bare -= 1
            if bare:
                return None  # the object itself is handed on
        return cd, methods

    def _desugar_with(self, fn, mn):
        """with C(args) [as v]: body   (C a new class whose __exit__ ignores the exception and never swallows it)
           ->  v = C(args); v.__enter__(); try: body  finally: v.__exit__(None, None, None)"""
        changed = False
        for lst in list(_stmt_lists(fn)):
            i = 0
            while i < len(lst):
                s = lst[i]
                i += 1
                if not isinstance(s, ast.With):
                    continue
                if len(s.items) > 1 and any(isinstance(it.context_expr, ast.Call) and isinstance(it.context_expr.func, ast.Name) and self._new_class(mn, it.context_expr.func.id) for it in s.items):
                    inner = ast.With(items=s.items[1:], body=s.body)
                    s.items = s.items[:1]
                    s.body = [ast.copy_location(inner, s)]
                it = s.items[0]
                ce = it.context_expr
                existing = None
                if isinstance(ce, ast.Name):
                    # with v:   where v = C(args) was bound (once) before
                    defs = [a_ for a_ in _walk_same_function(fn) if isinstance(a_, ast.Assign) and len(a_.targets) == 1 and isinstance(a_.targets[0], ast.Name) and a_.targets[0].id == ce.id]
                    stores = [n_ for n_ in ast.walk(fn) if isinstance(n_, ast.Name) and n_.id == ce.id and isinstance(n_.ctx, (ast.Store, ast.Del))]
                    if len(defs) == 1 and len(stores) == 1 and isinstance(defs[0].value, ast.Call) and isinstance(defs[0].value.func, ast.Name):
                        existing = ce.id
                        ce = defs[0].value
                if not isinstance(ce, ast.Call) and existing is None and _pure_chain(ce) and len(s.items) == 1:
                    # with E [as v]:   E an existing object whose class got the with-protocol added (the only class of the
                    # package that has it): E.__enter__(); try: body  finally: E.__exit__(None, None, None)
                    owners = [(m2, c2) for m2, t2 in self.trees.items() for c2 in t2.body if isinstance(c2, ast.ClassDef)
                              and {"__enter__", "__exit__"} <= {x.name for x in c2.body if isinstance(x, ast.FunctionDef)}]
                    if len(owners) == 1 and (owners[0][0] + "." + owners[0][1].name + ".__exit__") not in self.known:
                        c2 = owners[0][1]
                        en2 = next(x for x in c2.body if isinstance(x, ast.FunctionDef) and x.name == "__enter__")
                        ex2 = next(x for x in c2.body if isinstance(x, ast.FunctionDef) and x.name == "__exit__")
                        exc2 = {a.arg for a in ex2.args.args[1:]}
                        if (len(ex2.args.args) == 4 and len(en2.args.args) == 1 and not en2.decorator_list and not ex2.decorator_list
                                and not any(isinstance(n, ast.Name) and n.id in exc2 for n in ast.walk(ex2))
                                and not any(not (r.value is None or (isinstance(r.value, ast.Constant) and not r.value.value)) for r in _returns_in(ex2))
                                and (it.optional_vars is None or isinstance(it.optional_vars, ast.Name))):
                            def mcall(meth, args):
                                return ast.Call(func=ast.Attribute(value=copy.deepcopy(ce), attr=meth, ctx=ast.Load()), args=args, keywords=[])
                            first = ast.Expr(value=mcall("__enter__", [])) if it.optional_vars is None else ast.Assign(targets=[ast.Name(id=it.optional_vars.id, ctx=ast.Store())], value=mcall("__enter__", []))
                            new = [first, ast.Try(body=s.body, handlers=[], orelse=[], finalbody=[ast.Expr(value=mcall("__exit__", [ast.Constant(value=None) for _ in range(3)]))])]
                            new = [ast.fix_missing_locations(ast.copy_location(x, s)) for x in new]
                            lst[i - 1:i] = new
                            i += len(new) - 1
                            changed = True
                            self.stats.setdefault("with", []).append(owners[0][0] + "." + c2.name)
                    continue
                if not (isinstance(ce, ast.Call) and isinstance(ce.func, ast.Name)):
                    continue
                nc = self._new_class(mn, ce.func.id)
                if nc is None:
                    continue
                cd, methods = nc
                en, ex = methods.get("__enter__"), methods.get("__exit__")
                if en is None or ex is None or len(ex.args.args) != 4 or len(en.args.args) != 1:
                    continue
                exc_params = {a.arg for a in ex.args.args[1:]}
                on_error = None
                handler_style = None
                if any(isinstance(n, ast.Name) and n.id in exc_params for n in ast.walk(ex)):
                    # __exit__ that acts only when the block raised:  if exc_type is not None: <cleanup>   [return False]
                    b_ = [x for x in ex.body if not (isinstance(x, ast.Expr) and isinstance(x.value, ast.Constant))]
                    t_ = b_[0].test if b_ and isinstance(b_[0], ast.If) else None
                    if (len(b_) in (1, 2) and t_ is not None and not b_[0].orelse and isinstance(t_, ast.Compare) and len(t_.ops) == 1 and isinstance(t_.ops[0], ast.IsNot) and isinstance(t_.left, ast.Name)
                            and t_.left.id == ex.args.args[1].arg and isinstance(t_.comparators[0], ast.Constant) and t_.comparators[0].value is None
                            and not any(isinstance(n, ast.Name) and n.id in exc_params for x in b_[0].body for n in ast.walk(x))
                            and not any(isinstance(n, (ast.Return, ast.Raise)) for x in b_[0].body for n in ast.walk(x))
                            and (len(b_) == 1 or (isinstance(b_[1], ast.Return) and (b_[1].value is None or (isinstance(b_[1].value, ast.Constant) and not b_[1].value.value))))):
                        on_error = b_[0].body
                    else:
                        hs = _handler_style_exit(ex)
                        if hs is None:
                            continue
                        handler_style = hs
                if handler_style is None and any(not (r.value is None or (isinstance(r.value, ast.Constant) and not r.value.value)) for r in _returns_in(ex)):
                    continue
                if it.optional_vars is not None:
                    sp = en.args.args[0].arg
                    rets = _returns_in(en)
                    if not isinstance(it.optional_vars, ast.Name) or len(rets) != 1 or rets[0] is not en.body[-1] or not (isinstance(rets[0].value, ast.Name) and rets[0].value.id == sp):
                        continue
                    v = it.optional_vars.id
                else:
                    self.counter += 1
                    v = "_cm%d" % self.counter
                if existing is not None:
                    alias = v if it.optional_vars is not None and v != existing else None
                    v = existing

                def call(meth, args):
                    c = ast.Call(func=ast.Attribute(value=ast.Name(id=v, ctx=ast.Load()), attr=meth, ctx=ast.Load()), args=args, keywords=[])
                    return ast.Expr(value=c)
                if handler_style is not None:
                    # __exit__ written as an exception handler:  if [extra or] exc_type is None or not issubclass(exc_type, E): return False; <handler>
                    #   ->  try: body  except E as _exc: [if extra: raise]; <handler with `return X` -> `if not X: raise`>
                    etype, extra, rest = handler_style
                    sp_ = ex.args.args[0].arg
                    self.counter += 1
                    en_ = "_exc%d" % self.counter
                    ren = _Rename({}, {sp_: ast.Name(id=v, ctx=ast.Load()), ex.args.args[2].arg: ast.Name(id=en_, ctx=ast.Load())})
                    hb = []
                    if extra:
                        t_ = extra[0] if len(extra) == 1 else ast.BoolOp(op=ast.Or(), values=extra)
                        hb.append(ast.If(test=ren.visit(copy.deepcopy(t_)), body=[ast.Raise(exc=None, cause=None)], orelse=[]))
                    hb += _returns_to_reraise([ren.visit(copy.deepcopy(x)) for x in rest])
                    handler = ast.ExceptHandler(type=copy.deepcopy(etype), name=en_, body=hb or [ast.Raise(exc=None, cause=None)])
                    new = [ast.Assign(targets=[ast.Name(id=v, ctx=ast.Store())], value=ce), call("__enter__", []), ast.Try(body=s.body, handlers=[handler], orelse=[], finalbody=[])]
                elif on_error is not None:
                    sp_ = ex.args.args[0].arg
                    cleanup = [_Rename({}, {sp_: ast.Name(id=v, ctx=ast.Load())}).visit(copy.deepcopy(x)) for x in on_error]
                    handler = ast.ExceptHandler(type=None, name=None, body=cleanup + [ast.Raise(exc=None, cause=None)])
                    new = [ast.Assign(targets=[ast.Name(id=v, ctx=ast.Store())], value=ce), call("__enter__", []), ast.Try(body=s.body, handlers=[handler], orelse=[], finalbody=[])]
                else:
                    new = [ast.Assign(targets=[ast.Name(id=v, ctx=ast.Store())], value=ce), call("__enter__", []),
                           ast.Try(body=s.body, handlers=[], orelse=[], finalbody=[call("__exit__", [ast.Constant(value=None) for _ in range(3)])])]
                if existing is not None:
                    new = new[1:]
                    if alias:
                        new.insert(1, ast.Assign(targets=[ast.Name(id=alias, ctx=ast.Store())], value=ast.Name(id=v, ctx=ast.Load())))
                new = [ast.fix_missing_locations(ast.copy_location(x, s)) for x in new]
                lst[i - 1:i] = new
                i += len(new) - 1
                changed = True
                self.stats.setdefault("with", []).append(mn + "." + cd.name)
        return changed

    def _visitor_protocol_ok(self):
        """every accept_visitor of the package uses its visitor only to look up a visit* method on it (getattr(visitor, "visit" + ...))
        or to hand it to another accept_visitor"""
        if not hasattr(self, "_vp_ok"):
            ok, seen = True, 0
            for t in self.trees.values():
                for f in ast.walk(t):
                    if isinstance(f, ast.FunctionDef) and f.name == "accept_visitor" and len(f.args.args) == 2:
                        seen += 1
                        p_ = f.args.args[1].arg
                        for n in ast.walk(f):
                            if isinstance(n, ast.Name) and n.id == p_ and isinstance(n.ctx, ast.Load):
                                par = [c for c in ast.walk(f) if isinstance(c, ast.Call) and n in c.args]
                                good = any((isinstance(c.func, ast.Name) and c.func.id == "getattr" and c.args[0] is n and len(c.args) >= 2 and "visit" in ast.unparse(c.args[1]))
                                           or (isinstance(c.func, ast.Attribute) and c.func.attr == "accept_visitor" and len(c.args) == 1) for c in par)
                                ok = ok and good
            self._vp_ok = ok and seen > 0
        return self._vp_ok

    def _dissolve_locals(self, fn, fq, mn, cls):
        """v = C(args)  (C a new class; v named once and used only as v.field / v.method(...)):
        the constructor and the methods are unfolded at their call sites and the fields become local variables"""
        done = False
        for _attempt in range(4):
            cand = None
            for n in _walk_same_function(fn):
                if isinstance(n, ast.Assign) and len(n.targets) == 1 and isinstance(n.targets[0], ast.Name) and isinstance(n.value, ast.Call) and isinstance(n.value.func, ast.Name) and n is not fn:
                    nc = self._new_class(mn, n.value.func.id)
                    if nc is None or (mn, fq, n.targets[0].id) in self._tried:
                        continue
                    cand = (n, nc)
                    break
            if cand is None:
                break
            asg, (cd, methods) = cand
            v = asg.targets[0].id
            self._tried.add((mn, fq, v))
            names = [n for n in ast.walk(fn) if isinstance(n, ast.Name) and n.id == v]
            attrs = [a for a in ast.walk(fn) if isinstance(a, ast.Attribute) and isinstance(a.value, ast.Name) and a.value.id == v]
            same = [n for n in _walk_same_function(fn) if isinstance(n, ast.Name) and n.id == v]
            # the object may be handed to the parse tree's visitor protocol (X.accept_visitor(v)), which only ever calls its visit* methods
            escapes = [c.args[0] for c in ast.walk(fn) if isinstance(c, ast.Call) and isinstance(c.func, ast.Attribute) and c.func.attr == "accept_visitor" and len(c.args) == 1 and not c.keywords
                       and isinstance(c.args[0], ast.Name) and c.args[0].id == v] if self._visitor_protocol_ok() else []
            if len(same) != len(names) or sum(1 for n in names if isinstance(n.ctx, (ast.Store, ast.Del))) != 1 or len(attrs) + len(escapes) != len(names) - 1:
                continue
            if escapes and (_in_loop(fn, asg) or any(m_.decorator_list for m_ in methods.values())):
                continue
            if any(isinstance(a, ast.arg) and a.arg == v for a in ast.walk(fn)):
                continue
            callee = {id(c.func) for c in ast.walk(fn) if isinstance(c, ast.Call)}
            if any(a.attr in methods and id(a) not in callee for a in attrs):
                continue  # a bound method handed on as a value
            if any(a.attr.startswith("__") and a.attr not in methods for a in attrs):
                continue
            trial = copy.deepcopy(fn)
            t_asg = next(n for n in _walk_same_function(trial) if isinstance(n, ast.Assign) and len(n.targets) == 1 and isinstance(n.targets[0], ast.Name) and n.targets[0].id == v)
            if "__init__" in methods:
                init = ast.Expr(value=ast.Call(func=ast.Attribute(value=ast.Name(id=v, ctx=ast.Load()), attr="__init__", ctx=ast.Load()), args=t_asg.value.args, keywords=t_asg.value.keywords))
            else:
                if t_asg.value.args or t_asg.value.keywords:
                    continue
                init = ast.Pass()
            init = ast.fix_missing_locations(ast.copy_location(init, t_asg))
            for lst in _stmt_lists(trial):
                if t_asg in lst:
                    lst[lst.index(t_asg)] = init
            # named methods become local functions over the fields (small ones are unfolded later like any local helper);
            # construction and the with-protocol are unfolded here
            named = {}
            todo = [a.attr for a in attrs if a.attr in methods and not a.attr.startswith("__")]
            if escapes:
                todo = []
            while todo:
                m_ = todo.pop()
                if m_ in named:
                    continue
                named[m_] = methods[m_]
                if methods[m_].decorator_list:
                    continue
                sp_ = methods[m_].args.args[0].arg
                todo += [a.attr for a in ast.walk(methods[m_]) if isinstance(a, ast.Attribute) and isinstance(a.value, ast.Name) and a.value.id == sp_ and a.attr in methods]
            if any(n_.startswith("__") for n_ in named):
                continue
            taken0 = {n.id for n in ast.walk(trial) if isinstance(n, ast.Name)} | {a.arg for a in ast.walk(trial) if isinstance(a, ast.arg)} | {f.name for f in ast.walk(trial) if isinstance(f, ast.FunctionDef)}
            if any(n_ in taken0 for n_ in named):
                continue
            residual = {k: m_ for k, m_ in methods.items() if not k.startswith("__")} if escapes else {}
            all_attrs = {a.attr for a in attrs} | {a.attr for m_ in list(named.values()) + list(residual.values()) + [methods[k] for k in ("__init__", "__enter__", "__exit__") if k in methods] if not m_.decorator_list
                                                     for a in ast.walk(m_) if isinstance(a, ast.Attribute) and isinstance(a.value, ast.Name) and a.value.id == m_.args.args[0].arg}
            fieldnames = {}
            for f_ in sorted(all_attrs - set(methods)):
                nm = v + "__" + f_.lstrip("_")
                while nm in taken0 or nm in fieldnames.values():
                    nm += "_"
                fieldnames[f_] = nm
            defs = []
            for n_, m_ in named.items():
                sp_ = m_.args.args[0].arg if not m_.decorator_list else "\0none"
                body_ = copy.deepcopy(m_.body)

                class G(ast.NodeTransformer):
                    def visit_Attribute(self_, node):
                        if isinstance(node.value, ast.Name) and node.value.id == sp_:
                            if node.attr in named:
                                return ast.copy_location(ast.Name(id=node.attr, ctx=ast.Load()), node)
                            return ast.copy_location(ast.Name(id=fieldnames[node.attr], ctx=node.ctx), node)
                        return self_.generic_visit(node)
                body_ = [G().visit(b_) for b_ in body_]
                st_ = sorted({x.id for b_ in body_ for x in ast.walk(b_) if isinstance(x, ast.Name) and isinstance(x.ctx, (ast.Store, ast.Del)) and x.id in fieldnames.values()})
                if st_:
                    body_.insert(0, ast.Nonlocal(names=st_))
                args_ = copy.deepcopy(m_.args)
                if not m_.decorator_list:
                    args_.args = args_.args[1:]
                fd_ = ast.FunctionDef(name=n_, args=args_, body=body_, decorator_list=[], returns=None, type_comment=None, type_params=[])
                defs.append(ast.fix_missing_locations(ast.copy_location(fd_, m_)))
            if residual:
                # the object itself stays, as a bundle of methods closed over the field variables (a class local to the function)
                lname = "_L" + cd.name
                if lname in taken0:
                    continue
                mdefs = []
                for n_, m_ in residual.items():
                    sp_ = m_.args.args[0].arg

                    class G2(ast.NodeTransformer):
                        def visit_Attribute(self_, node):
                            if isinstance(node.value, ast.Name) and node.value.id == sp_ and node.attr in fieldnames:
                                return ast.copy_location(ast.Name(id=fieldnames[node.attr], ctx=node.ctx), node)
                            return self_.generic_visit(node)
                    body_ = [G2().visit(b_) for b_ in copy.deepcopy(m_.body)]
                    st_ = sorted({x.id for b_ in body_ for x in ast.walk(b_) if isinstance(x, ast.Name) and isinstance(x.ctx, (ast.Store, ast.Del)) and x.id in fieldnames.values()})
                    if st_:
                        body_.insert(0, ast.Nonlocal(names=st_))
                    fd_ = ast.FunctionDef(name=n_, args=copy.deepcopy(m_.args), body=body_, decorator_list=[], returns=None, type_comment=None, type_params=[])
                    mdefs.append(ast.fix_missing_locations(ast.copy_location(fd_, m_)))
                lcls = ast.ClassDef(name=lname, bases=[], keywords=[], body=mdefs or [ast.Pass()], decorator_list=[], type_params=[])
                mk = ast.Assign(targets=[ast.Name(id=v, ctx=ast.Store())], value=ast.Call(func=ast.Name(id=lname, ctx=ast.Load()), args=[], keywords=[]))
                defs = [ast.fix_missing_locations(ast.copy_location(lcls, t_asg)), ast.fix_missing_locations(ast.copy_location(mk, t_asg))]
            if defs:
                for lst in _stmt_lists(trial):
                    if init in lst:
                        k_ = lst.index(init)
                        lst[k_ + 1:k_ + 1] = defs
                for c_ in ast.walk(trial):
                    if isinstance(c_, ast.Call) and isinstance(c_.func, ast.Attribute) and isinstance(c_.func.value, ast.Name) and c_.func.value.id == v and c_.func.attr in named:
                        c_.func = ast.copy_location(ast.Name(id=c_.func.attr, ctx=ast.Load()), c_.func)
            self._objs = {v: mn + "." + cd.name}
            before = len(self.stats["sites"])
            try:
                for _round in range(6):
                    if not self._expand(trial, fq, mn, cls):
                        break
            finally:
                self._objs = {}
            left = [a for a in ast.walk(trial) if isinstance(a, ast.Attribute) and isinstance(a.value, ast.Name) and a.value.id == v]
            bare = [n for n in ast.walk(trial) if isinstance(n, ast.Name) and n.id == v]
            if residual:
                if any(a.attr in ("__init__", "__enter__", "__exit__") for a in left) or len(bare) != len(left) + len(escapes) + 1:
                    del self.stats["sites"][before:]
                    continue
                left = [a for a in left if a.attr not in residual]
            elif any(a.attr in methods for a in left) or len(bare) != len(left):
                del self.stats["sites"][before:]
                continue
            fields = fieldnames
            if any(a.attr not in fields for a in left):
                del self.stats["sites"][before:]
                continue

            class F(ast.NodeTransformer):
                def visit_Attribute(self_, node):
                    if isinstance(node.value, ast.Name) and node.value.id == v and node.attr in fields:
                        return ast.copy_location(ast.Name(id=fields[node.attr], ctx=node.ctx), node)
                    return self_.generic_visit(node)
            F().visit(trial)
            fn.body = trial.body
            self.stats.setdefault("dissolved", []).append("%s: %s = %s()" % (fq, v, cd.name))
            done = True
        return done

    def _closure_convert(self, fn, fq, mn):
        """C(args) handed on as a value, C a new class of __init__ (field = argument / constant) and __call__:
        a callable object with state is a closure, so it is written as one:
            <field> = <value> ...; def _C_call(...): nonlocal <fields stored>; <body of __call__ over the fields>"""
        changed = False
        for lst in list(_stmt_lists(fn)):
            i = 0
            while i < len(lst):
                s = lst[i]
                i += 1
                if not isinstance(s, (ast.Expr, ast.Assign, ast.Return)):
                    continue
                for call in [n for n in _walk_no_scopes(s) if isinstance(n, ast.Call) and isinstance(n.func, ast.Name)]:
                    nc = self._new_class(mn, call.func.id)
                    if nc is None:
                        continue
                    cd, methods = nc
                    if set(methods) - {"__init__", "__call__"} or "__call__" not in methods:
                        continue
                    # not inside a loop of fn: every evaluation would need variables of its own
                    if _in_loop(fn, s):
                        continue
                    init, cl = methods.get("__init__"), methods["__call__"]
                    fieldmap, pre, ok = {}, [], True
                    taken = {n.id for n in ast.walk(fn) if isinstance(n, ast.Name)} | {a.arg for a in ast.walk(fn) if isinstance(a, ast.arg)} | {a.arg for a in ast.walk(cl) if isinstance(a, ast.arg)} | {n.id for n in ast.walk(cl) if isinstance(n, ast.Name)}
                    csp = cl.args.args[0].arg
                    stored = {a.attr for a in ast.walk(cl) if isinstance(a, ast.Attribute) and isinstance(a.value, ast.Name) and a.value.id == csp and isinstance(a.ctx, (ast.Store, ast.Del))}
                    fn_stores = {}
                    for n in ast.walk(fn):
                        if isinstance(n, ast.Name) and isinstance(n.ctx, (ast.Store, ast.Del)):
                            fn_stores[n.id] = fn_stores.get(n.id, 0) + 1
                    fparams = {a.arg for a in fn.args.posonlyargs + fn.args.args + fn.args.kwonlyargs}
                    if init is not None:
                        fake = ast.Call(func=ast.Attribute(value=ast.Name(id="\0self", ctx=ast.Load()), attr="__init__", ctx=ast.Load()), args=call.args, keywords=call.keywords)
                        q = mn + "." + cd.name + ".__init__"
                        if q not in self.index:
                            ok = False
                        else:
                            body, exprmap, pre0, ok = self._bind(fake, init, fake.func.value, q)
                        if ok and pre0:
                            ok = False
                        if ok:
                            for st in body:
                                if isinstance(st, ast.Pass) or (isinstance(st, ast.Expr) and isinstance(st.value, ast.Constant)):
                                    continue
                                if not (isinstance(st, ast.Assign) and len(st.targets) == 1 and isinstance(st.targets[0], ast.Attribute) and isinstance(st.targets[0].value, ast.Name) and st.targets[0].value.id == "\0self"):
                                    ok = False
                                    break
                                val = st.value
                                empty_display = (isinstance(val, ast.List) and not val.elts) or (isinstance(val, ast.Dict) and not val.keys)
                                if not (_pure(val) and not _reads_heap(val)) and not empty_display:
                                    ok = False
                                    break
                                f = st.targets[0].attr
                                if f in fieldmap:
                                    ok = False
                                    break
                                if isinstance(val, ast.Name) and f not in stored and (val.id in fparams and fn_stores.get(val.id, 0) == 0):
                                    fieldmap[f] = val.id  # the closure reads the enclosing function's own parameter
                                    continue
                                nm = f.lstrip("_") or f
                                while nm in taken:
                                    nm += "_"
                                taken.add(nm)
                                fieldmap[f] = nm
                                pre.append(ast.fix_missing_locations(ast.copy_location(ast.Assign(targets=[ast.Name(id=nm, ctx=ast.Store())], value=val), s)))
                    elif call.args or call.keywords:
                        ok = False
                    if not ok:
                        continue
                    used = {a.attr for a in ast.walk(cl) if isinstance(a, ast.Attribute) and isinstance(a.value, ast.Name) and a.value.id == csp}
                    if used - set(fieldmap):
                        continue
                    body = copy.deepcopy(cl.body)

                    class F(ast.NodeTransformer):
                        def visit_Attribute(self_, node):
                            if isinstance(node.value, ast.Name) and node.value.id == csp:
                                return ast.copy_location(ast.Name(id=fieldmap[node.attr], ctx=node.ctx), node)
                            return self_.generic_visit(node)
                    body = [F().visit(b) for b in body]
                    nl = sorted(fieldmap[f] for f in stored)
                    if nl:
                        body.insert(0, ast.Nonlocal(names=nl))
                    args = copy.deepcopy(cl.args)
                    args.args = args.args[1:]
                    fname = "_%s_call" % cd.name.strip("_")
                    while fname in taken:
                        fname += "_"
                    fdef = ast.FunctionDef(name=fname, args=args, body=body, decorator_list=[], returns=None, type_comment=None, type_params=[])
                    fdef = ast.fix_missing_locations(ast.copy_location(fdef, cl))
                    _replace_node(s, call, ast.copy_location(ast.Name(id=fname, ctx=ast.Load()), call))
                    lst[i - 1:i - 1] = pre + [fdef]
                    i += len(pre) + 1
                    changed = True
                    self.stats.setdefault("closures", []).append("%s: %s.%s" % (fq, mn, cd.name))
                    break
        return changed

    def _drop_unused_classes(self):
        for mn, tree in self.trees.items():
            for cd in [s for s in tree.body if isinstance(s, ast.ClassDef)]:
                if self._new_class(mn, cd.name) is None:
                    continue
                if not any(mn + "." + cd.name in s for k in ("with", "dissolved", "closures") for s in self.stats.get(k, [])) and not any(("%s()" % cd.name) in s for s in self.stats.get("dissolved", [])):
                    continue
                refs = sum(1 for t in self.trees.values() for n in ast.walk(t) if (isinstance(n, ast.Name) and n.id == cd.name) or (isinstance(n, ast.Attribute) and n.attr == cd.name))
                if refs == 0:
                    tree.body.remove(cd)
                    self.stats.setdefault("dropped", []).append(mn + "." + cd.name)

    def _local_helper(self, q):
        """a small function defined inside another function that is only ever called there (never passed on or returned):
        whether it is written as a closure or its body stands at the call sites is a matter of style"""
        e = self.index.get(q)
        if e is None or e[2] is None:
            return False
        fn, cls, outer, mn = e
        if sum(1 for s in ast.walk(fn) if isinstance(s, ast.stmt)) > 12:
            return False
        for n in ast.walk(outer):
            if isinstance(n, ast.Name) and n.id == fn.name and isinstance(n.ctx, ast.Load):
                par_ok = any(isinstance(c, ast.Call) and c.func is n for c in ast.walk(outer))
                if not par_ok:
                    return False
        return True

    def helper(self, q, with_cm=False):
        e = self.index.get(q)
        if e is None or (q in self.known and not self._local_helper(q)):
            return None
        fn = e[0]
        if isinstance(fn, ast.AsyncFunctionDef):
            return None
        decs = [ast.unparse(d) for d in fn.decorator_list]
        if any(d not in ("staticmethod", "classmethod") for d in decs):
            if not (with_cm and all(d in ("staticmethod", "classmethod", "contextlib.contextmanager", "contextmanager") for d in decs)):
                return None
        elif with_cm:
            return None
        if fn.args.kwarg:
            return None
        if fn.args.vararg and any(isinstance(n, ast.Name) and n.id == fn.args.vararg.arg and isinstance(n.ctx, (ast.Store, ast.Del)) for n in ast.walk(fn)):
            return None
        if _has(fn, (ast.Global,)) or (_has(fn, (ast.Nonlocal,)) and not (self._local_helper(q) and any(isinstance(s, ast.Nonlocal) for s in fn.body) and sum(1 for s in ast.walk(fn) if isinstance(s, ast.Nonlocal)) == 1)):
            return None
        if sum(1 for _ in ast.walk(fn)) > 1500:
            return None
        # a helper that calls itself cannot be unfolded into its caller
        for c in ast.walk(fn):
            if isinstance(c, ast.Call) and ((isinstance(c.func, ast.Name) and c.func.id == fn.name) or (isinstance(c.func, ast.Attribute) and c.func.attr == fn.name and isinstance(c.func.value, ast.Name) and c.func.value.id in ("self", "cls"))):
                return None
        return e

    def _singleton_class(self, modname, name):
        """'mod.C' when `name = C()` is the only binding of a module-level name to an object of a new class without state
        (no __init__, no fields): calling the object is calling C.__call__"""
        tree = self.trees.get(modname)
        if tree is None:
            return None
        cache = self.__dict__.setdefault("_sc_cache", {})
        if (modname, name) in cache:
            return cache[(modname, name)]
        cache[(modname, name)] = None
        cache[(modname, name)] = self._singleton_class_uncached(modname, name, tree)
        return cache[(modname, name)]

    def _singleton_class_uncached(self, modname, name, tree):
        binds = [s_ for s_ in tree.body if isinstance(s_, ast.Assign) and any(isinstance(t, ast.Name) and t.id == name for t in s_.targets)]
        if len(binds) != 1:
            return None
        stores = [n for n in ast.walk(tree) if isinstance(n, ast.Name) and n.id == name and isinstance(n.ctx, (ast.Store, ast.Del))]
        if len(binds) != 1 or len(stores) != 1 or any(isinstance(g, ast.Global) and name in g.names for g in ast.walk(tree)):
            return None
        v_ = binds[0].value
        if not (isinstance(v_, ast.Call) and isinstance(v_.func, ast.Name) and not v_.args and not v_.keywords):
            return None
        nc = self._new_class(modname, v_.func.id)
        if nc is None:
            return None
        cd, methods = nc
        if "__init__" in methods or "__call__" not in methods:
            return None
        for m_ in methods.values():
            if m_.decorator_list:
                continue
            sp_ = m_.args.args[0].arg
            if any(isinstance(a, ast.Attribute) and isinstance(a.value, ast.Name) and a.value.id == sp_ and a.attr not in methods for a in ast.walk(m_)):
                return None  # reads or writes a field
        return modname + "." + cd.name

    def resolve(self, call, modname, cls, enclosing_chain):
        f = call.func
        if isinstance(f, ast.Name):
            # nested helper of an enclosing function, else module-level function
            for encq in reversed(enclosing_chain):
                q = encq + "." + f.id
                if q in self.index:
                    return q, None
            q = modname + "." + f.id
            if q not in self.index:
                sc = self._singleton_class(modname, f.id)
                if sc is not None and (sc + ".__call__") in self.index:
                    return sc + ".__call__", f
            return (q, None) if q in self.index else (None, None)
        if isinstance(f, ast.Attribute) and isinstance(f.value, ast.Name):
            if f.value.id in self._objs:
                q = self._objs[f.value.id] + "." + f.attr
                return (q, f.value) if q in self.index else (None, None)
            if f.value.id in ("self", "cls") and cls is not None:
                within = (self._cur or "").rsplit(".", 1)[-1]
                q = modname + "." + cls.name + "." + f.attr
                if q in self.index:
                    return (q, f.value) if q in self.known or self._override_safe(cls.name, f.attr, within) else (None, None)
                # inherited helper: a base class of the same module
                for b in cls.bases:
                    if isinstance(b, ast.Name):
                        q = modname + "." + b.id + "." + f.attr
                        if q in self.index:
                            return (q, f.value) if q in self.known or (self._override_safe(b.id, f.attr, within) and not any(f.attr in self._methods(self._classes[s_][1]) for s_ in [cls.name] if s_ in self._classes)) else (None, None)
                return None, None
            q = modname + "." + f.value.id + "." + f.attr
            if q in self.index and isinstance(self.index[q][1], ast.ClassDef):
                return q, None
        if isinstance(f, ast.Attribute) and _simple_arg(f.value) and (not f.attr.startswith("__") or f.attr in ("__enter__", "__exit__")):
            # <object>.helper(...): a method outside the inventory whose name is defined exactly once in the package (and is nobody's
            # attribute otherwise) can only be that one
            cands = [q for q, e in self.index.items() if e[1] is not None and q.endswith("." + f.attr) and q not in self.known]
            if len(cands) == 1 and not any(q.endswith("." + f.attr) for q in self.known) and f.attr not in _BUILTIN_METHOD_NAMES:
                cn = cands[0].split(".")[-2]
                decs = [ast.unparse(d) for d in self.index[cands[0]][0].decorator_list]
                if "staticmethod" not in decs and "classmethod" not in decs and not self._subs.get(cn) and "property" not in " ".join(decs):
                    return cands[0], f.value
        return None, None

    def _as_lambdas(self):
        """a helper outside the inventory that only returns an expression, handed on as a value (a callback): written as a lambda"""
        for mn, tree in self.trees.items():
            for n in ast.walk(tree):
                for f, v in ast.iter_fields(n):
                    items = v if isinstance(v, list) else [v]
                    for i, x in enumerate(items):
                        if isinstance(x, ast.Name) and isinstance(x.ctx, ast.Load) and not (isinstance(n, ast.Call) and f == "func"):
                            q = mn + "." + x.id
                            e = self.index.get(q)
                            if e is None or q in self.known or e[1] is not None or e[2] is not None:
                                continue
                            fn = e[0]
                            if len(fn.body) == 1 and isinstance(fn.body[0], ast.Return) and fn.body[0].value is not None and not fn.decorator_list and not fn.args.vararg and not fn.args.kwarg and not fn.args.defaults:
                                lam = ast.Lambda(args=copy.deepcopy(fn.args), body=copy.deepcopy(fn.body[0].value))
                                for a in lam.args.posonlyargs + lam.args.args + lam.args.kwonlyargs:
                                    a.annotation = None
                                lam = ast.fix_missing_locations(ast.copy_location(lam, x))
                                if isinstance(v, list):
                                    v[i] = lam
                                else:
                                    setattr(n, f, lam)
                                self.stats["sites"].append("? <- " + q)

    def run(self):
        self._classes, self._subs = self._class_table()
        if self._specialise():
            self._reindex()
        self._tried = set()
        any_obj = False
        for mn, tree in self.trees.items():
            for q, fn, cls, func in qualnames(tree, mn):
                if self._desugar_with(fn, mn):
                    any_obj = True
                if self._dissolve_locals(fn, q, mn, cls):
                    any_obj = True
        if any_obj:
            self._reindex()
        for mn, tree in self.trees.items():
            for q, fn, cls, func in qualnames(tree, mn):
                for _round in range(4):
                    if not self._expand(fn, q, mn, cls):
                        break
        self._as_lambdas()
        # a helper outside the inventory whose every use was unfolded is dropped: its code now lives in its callers
        used = {}
        for q in list(self.index):
            fn, cls, func, mn = self.index[q]
            if (q in self.known and not self._local_helper(q)) or not any(s.endswith("<- " + q) for s in self.stats["sites"]):
                continue
            refs = 0
            for t in self.trees.values():
                for n in ast.walk(t):
                    if n is fn:
                        continue
                    if (isinstance(n, ast.Name) and n.id == fn.name) or (isinstance(n, ast.Attribute) and n.attr == fn.name):
                        refs += 1
            inner = sum(1 for n in ast.walk(fn) if (isinstance(n, ast.Name) and n.id == fn.name) or (isinstance(n, ast.Attribute) and n.attr == fn.name))
            if refs - inner == 0:
                owner = cls if cls is not None else func if func is not None else self.trees[mn]
                if fn in owner.body:
                    owner.body.remove(fn)
                    if not owner.body:
                        owner.body.append(ast.Pass())
                    self.stats.setdefault("dropped", []).append(q)
        conv = False
        for mn, tree in self.trees.items():
            for q, fn, cls, func in qualnames(tree, mn):
                if cls is None and self._closure_convert(fn, q, mn):
                    conv = True
        if conv:
            self._reindex()
        # a stateless callable singleton whose every call was unfolded: the object is no longer needed
        for mn, tree in self.trees.items():
            for s_ in list(tree.body):
                if isinstance(s_, ast.Assign) and len(s_.targets) == 1 and isinstance(s_.targets[0], ast.Name):
                    nm_ = s_.targets[0].id
                    sc_ = self._singleton_class(mn, nm_)
                    if sc_ and not any(isinstance(n, ast.Name) and n.id == nm_ and isinstance(n.ctx, ast.Load) for t in self.trees.values() for n in ast.walk(t)) \
                            and not any(isinstance(n, ast.Attribute) and n.attr == nm_ for t in self.trees.values() for n in ast.walk(t)) and nm_.startswith("_"):
                        tree.body.remove(s_)
                        self.stats.setdefault("closures", []).append(sc_ + " (singleton %s)" % nm_)
        self._drop_unused_classes()
        return self.stats

    # -- one round over one function -------------------------------------
    def _expand(self, fn, fq, mn, cls):
        self._cur = fq
        chain = []
        parts = fq.split(".")
        for i in range(2, len(parts) + 1):
            chain.append(".".join(parts[:i]))
        changed = False
        changed |= self._expand_list(fn, "body", fq, mn, cls, chain)
        return changed

    def _expand_list(self, owner, field, fq, mn, cls, chain):
        stmts = getattr(owner, field)
        changed = False
        i = 0
        while i < len(stmts):
            s = stmts[i]
            rep = self._expand_stmt(s, fq, mn, cls, chain)
            if rep is not None:
                stmts[i:i + 1] = rep
                changed = True
                i += len(rep)
                continue
            for f in ("body", "orelse", "finalbody"):
                if isinstance(getattr(s, f, None), list) and getattr(s, f) and isinstance(getattr(s, f)[0], ast.stmt) and not isinstance(s, (ast.FunctionDef, ast.AsyncFunctionDef, ast.ClassDef)):
                    changed |= self._expand_list(s, f, fq, mn, cls, chain)
            if isinstance(s, ast.Try):
                for h in s.handlers:
                    changed |= self._expand_list(h, "body", fq, mn, cls, chain)
            i += 1
        return changed

    def _site(self, call, fq, mn, cls, chain):
        if not isinstance(call, ast.Call):
            return None
        q, recv = self.resolve(call, mn, cls, chain)
        if q is None or q == fq or fq.startswith(q + "."):
            return None
        e = self.helper(q)
        if e is None:
            return None
        if _has(e[0], (ast.Nonlocal,)) and q.rsplit(".", 1)[0] != fq:
            return None  # its nonlocal names are plain locals only in the function that defines it
        return q, recv, e

    def _expand_with(self, s, fq, mn, cls, chain):
        """with helper(args) [as v]: body   (helper a new @contextmanager generator with one yield)
           ->  <before the yield>; v = <yielded>; body; <after the yield>     (try/finally around the yield kept)"""
        if len(s.items) != 1 or not isinstance(s.items[0].context_expr, ast.Call):
            return None
        call = s.items[0].context_expr
        q, recv = self.resolve(call, mn, cls, chain)
        if q is None or q == fq:
            return None
        e = self.helper(q, with_cm=True)
        if e is None:
            return None
        hfn = e[0]
        ys = [n for n in _walk_same_function(hfn) if isinstance(n, (ast.Yield, ast.YieldFrom))]
        if not ys or any(not isinstance(y_, ast.Yield) for y_ in ys) or any(r.value is not None for r in _returns_in(hfn)):
            return None
        as_v = s.items[0].optional_vars
        if as_v is not None and not isinstance(as_v, ast.Name):
            return None
        body, exprmap, pre, ok = self._bind(call, hfn, recv, q)
        if not ok:
            return None
        escapes = any(isinstance(n, (ast.Return, ast.Break, ast.Continue)) for b in s.body for n in _walk_loop_body(b)) or any(isinstance(n, ast.Return) for b in s.body for n in _walk_same_function(b))
        if len(ys) > 1 or _has_return(hfn):
            # several yields, one on every path (`if not c: yield; return` in front of the general case)
            body = nest_early_exits(body)
            if not _tail_returns_only(body) or escapes:
                return None
            body = _replace_returns(body, lambda v, at: [])

            def counts(stmts):
                tot = {0}
                for st in stmts:
                    if isinstance(st, ast.Expr) and isinstance(st.value, ast.Yield):
                        c = {1}
                    elif isinstance(st, ast.If):
                        a, b = counts(st.body), counts(st.orelse)
                        c = None if a is None or b is None else a | b
                    elif any(isinstance(n, (ast.Yield, ast.YieldFrom)) for n in _walk_same_function(st)):
                        c = None
                    else:
                        c = {0}
                    if c is None:
                        return None
                    tot = {x + y_ for x in tot for y_ in c}
                return tot
            if counts(body) != {1}:
                return None

            def put(stmts):
                out = []
                for st in stmts:
                    if isinstance(st, ast.Expr) and isinstance(st.value, ast.Yield):
                        if as_v is not None:
                            v = st.value.value if st.value.value is not None else ast.Constant(value=None)
                            out.append(ast.fix_missing_locations(ast.copy_location(ast.Assign(targets=[ast.Name(id=as_v.id, ctx=ast.Store())], value=v), s)))
                        out.extend(copy.deepcopy(s.body))
                    else:
                        if isinstance(st, ast.If):
                            st.body = put(st.body) or [ast.copy_location(ast.Pass(), st)]
                            st.orelse = put(st.orelse)
                        out.append(st)
                return out
            self._note(q, fq)
            return pre + put(body)
        y = next(n for b in body for n in _walk_same_function(b) if isinstance(n, ast.Yield))

        def is_yield_stmt(st):
            return isinstance(st, ast.Expr) and st.value is y

        def bound():
            if as_v is None:
                return []
            v = y.value if y.value is not None else ast.Constant(value=None)
            return [ast.fix_missing_locations(ast.copy_location(ast.Assign(targets=[ast.Name(id=as_v.id, ctx=ast.Store())], value=v), s))]
        for i, st in enumerate(body):
            if is_yield_stmt(st):
                if escapes:
                    return None  # leaving the block by return/break would still run what follows the yield
                self._note(q, fq)
                return pre + body[:i] + bound() + list(s.body) + body[i + 1:]
            if isinstance(st, ast.Try) and st.handlers and not st.orelse and not st.finalbody and len(st.body) == 1 and is_yield_stmt(st.body[0]) \
                    and all(h.body and isinstance(h.body[-1], ast.Raise) and h.body[-1].exc is None and not any(isinstance(n, (ast.Yield, ast.Return)) for n in ast.walk(h)) for h in st.handlers):
                # try: yield  except: <cleanup>; raise   - the cleanup runs when the block raises, and the exception goes on
                st.body = bound() + list(s.body)
                self._note(q, fq)
                return pre + body
            if isinstance(st, ast.Try) and not st.handlers and not st.orelse and st.finalbody and any(is_yield_stmt(x) for x in st.body):
                k = next(j for j, x in enumerate(st.body) if is_yield_stmt(x))
                if st.body[k + 1:] and escapes:
                    return None
                st.body = st.body[:k] + bound() + list(s.body) + st.body[k + 1:]
                self._note(q, fq)
                return pre + body
        return None

    def _expand_for_gen(self, s, fq, mn, cls, chain):
        """for x in helper(args): B     (helper a new generator with one `yield E`)
           ->  the helper's body with `yield E` replaced by  x = E; B"""
        if s.orelse or not isinstance(s.iter, ast.Call):
            return None
        site = self._site(s.iter, fq, mn, cls, chain)
        if not site:
            return None
        q, recv, (hfn, hcls, hfunc, hmn) = site
        ys = [n for n in _walk_same_function(hfn) if isinstance(n, (ast.Yield, ast.YieldFrom))]
        if len(ys) != 1 or not isinstance(ys[0], ast.Yield) or ys[0].value is None or any(r.value is not None for r in _returns_in(hfn)):
            return None
        has_break = any(isinstance(n, ast.Break) for b in s.body for n in _walk_loop_body(b))
        if has_break:
            # leaving the consumer's loop has to leave the helper altogether: fine when the helper ends with the one loop that
            # yields (directly, not from an inner loop or a try/with) and nothing comes after that loop
            lastst = hfn.body[-1] if hfn.body else None
            if not (isinstance(lastst, (ast.For, ast.While)) and not lastst.orelse and not any(isinstance(n, ast.Yield) for st_ in hfn.body[:-1] for n in _walk_same_function(st_))):
                return None

            def direct(stmts):
                for st_ in stmts:
                    if isinstance(st_, ast.Expr) and st_.value is ys[0]:
                        return True
                    if isinstance(st_, ast.If) and (direct(st_.body) or direct(st_.orelse)):
                        return True
                return False
            if not direct(lastst.body):
                return None
        has_continue = any(isinstance(n, ast.Continue) for b in s.body for n in _walk_loop_body(b))
        body, exprmap, pre, ok = self._bind(s.iter, hfn, recv, q)
        if not ok:
            return None
        if _has_return_list(body):
            return None
        y = next(n for b in body for n in _walk_same_function(b) if isinstance(n, ast.Yield))
        done = []

        def put(stmts, in_loop, is_last_of_loop):
            out = []
            for i, st in enumerate(stmts):
                if isinstance(st, ast.Expr) and st.value is y:
                    last = i == len(stmts) - 1
                    if has_continue and not (in_loop and is_last_of_loop and last):
                        return None  # `continue` in B means: on to the next yielded value
                    if not in_loop and has_continue:
                        return None
                    asg = ast.Assign(targets=[copy.deepcopy(s.target)], value=y.value)
                    for n_ in ast.walk(asg.targets[0]):
                        if hasattr(n_, "ctx"):
                            n_.ctx = ast.Store()
                    out.append(ast.fix_missing_locations(ast.copy_location(asg, s)))
                    out.extend(s.body)
                    done.append(1)
                    continue
                if any(isinstance(n, ast.Yield) for n in _walk_same_function(st)):
                    if isinstance(st, (ast.For, ast.While)) and not st.orelse:
                        nb = put(st.body, True, True)
                        if nb is None:
                            return None
                        st.body = nb
                    elif isinstance(st, ast.If):
                        nb = put(st.body, in_loop, is_last_of_loop and i == len(stmts) - 1)
                        no = put(st.orelse, in_loop, is_last_of_loop and i == len(stmts) - 1) if st.orelse else []
                        if nb is None or no is None:
                            return None
                        st.body, st.orelse = nb or [ast.copy_location(ast.Pass(), st)], no
                    else:
                        return None
                out.append(st)
            return out
        new = put(body, False, False)
        if new is None or not done:
            return None
        self._note(q, fq)
        return pre + new

    def _expand_stmt(self, s, fq, mn, cls, chain):
        """list of statements replacing s, or None"""
        if isinstance(s, ast.For):
            rep = self._expand_for_gen(s, fq, mn, cls, chain)
            if rep is not None:
                return rep
        if isinstance(s, ast.With):
            rep = self._expand_with(s, fq, mn, cls, chain)
            if rep is not None:
                return rep
        # (a) statement-level call
        if isinstance(s, ast.Expr) and isinstance(s.value, ast.Call):
            site = self._site(s.value, fq, mn, cls, chain)
            if site:
                return self._inline(s, s.value, site, mode=("expr", None))
        if isinstance(s, ast.Expr) and isinstance(s.value, ast.YieldFrom) and isinstance(s.value.value, ast.Call):
            site = self._site(s.value.value, fq, mn, cls, chain)
            if site and not _has_return(site[2][0]):
                return self._inline(s, s.value.value, site, mode=("gen", None))
        # v = yield from helper(args)  /  if (yield from helper(args)): ...   with helper a generator that ends in `return X`:
        # the helper's statements with `v = X` in place of the return
        if isinstance(s, ast.If) and isinstance(s.test, ast.YieldFrom) and isinstance(s.test.value, ast.Call):
            site = self._site(s.test.value, fq, mn, cls, chain)
            if site and _has(site[2][0], (ast.Yield, ast.YieldFrom)):
                self.counter += 1
                tmp = "_yf%d" % self.counter
                asg = ast.fix_missing_locations(ast.copy_location(ast.Assign(targets=[ast.Name(id=tmp, ctx=ast.Store())], value=s.test), s))
                rep = self._inline(asg, s.test.value, site, mode=("genassign", ast.Name(id=tmp, ctx=ast.Store())))
                if rep is not None:
                    s.test = ast.copy_location(ast.Name(id=tmp, ctx=ast.Load()), s.test)
                    return rep + [s]
        if isinstance(s, ast.Assign) and len(s.targets) == 1 and isinstance(s.targets[0], ast.Name) and isinstance(s.value, ast.YieldFrom) and isinstance(s.value.value, ast.Call):
            site = self._site(s.value.value, fq, mn, cls, chain)
            if site and _has(site[2][0], (ast.Yield, ast.YieldFrom)):
                rep = self._inline(s, s.value.value, site, mode=("genassign", s.targets[0]))
                if rep is not None:
                    return rep
        # (b0) x = list(helper(args))  with helper a generator: the list is built where the helper yields
        if isinstance(s, ast.Assign) and len(s.targets) == 1 and isinstance(s.value, ast.Call) and isinstance(s.value.func, ast.Name) and s.value.func.id == "list" and len(s.value.args) == 1 and not s.value.keywords and isinstance(s.value.args[0], ast.Call):
            inner = s.value.args[0]
            site = self._site(inner, fq, mn, cls, chain)
            if site:
                q, recv, (hfn, hcls, hfunc, hmn) = site
                ys = [n for n in _walk_same_function(hfn) if isinstance(n, (ast.Yield, ast.YieldFrom))]
                if ys and all(isinstance(y_, ast.Yield) and y_.value is not None for y_ in ys) and not any(r_.value is not None for r_ in _returns_in(hfn)) and not _has_return(hfn):
                    body, exprmap, pre, ok = self._bind(inner, hfn, recv, q)
                    if ok:
                        self.counter += 1
                        tmp = s.targets[0].id if isinstance(s.targets[0], ast.Name) and not any(isinstance(n_, ast.Name) and n_.id == s.targets[0].id for b_ in body for n_ in ast.walk(b_)) else "_lst%d" % self.counter

                        class Y(ast.NodeTransformer):
                            bad = False

                            def visit_Expr(self_, node):
                                if isinstance(node.value, ast.Yield):
                                    call = ast.Call(func=ast.Attribute(value=ast.Name(id=tmp, ctx=ast.Load()), attr="append", ctx=ast.Load()), args=[node.value.value], keywords=[])
                                    return ast.fix_missing_locations(ast.copy_location(ast.Expr(value=call), node))
                                return node

                            def visit_Yield(self_, node):
                                Y.bad = True
                                return node

                            def visit_FunctionDef(self_, node):
                                return node
                        y = Y()
                        body = [y.visit(b_) for b_ in body]
                        if not Y.bad:
                            init = ast.fix_missing_locations(ast.copy_location(ast.Assign(targets=[ast.Name(id=tmp, ctx=ast.Store())], value=ast.List(elts=[], ctx=ast.Load())), s))
                            out = pre + [init] + body
                            if not (isinstance(s.targets[0], ast.Name) and s.targets[0].id == tmp):
                                out.append(ast.fix_missing_locations(ast.copy_location(ast.Assign(targets=s.targets, value=ast.Name(id=tmp, ctx=ast.Load())), s)))
                            self._note(q, fq)
                            return out
        # (b) assignment from a call
        if isinstance(s, ast.Assign) and len(s.targets) == 1 and isinstance(s.value, ast.Call):
            site = self._site(s.value, fq, mn, cls, chain)
            if site:
                return self._inline(s, s.value, site, mode=("assign", s.targets[0]))
        # (c) return of a call
        if isinstance(s, ast.Return) and isinstance(s.value, ast.Call):
            site = self._site(s.value, fq, mn, cls, chain)
            if site:
                return self._inline(s, s.value, site, mode=("return", None))
        # (e) call nested in the expressions of a simple statement / an if test
        exprs = []
        if isinstance(s, (ast.Expr, ast.Assign, ast.AugAssign, ast.Return, ast.Raise)):
            exprs = [s]
        elif isinstance(s, ast.If):
            exprs = [s.test]
        elif isinstance(s, ast.For):
            exprs = [s.iter]
        elif isinstance(s, ast.While):
            exprs = [s.test]
        for root in exprs:
            for n in _walk_no_scopes(root):
                if isinstance(n, ast.Call):
                    site = self._site(n, fq, mn, cls, chain)
                    if not site:
                        continue
                    q, recv, (hfn, hcls, hfunc, hmn) = site
                    if _has(hfn, (ast.Yield, ast.YieldFrom)):
                        # a generator that is one filtered loop is a generator expression
                        gb, gmap, gpre, gok = self._bind(n, hfn, recv, q)
                        if gok and not gpre and len(gb) == 1 and isinstance(gb[0], ast.For) and not gb[0].orelse and len(gb[0].body) == 1:
                            inner = gb[0].body[0]
                            ifs = []
                            while isinstance(inner, ast.If) and not inner.orelse and len(inner.body) == 1:
                                ifs.append(inner.test)
                                inner = inner.body[0]
                            if isinstance(inner, ast.Expr) and isinstance(inner.value, ast.Yield) and inner.value.value is not None:
                                ge = ast.GeneratorExp(elt=inner.value.value, generators=[ast.comprehension(target=gb[0].target, iter=gb[0].iter, ifs=ifs, is_async=0)])
                                _replace_node(s, n, ast.fix_missing_locations(ast.copy_location(ge, n)))
                                self._note(q, fq)
                                return [s]
                        continue
                    body, exprmap, pre, ok = self._bind(n, hfn, recv, q)
                    if not ok:
                        continue
                    if len(body) == 1 and isinstance(body[0], ast.Return) and body[0].value is not None and not pre:
                        _replace_node(s, n, body[0].value)
                        self._note(q, fq)
                        return [s]
                    if isinstance(s, ast.While):
                        continue  # a loop condition is re-evaluated: nothing can be hoisted in front of the loop
                    # hoist into a temporary
                    self.counter += 1
                    tmp = "_inl%d_%s" % (self.counter, hfn.name.strip("_"))
                    target = ast.Name(id=tmp, ctx=ast.Store())
                    fake = ast.Assign(targets=[target], value=n)
                    ast.copy_location(fake, s)
                    rep = self._inline(fake, n, site, mode=("assign", target))
                    if rep is None:
                        continue
                    _replace_node(s, n, ast.copy_location(ast.Name(id=tmp, ctx=ast.Load()), n))
                    return rep + [s]
        return None

    def _search_loop(self, body, kind, target, stmt):
        return _search_loop_impl(body, kind, target, stmt)

    def _note(self, q, fq):
        self.stats["inlined"] += 1
        self.stats["sites"].append("%s <- %s" % (fq, q))

    def _bind(self, call, hfn, recv, q):
        """copy of the helper body with parameters bound; returns (body, exprmap, prelude statements, ok)"""
        a = hfn.args
        params = [p.arg for p in a.posonlyargs + a.args]
        kwonly = [p.arg for p in a.kwonlyargs]
        decs = [ast.unparse(d) for d in hfn.decorator_list]
        args = list(call.args)
        if any(isinstance(x, ast.Starred) for x in args) or any(k.arg is None for k in call.keywords):
            return None, None, None, False
        is_method = self.index[q][1] is not None and "staticmethod" not in decs
        bound = {}
        if is_method:
            if not params:
                return None, None, None, False
            first = params[0]
            if recv is not None:
                bound[first] = recv
            elif "classmethod" in decs:
                bound[first] = ast.Name(id=self.index[q][1].name, ctx=ast.Load())
            else:
                # Class.method(obj, ...) form
                if not args:
                    return None, None, None, False
                bound[first] = args.pop(0)
            params = params[1:]
        extra = None
        if len(args) > len(params):
            if not a.vararg:
                return None, None, None, False
            extra = args[len(params):]
            args = args[:len(params)]
        for p, x in zip(params, args):
            bound[p] = x
        for k in call.keywords:
            if k.arg in bound or (k.arg not in params and k.arg not in kwonly):
                return None, None, None, False
            bound[k.arg] = k.value
        pos = a.posonlyargs + a.args
        dflt = dict(zip([p.arg for p in pos][len(pos) - len(a.defaults):], a.defaults))
        for p, d in zip(a.kwonlyargs, a.kw_defaults):
            if d is not None:
                dflt[p.arg] = d
        for p in params + kwonly:
            if p not in bound:
                if p not in dflt:
                    return None, None, None, False
                bound[p] = dflt[p]
        if a.vararg:
            # *rest receives the surplus positional arguments as a tuple
            bound[a.vararg.arg] = ast.Tuple(elts=list(extra or []), ctx=ast.Load())
        body = copy.deepcopy(hfn.body)
        outer_names = {x for st in body if isinstance(st, ast.Nonlocal) for x in st.names}
        body = [st for st in body if not isinstance(st, ast.Nonlocal)] or [ast.Pass()]
        assigned = set()
        for st in body:
            assigned |= {n.id for n in _walk_same_function(st) if isinstance(n, ast.Name) and isinstance(n.ctx, (ast.Store, ast.Del))}
            assigned |= {n.name for n in _walk_same_function(st) if isinstance(n, ast.ExceptHandler) and n.name}
            if isinstance(st, (ast.FunctionDef, ast.ClassDef)):
                assigned.add(st.name)
        # every unfolding has names of its own (the first one the plain suffix): a temporary is then assigned once and N6 can see through it
        k_ = self._instances.get((self._cur, hfn.name), 0) + 1
        self._instances[(self._cur, hfn.name)] = k_
        sfx = "__" + hfn.name.strip("_") + ("" if k_ == 1 else "_%d" % k_)
        names = {n: n + sfx for n in assigned if n not in bound and n not in outer_names}
        exprmap, pre = {}, []
        for p, x in bound.items():
            if (_simple_arg(x) or (isinstance(x, ast.Tuple) and a.vararg and p == a.vararg.arg and all(_simple_arg(e_) for e_ in x.elts))) and p not in assigned:
                exprmap[p] = x
            else:
                names[p] = p + sfx
                asg = ast.Assign(targets=[ast.Name(id=p + sfx, ctx=ast.Store())], value=copy.deepcopy(x))
                ast.copy_location(asg, call)
                ast.fix_missing_locations(asg)
                pre.append(asg)
        rn = _Rename(names, exprmap)
        body = [rn.visit(st) for st in body]
        hcls_ = self.index[q][1]
        if hcls_ is not None and not (self._cur or "").startswith(self.index[q][3] + "." + hcls_.name + "."):
            # private names of the helper's class are spelled out where its body now stands outside of the class
            for st in body:
                for n_ in ast.walk(st):
                    if isinstance(n_, ast.Attribute) and n_.attr.startswith("__") and not n_.attr.endswith("__"):
                        n_.attr = "_" + hcls_.name.lstrip("_") + n_.attr
        return body, exprmap, pre, True

    def _inline(self, stmt, call, site, mode):
        q, recv, (hfn, hcls, hfunc, hmn) = site
        kind, target = mode
        is_gen = _has(hfn, (ast.Yield, ast.YieldFrom))
        if kind == "genassign":
            # the generator's value: a single `return X` as its last statement
            rets_ = _returns_in(hfn)
            if not is_gen or len(rets_) != 1 or rets_[0] is not hfn.body[-1] or rets_[0].value is None:
                return None
            kind = "assign"
        elif is_gen != (kind == "gen"):
            return None
        body, exprmap, pre, ok = self._bind(call, hfn, recv, q)
        if not ok:
            return None
        if kind == "return" and not is_gen and not _tail_returns_only(nest_early_exits(copy.deepcopy(body))):
            # `return helper(...)`: every return of the helper is a return of the caller, whatever the helper's shape
            out = pre + body
            if not _always_exits(body):
                out.append(ast.copy_location(ast.Return(value=None), stmt))
            self._note(q, "?")
            return out
        body = nest_early_exits(body)
        if kind == "expr" and len(body) >= 2 and isinstance(body[-1], ast.Return) and (body[-1].value is None or isinstance(body[-1].value, ast.Constant)) and isinstance(body[-2], (ast.For, ast.While)):
            body = body[:-1]  # the value is not used at this call site
        if not _tail_returns_only(body) and kind == "expr" and body and isinstance(body[-1], (ast.For, ast.While)) and not body[-1].orelse \
                and not any(_has_return(s_) for s_ in body[:-1]) and all(r_.value is None or isinstance(r_.value, ast.Constant) for r_ in _returns_in(body[-1])):
            # a procedure that ends in a loop and leaves it by a plain `return`: at the call site that is a `break`
            lp_ = body[-1]
            inner_ = [n_ for b_ in lp_.body for n_ in _walk_same_function(b_) if isinstance(n_, (ast.For, ast.While))]
            if not any(_has_return(n_) for n_ in inner_):
                class R_(ast.NodeTransformer):
                    def visit_Return(self_, node):
                        return ast.copy_location(ast.Break(), node)

                    def visit_FunctionDef(self_, node):
                        return node
                lp_.body = [R_().visit(b_) for b_ in lp_.body]
        if not _tail_returns_only(body):
            # search loop: `for ...: if c: return X` followed by `return D` (or nothing): the returns become `v = X; break`
            body2 = self._search_loop(body, kind, target, stmt)
            if body2 is None:
                return None
            self._note(q, "?")
            return pre + body2

        def mk(value, at):
            if kind == "return":
                r = ast.Return(value=value)
                return [ast.copy_location(r, at)]
            if kind == "assign":
                v = value if value is not None else ast.Constant(value=None)
                asg = ast.Assign(targets=[copy.deepcopy(target)], value=v)
                return [ast.fix_missing_locations(ast.copy_location(asg, at))]
            if value is not None and _has(value, (ast.Call,)):
                return [ast.copy_location(ast.Expr(value=value), at)]
            return []
        falls_through = not _always_exits(body)
        body = _replace_returns(body, mk)
        if kind == "assign" and falls_through:
            # paths that fall off the end of the helper yield None; keep it simple: only add when no return was seen at all
            if not _has_return(hfn):
                body = body + mk(None, stmt)
        if kind == "return" and falls_through and not isinstance(body[-1] if body else None, ast.Return):
            body = body + [ast.copy_location(ast.Return(value=None), stmt)]
        out = pre + body
        if not out:
            out = [ast.copy_location(ast.Pass(), stmt)]
        self._note(q, "?")
        return out


def _returns_in(node):
    return [n for n in _walk_same_function(node) if isinstance(n, ast.Return)]


def _search_loop_impl(body, kind, target, stmt):
    if kind not in ("assign", "return"):
        return None
    loops = [i for i, s in enumerate(body) if isinstance(s, (ast.For, ast.While))]
    if len(loops) != 1:
        return None
    i = loops[0]
    loop = body[i]
    tail = body[i + 1:]
    if loop.orelse or any(_returns_in(s) for s in body[:i]):
        return None
    if not (len(tail) == 0 or (len(tail) == 1 and isinstance(tail[0], ast.Return))):
        return None
    # returns inside the loop: only under plain if nesting
    def ok(stmts):
        for s in stmts:
            if isinstance(s, ast.Return):
                continue
            if isinstance(s, ast.If):
                if not ok(s.body) or not ok(s.orelse):
                    return False
            elif _returns_in(s):
                return False
        return True
    if not ok(loop.body):
        return None
    default = tail[0].value if tail and tail[0].value is not None else ast.Constant(value=None)
    if kind == "return":
        # the value is returned by the caller as well: keep the returns, only the shape of the helper moves
        return body[:i] + [loop] + [ast.copy_location(ast.Return(value=default), stmt)]

    def rep(stmts):
        out = []
        for s in stmts:
            if isinstance(s, ast.Return):
                v = s.value if s.value is not None else ast.Constant(value=None)
                out.append(ast.fix_missing_locations(ast.copy_location(ast.Assign(targets=[copy.deepcopy(target)], value=v), s)))
                out.append(ast.copy_location(ast.Break(), s))
            else:
                if isinstance(s, ast.If):
                    s.body = rep(s.body)
                    s.orelse = rep(s.orelse)
                out.append(s)
        return out
    loop.body = rep(loop.body)
    init = ast.fix_missing_locations(ast.copy_location(ast.Assign(targets=[copy.deepcopy(target)], value=default), stmt))
    return body[:i] + [init, loop]


def _in_loop(fn, stmt):
    def find(stmts, depth):
        for s in stmts:
            if s is stmt:
                return depth
            if isinstance(s, (ast.FunctionDef, ast.AsyncFunctionDef, ast.ClassDef)):
                continue
            for f in ("body", "orelse", "finalbody"):
                v = getattr(s, f, None)
                if isinstance(v, list) and v and isinstance(v[0], ast.stmt):
                    r = find(v, depth + (1 if isinstance(s, (ast.For, ast.While)) and f == "body" else 0))
                    if r is not None:
                        return r
            if isinstance(s, ast.Try):
                for h in s.handlers:
                    r = find(h.body, depth)
                    if r is not None:
                        return r
        return None
    r = find(fn.body, 0)
    return r is None or r > 0


def _walk_no_scopes(node):
    todo = [node]
    while todo:
        n = todo.pop()
        yield n
        for c in ast.iter_child_nodes(n):
            if isinstance(c, (ast.FunctionDef, ast.AsyncFunctionDef, ast.ClassDef, ast.Lambda, ast.ListComp, ast.SetComp, ast.DictComp, ast.GeneratorExp)):
                continue
            todo.append(c)


def _replace_node(root, old, new):
    for parent in ast.walk(root):
        for f, v in ast.iter_fields(parent):
            if v is old:
                setattr(parent, f, new)
                return True
            if isinstance(v, list):
                for i, x in enumerate(v):
                    if x is old:
                        v[i] = new
                        return True
    return False


# ----------------------------------------------------------------------
# N6  explaining variables
# ----------------------------------------------------------------------

def _pure(e):
    if isinstance(e, (ast.List, ast.Dict, ast.Set)):
        return False  # a new mutable object: the variable names its identity
    if isinstance(e, ast.Lambda) and _is_const_expr(e):
        return True  # a function without free variables is a constant
    for n in ast.walk(e):
        if isinstance(n, ast.Call):
            if _is_compile(n) and all(isinstance(a, ast.Constant) for a in n.args[:1]):
                continue  # a compiled pattern is an immutable value
            if not (isinstance(n.func, ast.Name) and n.func.id in PURE_CALLS):
                # method calls of string constants ("".join) and of names on immutable receivers are not assumed pure
                if isinstance(n.func, ast.Attribute) and isinstance(n.func.value, ast.Constant) and n.func.attr in ("join", "format"):
                    continue
                return False
        if isinstance(n, (ast.Yield, ast.YieldFrom, ast.Await, ast.NamedExpr, ast.Lambda, ast.ListComp, ast.SetComp, ast.DictComp, ast.GeneratorExp)):
            return False
    return True


def _reads_heap(e):
    if _is_compile(e) and all(isinstance(a, ast.Constant) for a in e.args):
        return False
    if isinstance(e, ast.Lambda) and _is_const_expr(e):
        return False
    todo = [e]
    nodes = []
    while todo:
        n = todo.pop()
        if n is not e and _is_compile(n) and all(isinstance(a, ast.Constant) for a in n.args):
            continue
        nodes.append(n)
        todo.extend(ast.iter_child_nodes(n))
    for n in nodes:
        if isinstance(n, ast.Subscript):
            return True
        if isinstance(n, ast.Call) and not (isinstance(n.func, ast.Attribute) and isinstance(n.func.value, ast.Constant)):
            return True  # getattr / len / str ... look at the state of their argument
        if isinstance(n, ast.Attribute) and not (isinstance(n.value, ast.Constant) and n.attr in ("join", "format")):
            return True
    return False


def _effectful(s):
    """may this statement change heap state (attribute / item stores, calls)"""
    for n in _walk_same_function(s):
        if isinstance(n, ast.Call) and not (isinstance(n.func, ast.Name) and n.func.id in PURE_CALLS):
            return True
        if isinstance(n, (ast.Attribute, ast.Subscript)) and isinstance(n.ctx, (ast.Store, ast.Del)):
            return True
        if isinstance(n, (ast.Yield, ast.YieldFrom)):
            return True
    return False


_INIT_ONLY = set()
_DYNAMIC = set()   # modules that set attributes by computed name
_CUR_MOD = [None]


def init_only_attrs(trees):
    """attribute names that are stored nowhere in the package but in __init__ methods (and never through setattr): an alias of
    `self.<such attribute>` keeps naming the same object whatever is called in between"""
    where = {}
    _DYNAMIC.clear()
    for mn_, t in trees.items():
        dynamic = False
        for fn in ast.walk(t):
            if isinstance(fn, (ast.FunctionDef, ast.AsyncFunctionDef)):
                for n in _walk_same_function(fn):
                    if isinstance(n, ast.Attribute) and isinstance(n.ctx, (ast.Store, ast.Del)):
                        where.setdefault(n.attr, set()).add(fn.name)
                    if isinstance(n, ast.Call) and isinstance(n.func, ast.Name) and n.func.id in ("setattr", "delattr") and not (len(n.args) >= 2 and isinstance(n.args[1], ast.Constant)):
                        dynamic = True
                    if isinstance(n, ast.Call) and isinstance(n.func, ast.Name) and n.func.id in ("setattr", "delattr") and len(n.args) >= 2 and isinstance(n.args[1], ast.Constant):
                        where.setdefault(n.args[1].value, set()).add(fn.name)
        if dynamic:
            _DYNAMIC.add(mn_)
    _INIT_ONLY.clear()
    _INIT_ONLY.update(a for a, fs in where.items() if fs <= {"__init__"})
    return _INIT_ONLY


def _reuse_dead_names(fn):
    """v = p   at the top level of fn, p (a parameter or local) never mentioned after that statement and v never before it, neither
    captured by a nested scope:  the rest of the function uses p's slot under another name - rename v to p and drop the copy"""
    changed = False
    for _ in range(4):
        hit = None
        for i, s in enumerate(fn.body):
            if not (isinstance(s, ast.Assign) and len(s.targets) == 1 and isinstance(s.targets[0], ast.Name) and isinstance(s.value, ast.Name) and s.value.id != s.targets[0].id):
                continue
            v, p_ = s.targets[0].id, s.value.id
            after = [x for st in fn.body[i + 1:] for x in ast.walk(st)]
            before = [x for st in fn.body[:i] for x in ast.walk(st)]
            if any(isinstance(x, ast.Name) and x.id == p_ for x in after) or any(isinstance(x, ast.Name) and x.id == v for x in before):
                continue
            if any(isinstance(x, ast.arg) and x.arg in (v, p_) for x in after + before) or any(isinstance(x, (ast.Global, ast.Nonlocal)) and (v in x.names or p_ in x.names) for x in ast.walk(fn)):
                continue
            scopes = [x for x in after + before if isinstance(x, (ast.FunctionDef, ast.AsyncFunctionDef, ast.Lambda, ast.ClassDef, ast.ListComp, ast.SetComp, ast.DictComp, ast.GeneratorExp))]
            if any(isinstance(y, ast.Name) and y.id in (v, p_) for sc in scopes for y in ast.walk(sc)):
                continue
            if any(isinstance(x, ast.ExceptHandler) and x.name in (v, p_) for x in after + before):
                continue
            hit = (i, v, p_)
            break
        if hit is None:
            break
        i, v, p_ = hit
        for st in fn.body[i + 1:]:
            for x in ast.walk(st):
                if isinstance(x, ast.Name) and x.id == v:
                    x.id = p_
        del fn.body[i]
        if not fn.body:
            fn.body.append(ast.Pass())
        changed = True
    return changed


def _option_tuple_elim(fn):
    """the last two statements of a loop body:
           if ..: v = (a, b)  elif ..: v = None  else: v = None if c else (x, y)        (v bound only at the ends of the arms)
           if v is None: A  else: p, q = v; B                                              (v used nowhere else)
       ->  the arms bind p, q directly and go on to B, or do A and `continue`: a result that is 'nothing, or a tuple' only to be
           taken apart at once is a case distinction"""
    changed = False
    for loop in [n for n in _walk_same_function(fn) if isinstance(n, (ast.For, ast.While))]:
        body = loop.body
        if len(body) < 2 or not isinstance(body[-1], ast.If) or not isinstance(body[-2], ast.If):
            continue
        S, T = body[-2], body[-1]
        t = T.test
        if not (isinstance(t, ast.Compare) and len(t.ops) == 1 and isinstance(t.ops[0], (ast.Is, ast.IsNot)) and isinstance(t.left, ast.Name) and isinstance(t.comparators[0], ast.Constant) and t.comparators[0].value is None):
            continue
        v = t.left.id
        on_none, other = (T.body, T.orelse) if isinstance(t.ops[0], ast.Is) else (T.orelse, T.body)
        if not other or not (isinstance(other[0], ast.Assign) and len(other[0].targets) == 1 and isinstance(other[0].targets[0], ast.Tuple) and isinstance(other[0].value, ast.Name) and other[0].value.id == v
                             and all(isinstance(e, ast.Name) for e in other[0].targets[0].elts)):
            continue
        targets = other[0].targets[0].elts
        k = len(targets)
        if any(isinstance(x, (ast.Break,)) for a_ in on_none for x in ast.walk(a_)):
            continue

        def value_ok(e):
            if isinstance(e, ast.Constant) and e.value is None:
                return True
            if isinstance(e, ast.Tuple) and len(e.elts) == k and not any(isinstance(x, ast.Starred) for x in e.elts):
                return True
            if isinstance(e, ast.IfExp):
                return value_ok(e.body) and value_ok(e.orelse)
            return False
        binds = []

        def tails(lst):
            """assignments to v must be the last statement of an arm; returns False when v is bound elsewhere"""
            for i_, s_ in enumerate(lst):
                last = i_ == len(lst) - 1
                if isinstance(s_, ast.Assign) and any(isinstance(x, ast.Name) and x.id == v for t_ in s_.targets for x in ast.walk(t_)):
                    if not (last and len(s_.targets) == 1 and isinstance(s_.targets[0], ast.Name) and value_ok(s_.value)):
                        return False
                    binds.append((lst, s_))
                elif isinstance(s_, ast.If):
                    if any(isinstance(x, ast.Name) and x.id == v for x in ast.walk(s_.test)):
                        return False
                    if not last and any(isinstance(x, ast.Name) and x.id == v for x in ast.walk(s_)):
                        return False
                    if not tails(s_.body) or not tails(s_.orelse):
                        return False
                elif any(isinstance(x, ast.Name) and x.id == v for x in ast.walk(s_)):
                    return False
            return True
        if not tails([S]) or not binds:
            continue
        # every path through S binds v
        def always(lst):
            if not lst:
                return False
            s_ = lst[-1]
            if isinstance(s_, ast.Assign) and any(s_ is b_[1] for b_ in binds):
                return True
            if isinstance(s_, (ast.Continue, ast.Return, ast.Raise)):
                return True
            if isinstance(s_, ast.If):
                return always(s_.body) and always(s_.orelse)
            return False
        if not always([S]):
            continue
        n_all = sum(1 for x in ast.walk(fn) if isinstance(x, ast.Name) and x.id == v)
        if n_all != len(binds) + 2:
            continue

        def expand(e, at):
            if isinstance(e, ast.Constant):
                return [copy.deepcopy(a_) for a_ in on_none] + [ast.copy_location(ast.Continue(), at)]
            if isinstance(e, ast.Tuple):
                return [ast.fix_missing_locations(ast.copy_location(ast.Assign(targets=[ast.Name(id=t_.id, ctx=ast.Store())], value=x_), at)) for t_, x_ in zip(targets, e.elts)]
            return [ast.fix_missing_locations(ast.copy_location(ast.If(test=e.test, body=expand(e.body, at), orelse=expand(e.orelse, at)), at))]
        # the tuple elements are evaluated before any target is bound: they must not read the targets
        tn = {t_.id for t_ in targets}
        if any(isinstance(x, ast.Name) and x.id in tn for _l, b_ in binds for x in ast.walk(b_.value)):
            continue
        for lst, b_ in binds:
            lst[lst.index(b_):lst.index(b_) + 1] = expand(b_.value, b_)
        loop.body = body[:-1] + other[1:]
        if not loop.body:
            loop.body = [ast.copy_location(ast.Pass(), T)]
        changed = True
    return changed


def _option_tuple_distribute(fn):
    """v = (a, b) if c1 else (x, y) if c2 else None;  if v is not None: p, q = v; B  else: A       (v used nowhere else)
       ->  if c1: p = a; q = b; B  elif c2: p = x; q = y; B  else: A"""
    changed = False
    for lst in list(_stmt_lists(fn)):
        i = 0
        while i + 1 < len(lst):
            a, T = lst[i], lst[i + 1]
            i += 1
            if not (isinstance(a, ast.Assign) and len(a.targets) == 1 and isinstance(a.targets[0], ast.Name) and isinstance(a.value, ast.IfExp) and isinstance(T, ast.If)):
                continue
            v = a.targets[0].id
            t = T.test
            if not (isinstance(t, ast.Compare) and len(t.ops) == 1 and isinstance(t.ops[0], (ast.Is, ast.IsNot)) and isinstance(t.left, ast.Name) and t.left.id == v
                    and isinstance(t.comparators[0], ast.Constant) and t.comparators[0].value is None):
                continue
            on_none, other = (T.body, T.orelse) if isinstance(t.ops[0], ast.Is) else (T.orelse, T.body)
            if not other or not (isinstance(other[0], ast.Assign) and len(other[0].targets) == 1 and isinstance(other[0].targets[0], ast.Tuple) and isinstance(other[0].value, ast.Name) and other[0].value.id == v
                                 and all(isinstance(e, ast.Name) for e in other[0].targets[0].elts)):
                continue
            targets = other[0].targets[0].elts
            k = len(targets)
            leaves = []

            def ok(e):
                if isinstance(e, ast.IfExp):
                    return ok(e.body) and ok(e.orelse)
                leaves.append(e)
                return (isinstance(e, ast.Constant) and e.value is None) or (isinstance(e, ast.Tuple) and len(e.elts) == k and not any(isinstance(x, ast.Starred) for x in e.elts))
            if not ok(a.value):
                continue
            if sum(1 for x in ast.walk(fn) if isinstance(x, ast.Name) and x.id == v) != 3:
                continue
            n_none = sum(1 for e in leaves if isinstance(e, ast.Constant))
            n_tup = len(leaves) - n_none
            size = lambda ss: sum(1 for s_ in ss for _ in ast.walk(s_))
            if (n_none > 1 and size(on_none) > 40) or (n_tup > 1 and size(other[1:]) > 40):
                continue
            tn = {t_.id for t_ in targets}
            if any(isinstance(x, ast.Name) and x.id in tn for e in leaves for x in ast.walk(e)):
                continue

            def expand(e):
                if isinstance(e, ast.Constant):
                    return [copy.deepcopy(s_) for s_ in on_none] or [ast.copy_location(ast.Pass(), T)]
                if isinstance(e, ast.Tuple):
                    return [ast.fix_missing_locations(ast.copy_location(ast.Assign(targets=[ast.Name(id=t_.id, ctx=ast.Store())], value=x_), a)) for t_, x_ in zip(targets, e.elts)] + [copy.deepcopy(s_) for s_ in other[1:]]
                return [ast.fix_missing_locations(ast.copy_location(ast.If(test=e.test, body=expand(e.body), orelse=expand(e.orelse)), a))]
            lst[i - 1:i + 1] = expand(a.value)
            changed = True
    return changed


def _split_common_components(fn):
    """a, b = (x1, y) if c else (x2, y)   (y the same plain name / constant in both arms, not one of the targets, b not read by x1/x2/c)
       ->  a = x1 if c else x2;  b = y"""
    changed = False
    for lst in list(_stmt_lists(fn)):
        i = 0
        while i < len(lst):
            s = lst[i]
            i += 1
            if not (isinstance(s, ast.Assign) and len(s.targets) == 1 and isinstance(s.targets[0], ast.Tuple) and isinstance(s.value, ast.IfExp) and isinstance(s.value.body, ast.Tuple) and isinstance(s.value.orelse, ast.Tuple)):
                continue
            tg, A, B = s.targets[0].elts, s.value.body.elts, s.value.orelse.elts
            if not (len(tg) == len(A) == len(B) >= 2 and all(isinstance(t, ast.Name) for t in tg)):
                continue
            tn = {t.id for t in tg}
            same = [j for j in range(len(tg)) if isinstance(A[j], (ast.Name, ast.Constant)) and ast.dump(A[j]) == ast.dump(B[j]) and not (isinstance(A[j], ast.Name) and A[j].id in tn)]
            if not same or len(same) == len(tg):
                continue
            keep = [j for j in range(len(tg)) if j not in same]
            reads = {x.id for j in keep for e in (A[j], B[j]) for x in ast.walk(e) if isinstance(x, ast.Name)} | {x.id for x in ast.walk(s.value.test) if isinstance(x, ast.Name)}
            if reads & tn:
                continue
            if len(keep) == 1:
                j = keep[0]
                first = ast.Assign(targets=[tg[j]], value=ast.IfExp(test=s.value.test, body=A[j], orelse=B[j]))
            else:
                first = ast.Assign(targets=[ast.Tuple(elts=[tg[j] for j in keep], ctx=ast.Store())],
                                   value=ast.IfExp(test=s.value.test, body=ast.Tuple(elts=[A[j] for j in keep], ctx=ast.Load()), orelse=ast.Tuple(elts=[B[j] for j in keep], ctx=ast.Load())))
            new = [first] + [ast.Assign(targets=[tg[j]], value=A[j]) for j in same]
            new = [ast.fix_missing_locations(ast.copy_location(n_, s)) for n_ in new]
            lst[i - 1:i] = new
            i += len(new) - 1
            changed = True
    return changed


def _merge_copy_tails(fn):
    """if c: A; p = v  else: B; p = v   ->   if c: A  else: B;  p = v      (the same plain copy ends both arms)"""
    changed = False
    for lst in list(_stmt_lists(fn)):
        i = 0
        while i < len(lst):
            s = lst[i]
            if isinstance(s, ast.If) and s.body and s.orelse:
                a, b = s.body[-1], s.orelse[-1]
                if isinstance(a, ast.Assign) and len(a.targets) == 1 and isinstance(a.targets[0], ast.Name) and isinstance(a.value, ast.Name) and ast.dump(a) == ast.dump(b):
                    s.body = s.body[:-1] or [ast.copy_location(ast.Pass(), a)]
                    s.orelse = s.orelse[:-1]
                    lst.insert(i + 1, a)
                    changed = True
            i += 1
    return changed


def _rename_copy_regions(fn):
    """v = p; <statements that never mention p>; p = v   (one statement list; v mentioned nowhere else in the function, neither name
    captured by a nested scope):  the region works on p under another name - rename v to p there and drop both copies"""
    changed = False
    for lst in list(_stmt_lists(fn)):
        for i, s in enumerate(lst):
            if not (isinstance(s, ast.Assign) and len(s.targets) == 1 and isinstance(s.targets[0], ast.Name) and isinstance(s.value, ast.Name) and s.value.id != s.targets[0].id):
                continue
            v, p_ = s.targets[0].id, s.value.id
            back = [j for j in range(i + 1, len(lst)) if isinstance(lst[j], ast.Assign) and len(lst[j].targets) == 1 and isinstance(lst[j].targets[0], ast.Name) and lst[j].targets[0].id == p_
                    and isinstance(lst[j].value, ast.Name) and lst[j].value.id == v]
            if not back:
                continue
            j = back[0]
            region = lst[i + 1:j]
            inside = [x for r in region for x in ast.walk(r)]
            if any(isinstance(x, ast.Name) and x.id == p_ for x in inside):
                continue
            n_in = sum(1 for x in inside if isinstance(x, ast.Name) and x.id == v)
            n_all = sum(1 for x in ast.walk(fn) if isinstance(x, ast.Name) and x.id == v)
            if n_all != n_in + 2:
                continue
            scopes = [x for x in ast.walk(fn) if isinstance(x, (ast.FunctionDef, ast.AsyncFunctionDef, ast.Lambda, ast.ClassDef, ast.ListComp, ast.SetComp, ast.DictComp, ast.GeneratorExp)) and x is not fn]
            if any(isinstance(y, ast.Name) and y.id in (v, p_) for sc in scopes for y in ast.walk(sc)) or any(isinstance(x, ast.arg) and x.arg == v for x in ast.walk(fn)):
                continue
            if any(isinstance(x, (ast.Global, ast.Nonlocal)) and (v in x.names or p_ in x.names) for x in ast.walk(fn)) or any(isinstance(x, ast.ExceptHandler) and x.name in (v, p_) for x in inside):
                continue
            for x in inside:
                if isinstance(x, ast.Name) and x.id == v:
                    x.id = p_
            del lst[j]
            del lst[i]
            return True or changed
    return changed


def explain_vars(fn):
    """substitute `v = <pure expr>` (v assigned once, in a straight statement list) into the uses that follow in the same list,
    when nothing between the definition and a use can change what the expression reads"""
    _reuse_dead_names(fn)
    _option_tuple_elim(fn)
    _option_tuple_distribute(fn)
    _split_common_components(fn)
    if _merge_copy_tails(fn):
        pass
    for _ in range(3):
        if not _rename_copy_regions(fn):
            break
    # a, b = (x, y)  ->  a = x; b = y   (x, y do not read a or b)
    paired = set()  # the two arms of `if c: a, b = X else: a, b = Y` stay whole: together they are one conditional assignment
    for n_ in _walk_same_function(fn):
        if isinstance(n_, ast.If) and len(n_.body) == 1 and len(n_.orelse) == 1 and all(isinstance(x_, ast.Assign) and len(x_.targets) == 1 and isinstance(x_.targets[0], ast.Tuple) for x_ in (n_.body[0], n_.orelse[0])) \
                and ast.dump(n_.body[0].targets[0]) == ast.dump(n_.orelse[0].targets[0]):
            paired |= {id(n_.body[0]), id(n_.orelse[0])}
    for lst in _stmt_lists(fn):
        i = 0
        while i < len(lst):
            s = lst[i]
            if isinstance(s, ast.Assign) and id(s) not in paired and len(s.targets) == 1 and isinstance(s.targets[0], ast.Tuple) and isinstance(s.value, ast.Tuple) and len(s.targets[0].elts) == len(s.value.elts) >= 2 \
                    and all(isinstance(t, (ast.Name, ast.Subscript, ast.Attribute)) for t in s.targets[0].elts) and not any(isinstance(e, ast.Starred) for e in s.value.elts) \
                    and not any(isinstance(x, ast.Name) and x.id in {t.id for t in s.targets[0].elts if isinstance(t, ast.Name)} for t in s.targets[0].elts if not isinstance(t, ast.Name) for x in ast.walk(t)):
                tn = {t.id for t in s.targets[0].elts if isinstance(t, ast.Name)}
                pairs = [(t, e) for t, e in zip(s.targets[0].elts, s.value.elts) if not (isinstance(e, ast.Name) and isinstance(t, ast.Name) and e.id == t.id)]  # x = x says nothing
                if len(tn) == sum(1 for t in s.targets[0].elts if isinstance(t, ast.Name)) and not any(isinstance(x, ast.Name) and x.id in tn for t, e in pairs for x in ast.walk(e)):
                    new = [ast.fix_missing_locations(ast.copy_location(ast.Assign(targets=[t], value=e), s)) for t, e in pairs] or [ast.copy_location(ast.Pass(), s)]
                    lst[i:i + 1] = new
                    i += len(new)
                    continue
            i += 1
    changed = True
    rounds = 0
    while changed and rounds < 6:
        changed = False
        rounds += 1
        stores = {}
        loads = {}
        for n in _walk_same_function(fn):
            if isinstance(n, ast.Name):
                (stores if isinstance(n.ctx, (ast.Store, ast.Del)) else loads).setdefault(n.id, []).append(n)
        params = {a.arg for a in fn.args.posonlyargs + fn.args.args + fn.args.kwonlyargs} | ({fn.args.vararg.arg} if fn.args.vararg else set()) | ({fn.args.kwarg.arg} if fn.args.kwarg else set())
        nested_names = set()
        for n in ast.walk(fn):
            if isinstance(n, (ast.FunctionDef, ast.AsyncFunctionDef, ast.Lambda, ast.ListComp, ast.SetComp, ast.DictComp, ast.GeneratorExp)) and n is not fn:
                nested_names |= {x.id for x in ast.walk(n) if isinstance(x, ast.Name)}
        for lst in _stmt_lists(fn):
            for i, s in enumerate(lst):
                if not (isinstance(s, ast.Assign) and len(s.targets) == 1 and isinstance(s.targets[0], ast.Name)):
                    continue
                v = s.targets[0].id
                if isinstance(s.value, ast.Name) and v in nested_names and v not in params and len(stores.get(v, [])) == 1 and s.value.id != v:
                    # a second name for a variable that is itself bound once: the two are interchangeable everywhere, also inside
                    # comprehensions and local functions
                    b = s.value.id
                    everywhere = [x for x in ast.walk(fn) if isinstance(x, ast.Name) and x.id in (v, b)]
                    argnames = [x.arg for x in ast.walk(fn) if isinstance(x, ast.arg)]
                    own = {a.arg for a in fn.args.posonlyargs + fn.args.args + fn.args.kwonlyargs}
                    decl = any(isinstance(x, (ast.Global, ast.Nonlocal)) and (v in x.names or b in x.names) for x in ast.walk(fn))
                    b_stores = sum(1 for x in everywhere if x.id == b and isinstance(x.ctx, (ast.Store, ast.Del)))
                    v_stores = sum(1 for x in everywhere if x.id == v and isinstance(x.ctx, (ast.Store, ast.Del)))
                    b_ok = (b in own and b_stores == 0 and argnames.count(b) == 1) or (b not in argnames and b_stores == 1 and (b in stores))
                    v_loads = [x for x in everywhere if x.id == v and isinstance(x.ctx, ast.Load)]
                    rest_ = lst[i + 1:]
                    if b_ok and not decl and v_stores == 1 and v not in argnames and v_loads and all(any(_contains(r, u) for r in rest_) for u in v_loads):
                        for u in v_loads:
                            _replace_node(fn, u, ast.copy_location(ast.Name(id=b, ctx=ast.Load()), u))
                        lst.remove(s)
                        if not lst:
                            lst.append(ast.copy_location(ast.Pass(), s))
                        changed = True
                        break
                    continue
                if isinstance(s.value, ast.Constant) and v in nested_names and v not in params and len(stores.get(v, [])) == 1:
                    # a constant named once: its uses inside comprehensions / lambdas / local functions read the same constant
                    everywhere = [x for x in ast.walk(fn) if isinstance(x, ast.Name) and x.id == v]
                    bound_inside = any(isinstance(x, ast.arg) and x.arg == v for x in ast.walk(fn)) or any(isinstance(x, (ast.Global, ast.Nonlocal)) and v in x.names for x in ast.walk(fn))
                    all_stores = [x for x in everywhere if isinstance(x.ctx, (ast.Store, ast.Del))]
                    all_loads = [x for x in everywhere if isinstance(x.ctx, ast.Load)]
                    rest_ = lst[i + 1:]
                    if not bound_inside and len(all_stores) == 1 and all_loads and all(any(_contains(r, u) for r in rest_) for u in all_loads):
                        for u in all_loads:
                            _replace_node(fn, u, ast.copy_location(copy.deepcopy(s.value), u))
                        lst.remove(s)
                        if not lst:
                            lst.append(ast.copy_location(ast.Pass(), s))
                        changed = True
                        break
                    continue
                if len(stores.get(v, [])) != 1 or v in params or v in nested_names or not _pure(s.value):
                    continue
                if any(isinstance(x, ast.Name) and x.id == v for x in ast.walk(s.value)):
                    continue
                uses = loads.get(v, [])
                if not uses:
                    continue
                rest = lst[i + 1:]
                # an operand that is assigned again after the definition would change what the uses see
                opnames = {x.id for x in ast.walk(s.value) if isinstance(x, ast.Name)}
                # ... up to the last statement that uses v (what comes later no longer matters)
                use_idx = [k for k, r in enumerate(rest) if any(_contains(r, u) for u in uses)]
                upto = rest[: max(use_idx) + 1] if use_idx and len(use_idx) and all(any(_contains(r, u) for r in rest) for u in uses) else rest
                if upto and upto is not rest and isinstance(upto[-1], (ast.Assign, ast.AugAssign, ast.Expr, ast.Return)):
                    # a simple statement evaluates its value before it stores: its own targets come after the use
                    check = upto[:-1]
                else:
                    check = rest
                if any(isinstance(x, ast.Name) and isinstance(x.ctx, (ast.Store, ast.Del)) and x.id in opnames for r in check for x in ast.walk(r)):
                    continue
                if any(isinstance(x, (ast.FunctionDef, ast.ClassDef, ast.AsyncFunctionDef)) and x.name in opnames for r in rest for x in ast.walk(r)):
                    continue
                inside = [u for u in uses if any(_contains(r, u) for r in rest)]
                if len(inside) != len(uses):
                    continue
                heap = _reads_heap(s.value)
                if heap and isinstance(s.value, ast.Attribute) and isinstance(s.value.value, ast.Name) and s.value.value.id == "self" and s.value.attr in _INIT_ONLY and fn.name != "__init__" and _CUR_MOD[0] not in _DYNAMIC:
                    heap = False  # an attribute that only __init__ ever sets
                ok = True
                if heap:
                    # no effect between the definition and the last statement that uses v; uses inside loops are excluded
                    last = max(k for k, r in enumerate(rest) if any(_contains(r, u) for u in uses))
                    chain = _attr_chain(s.value)
                    for k, r in enumerate(rest[: last + 1]):
                        uses_here = [u for u in uses if _contains(r, u)]
                        if k < last and _effectful(r) and not (chain and _only_touches_alias(r, v, chain)):
                            ok = False
                        if uses_here and isinstance(r, (ast.For, ast.While, ast.Try, ast.With)):
                            # what a for statement iterates over is evaluated once, before its body runs
                            if not (isinstance(r, ast.For) and all(_contains(r.iter, u) for u in uses_here)):
                                ok = False
                        if uses_here and k == last and isinstance(r, ast.If) and any(_effectful(b) for b in r.body + r.orelse) and len(uses_here) > 0:
                            # uses inside the branches come after whatever the branches did before them
                            if any(not _contains(r.test, u) for u in uses_here):
                                ok = False
                else:
                    for r in rest:
                        if any(_contains(r, u) for u in uses) and isinstance(r, (ast.For, ast.While)) and any(isinstance(x, ast.Name) and isinstance(x.ctx, ast.Store) and x.id in {y.id for y in ast.walk(s.value) if isinstance(y, ast.Name)} for x in ast.walk(r)):
                            ok = False
                if not ok:
                    continue
                for u in uses:
                    _replace_node(fn, u, ast.copy_location(copy.deepcopy(s.value), u))
                lst.remove(s)
                if not lst:
                    lst.append(ast.copy_location(ast.Pass(), s))
                changed = True
                break
            if changed:
                break
    return fn


def _in_loop_list(fn, lst):
    """is this statement list (part of) a loop body of fn"""
    def find(stmts, depth):
        if stmts is lst:
            return depth
        for s in stmts:
            if isinstance(s, (ast.FunctionDef, ast.AsyncFunctionDef, ast.ClassDef)):
                continue
            for f in ("body", "orelse", "finalbody"):
                v = getattr(s, f, None)
                if isinstance(v, list) and v and isinstance(v[0], ast.stmt):
                    r = find(v, depth + (1 if isinstance(s, (ast.For, ast.While)) and f == "body" else 0))
                    if r is not None:
                        return r
            if isinstance(s, ast.Try):
                for h in s.handlers:
                    r = find(h.body, depth)
                    if r is not None:
                        return r
        return None
    r = find(fn.body, 0)
    return r is None or r > 0


def _attr_chain(e):
    """['self', 'a', 'b'] for self.a.b (a chain of plain attribute reads), else None"""
    parts = []
    while isinstance(e, ast.Attribute):
        parts.append(e.attr)
        e = e.value
    if isinstance(e, ast.Name) and parts:
        return [e.id] + parts[::-1]
    return None


def _only_touches_alias(stmt, v, chain):
    """the statement's effects are method calls on the alias `v` itself (they change the object, not which object the
    attribute chain names) and stores to other attributes"""
    for n in _walk_same_function(stmt):
        if isinstance(n, ast.Call) and not (isinstance(n.func, ast.Name) and n.func.id in PURE_CALLS):
            f = n.func
            if not (isinstance(f, ast.Attribute) and isinstance(f.value, ast.Name) and f.value.id == v):
                return False
        if isinstance(n, ast.Attribute) and isinstance(n.ctx, (ast.Store, ast.Del)) and n.attr == chain[-1]:
            return False
        if isinstance(n, ast.Name) and isinstance(n.ctx, ast.Store) and n.id == chain[0]:
            return False
        if isinstance(n, (ast.Yield, ast.YieldFrom)):
            return False
    return True


def _contains(root, node):
    return any(n is node for n in ast.walk(root))


def _stmt_lists(fn):
    for n in _walk_same_function(fn):
        for f in ("body", "orelse", "finalbody"):
            v = getattr(n, f, None)
            if isinstance(v, list) and v and isinstance(v[0], ast.stmt):
                yield v
        if isinstance(n, ast.Try):
            for h in n.handlers:
                yield h.body


# ----------------------------------------------------------------------
# driver
# ----------------------------------------------------------------------

def normalize_package(trees, known=None, passes=None):
    """trees: dict module name -> ast.Module (modified in place). Returns statistics.
    passes: None = all, or a string of pass numbers to run (debugging aid: VERIF_NORMALIZE=12345)"""
    stats = {}
    on = lambda k: passes is None or str(k) in passes
    init_only_attrs(trees)
    for mn, t in trees.items():
        drop_noops(t)
        split_chained_assign(t)
        if mn in ("codegen",) or mn.endswith(".codegen"):
            split_writelines(t)
        if on(2):
            percent_format(t)
        if on(3):
            inline_module_constants(t)
            inline_class_constants(t)
            _Fold().visit(t)
        if on(8) and on(3):
            # loops over constant tables are sequences: written out before helpers are unfolded (a helper that searches a table
            # becomes a chain of tests)
            unroll_const_loops(t)
            _Fold().visit(t)
        if on(4):
            with_lock(t)
    if on(6):
        # aliases of helpers (`match = _match_prefix`) are resolved before the helpers are unfolded
        for mn, t in trees.items():
            _CUR_MOD[0] = mn
            for q, fn, cls, func in qualnames(t, mn):
                explain_vars(fn)
    if on(5):
        if known is None:
            known = load_known()
        inl = Inliner(trees, known)
        stats["inline"] = inl.run()
        for mn, t in trees.items():
            split_or_callee(t)
        if on(6) and stats["inline"].get("inlined"):
            # unfolding leaves aliases (`match = self._match`) and search loops (`v = X; break`) behind that hide further helpers:
            # bring what was unfolded into canonical form and unfold once more
            for mn, t in trees.items():
                _CUR_MOD[0] = mn
                for q, fn, cls, func in qualnames(t, mn):
                    explain_vars(fn)
                if on(7):
                    canon_flow(t)
            inl2 = Inliner(trees, known)
            st2 = inl2.run()
            stats["inline"]["inlined"] += st2["inlined"]
            stats["inline"]["sites"] += st2["sites"]
            for k_ in ("dropped", "dissolved", "closures", "with", "specialised"):
                if st2.get(k_):
                    stats["inline"].setdefault(k_, []).extend(st2[k_])
    for mn, t in trees.items():
        if on(6):
            _CUR_MOD[0] = mn
            for q, fn, cls, func in qualnames(t, mn):
                explain_vars(fn)
        if on(3):
            _Fold().visit(t)
        if on(8):
            unroll_const_loops(t)
        if on(7):
            canon_flow(t)
        if on(6):
            _CUR_MOD[0] = mn
            for q, fn, cls, func in qualnames(t, mn):
                explain_vars(fn)
        if on(3):
            _ReCanon().visit(t)
            _Fold().visit(t)
        if on(8):
            unroll_const_loops(t)
        if on(5):
            drop_dead_local_defs(t)
        if on(7):
            canon_flow(t)
        split_star_calls(t)
        if mn in ("codegen",) or mn.endswith(".codegen"):
            split_writelines(t)
        if on(7):
            canon_flow(t)
        ast.fix_missing_locations(t)
    return stats


# ----------------------------------------------------------------------
# N7  canonical control flow
# ----------------------------------------------------------------------

def _exits(body):
    """does every path through the statement list leave the enclosing block (return / raise / continue / break)"""
    if not body:
        return False
    last = body[-1]
    if isinstance(last, (ast.Return, ast.Raise, ast.Continue, ast.Break)):
        return True
    if isinstance(last, ast.If):
        return _exits(last.body) and _exits(last.orelse)
    return False


def _negate(test):
    if isinstance(test, ast.UnaryOp) and isinstance(test.op, ast.Not):
        return test.operand
    if isinstance(test, ast.BoolOp):
        # De Morgan: the negation goes to the operands
        new = ast.BoolOp(op=ast.And() if isinstance(test.op, ast.Or) else ast.Or(), values=[_negate(v) for v in test.values])
        return ast.copy_location(new, test)
    if isinstance(test, ast.Compare) and len(test.ops) == 1:
        inv = {ast.Is: ast.IsNot, ast.IsNot: ast.Is, ast.In: ast.NotIn, ast.NotIn: ast.In, ast.Eq: ast.NotEq, ast.NotEq: ast.Eq}
        t = type(test.ops[0])
        if t in inv:
            return ast.copy_location(ast.Compare(left=test.left, ops=[inv[t]()], comparators=test.comparators), test)
    return ast.copy_location(ast.UnaryOp(op=ast.Not(), operand=test), test)


def _is_wild(s):
    return isinstance(s, ast.Expr) and isinstance(s.value, ast.Constant) and s.value.value is Ellipsis


def _shared_tail_return(stmts):
    """if not c: return X    <body>    return X   ->   if c: <body>    return X   (X a plain name / constant / attribute the body does not assign)"""
    out = list(stmts)
    for i, s in enumerate(out):
        if isinstance(s, ast.If) and not s.orelse and len(s.body) == 1 and isinstance(s.body[0], ast.Return) and s.body[0].value is not None and i + 2 <= len(out) - 1:
            last = out[-1]
            x = s.body[0].value
            if isinstance(last, ast.Return) and last.value is not None and ast.dump(last.value) == ast.dump(x) and _simple_arg(x):
                body = out[i + 1:-1]
                names = {n.id for n in ast.walk(x) if isinstance(n, ast.Name)}
                assigned = {n.id for b in body for n in ast.walk(b) if isinstance(n, ast.Name) and isinstance(n.ctx, ast.Store)}
                if body and not (names & assigned) and not any(isinstance(n, ast.Return) for b in body for n in _walk_same_function(b)):
                    new = ast.If(test=_negate(s.test), body=body, orelse=[])
                    return out[:i] + [ast.fix_missing_locations(ast.copy_location(new, s)), last]
    return out


def _positive_guard(stmts):
    """if not c: <B, leaves>    <A, leaves>   ->   if c: <A>    <B>     (two alternatives that both leave: the positive test comes first)"""
    out = list(stmts)
    for i, s in enumerate(out):
        if isinstance(s, ast.If) and not s.orelse and isinstance(s.test, ast.UnaryOp) and isinstance(s.test.op, ast.Not) and _exits(s.body) and out[i + 1:] and _exits(out[i + 1:]):
            rest = out[i + 1:]
            new = ast.If(test=s.test.operand, body=_positive_guard(rest), orelse=[])
            return out[:i] + [ast.fix_missing_locations(ast.copy_location(new, s))] + s.body
    return out


def _bare_return_guard(stmts):
    """if c: <A>; return      <R>     ->   if c: <A>  else: <R>      (a `return` without value in front of the rest of the block)"""
    out = list(stmts)
    for i, s in enumerate(out):
        # a branch that always leaves and leaves at least once by a plain `return`: what follows it is its else-branch
        if isinstance(s, ast.If) and not s.orelse and out[i + 1:] and _exits(s.body) and not (isinstance(s.body[-1], ast.Return) and s.body[-1].value is None) \
                and any(isinstance(n, ast.Return) and n.value is None for b in s.body for n in _walk_same_function(b)) \
                and not any(isinstance(n, ast.Return) and n.value is not None for r in out for n in _walk_same_function(r)):
            new = ast.If(test=s.test, body=canon_flow_list(s.body, False, True), orelse=canon_flow_list(out[i + 1:], False, True))
            return out[:i] + [ast.fix_missing_locations(ast.copy_location(new, s))]
        if isinstance(s, ast.If) and not s.orelse and s.body and isinstance(s.body[-1], ast.Return) and s.body[-1].value is None and out[i + 1:]:
            rest = out[i + 1:]
            if any(isinstance(n, ast.Return) and n.value is not None for r in rest for n in _walk_same_function(r)):
                continue
            body = s.body[:-1]
            if not body:
                new = ast.If(test=_negate(s.test), body=rest, orelse=[])
            else:
                new = ast.If(test=s.test, body=body, orelse=rest)
                if isinstance(new.test, ast.UnaryOp) and isinstance(new.test.op, ast.Not):
                    new = ast.If(test=new.test.operand, body=rest, orelse=body)
            return out[:i] + [ast.fix_missing_locations(ast.copy_location(new, s))]
    return out


def _walk_loop_body(node):
    """nodes of a loop body that belong to this loop (nested loops keep their own break statements)"""
    yield node
    if isinstance(node, (ast.For, ast.While, ast.FunctionDef, ast.AsyncFunctionDef, ast.ClassDef, ast.Lambda)):
        return
    for c in ast.iter_child_nodes(node):
        yield from _walk_loop_body(c)


_STR_METHODS = frozenset("replace strip lstrip rstrip lower upper join format encode decode split rsplit splitlines title capitalize expandtabs ljust rjust zfill".split())
_NEVER_NONE_CALLS = frozenset("str repr int float len list tuple dict set frozenset bool sorted bytes abs min max sum".split())


def _never_none(e, scope, depth=3):
    """is the value of e certainly not None?  (new objects, strings built by operators / string methods / path functions; a plain
    name when every binding of it in `scope` is such a value)"""
    if isinstance(e, ast.Constant):
        return e.value is not None
    if isinstance(e, (ast.JoinedStr, ast.Tuple, ast.List, ast.Dict, ast.Set, ast.Compare, ast.ListComp, ast.SetComp, ast.DictComp, ast.GeneratorExp, ast.Lambda)):
        return True
    if isinstance(e, ast.BinOp):
        return True
    if isinstance(e, ast.IfExp):
        return _never_none(e.body, scope, depth) and _never_none(e.orelse, scope, depth)
    if isinstance(e, ast.Call):
        f = e.func
        if isinstance(f, ast.Name):
            return f.id in _NEVER_NONE_CALLS
        if isinstance(f, ast.Attribute):
            d_ = ast.unparse(f)
            if d_.startswith(("posixpath.", "os.path.", "ntpath.")) and f.attr in ("join", "normpath", "abspath", "dirname", "basename", "realpath", "normcase", "relpath"):
                return True
            if d_ in ("re.sub", "re.escape"):
                return True
            return f.attr in _STR_METHODS
        return False
    if isinstance(e, ast.Name) and depth:
        binds = [n for s_ in scope for n in ast.walk(s_) if isinstance(n, (ast.Assign, ast.AugAssign, ast.For, ast.With, ast.NamedExpr, ast.ExceptHandler, ast.comprehension))]
        vals = []
        for n in binds:
            if isinstance(n, ast.Assign):
                for t in n.targets:
                    if isinstance(t, ast.Name) and t.id == e.id:
                        vals.append(n.value)
                    elif any(isinstance(x, ast.Name) and x.id == e.id for x in ast.walk(t)):
                        return False
            elif isinstance(n, ast.AugAssign):
                if isinstance(n.target, ast.Name) and n.target.id == e.id:
                    vals.append(ast.BinOp(left=n.target, op=n.op, right=n.value))
            elif isinstance(n, (ast.For, ast.comprehension)):
                if any(isinstance(x, ast.Name) and x.id == e.id for x in ast.walk(n.target)):
                    return False
            elif isinstance(n, ast.With):
                if any(it.optional_vars is not None and any(isinstance(x, ast.Name) and x.id == e.id for x in ast.walk(it.optional_vars)) for it in n.items):
                    return False
            elif isinstance(n, ast.NamedExpr):
                if n.target.id == e.id:
                    return False
            elif isinstance(n, ast.ExceptHandler) and n.name == e.id:
                return False
        return bool(vals) and all(_never_none(v_, scope, depth - 1) for v_ in vals)
    return False


def _sentinel_search(stmts):
    """v = None; for ...: if c: v = X; break      if v is not None: <leave, using v>
       ->  for ...: if c: <leave, using X>"""
    out = list(stmts)
    # statements between `v = None` and the loop that do not mention v (what an unfolded generator computes first) are moved
    # in front of the assignment: the three statements of the pattern become adjacent
    for k_ in range(1, len(out) - 1):
        if isinstance(out[k_], (ast.For, ast.While)) and isinstance(out[k_ + 1], ast.If):
            t_ = out[k_ + 1].test
            if isinstance(t_, ast.Compare) and isinstance(t_.left, ast.Name) and len(t_.ops) == 1 and isinstance(t_.ops[0], (ast.Is, ast.IsNot)):
                v_ = t_.left.id
                j_ = k_ - 1
                while j_ >= 0 and isinstance(out[j_], (ast.Assign, ast.Expr)) and not any(isinstance(x, ast.Name) and x.id == v_ for x in ast.walk(out[j_])):
                    j_ -= 1
                if 0 <= j_ < k_ - 1 and isinstance(out[j_], ast.Assign) and len(out[j_].targets) == 1 and isinstance(out[j_].targets[0], ast.Name) and out[j_].targets[0].id == v_ \
                        and isinstance(out[j_].value, ast.Constant) and out[j_].value.value is None:
                    a_ = out.pop(j_)
                    out.insert(k_ - 1, a_)
    i = 0
    while i + 2 < len(out) + 0 and i + 2 <= len(out) - 1:
        a, lp, chk = out[i], out[i + 1], out[i + 2]
        if (isinstance(a, ast.Assign) and len(a.targets) == 1 and isinstance(a.targets[0], ast.Name) and isinstance(a.value, ast.Constant) and a.value.value is None
                and isinstance(lp, (ast.For, ast.While)) and not lp.orelse and isinstance(chk, ast.If) and not chk.orelse and _exits(chk.body)):
            v = a.targets[0].id
            t = chk.test
            is_test = (isinstance(t, ast.Compare) and len(t.ops) == 1 and isinstance(t.ops[0], ast.IsNot) and isinstance(t.left, ast.Name) and t.left.id == v and isinstance(t.comparators[0], ast.Constant) and t.comparators[0].value is None) or (isinstance(t, ast.Name) and t.id == v and False)
            sets = []
            bad = False
            for n in _walk_loop_body_list(lp.body):
                if isinstance(n, ast.Name) and n.id == v:
                    if not isinstance(n.ctx, ast.Store):
                        bad = True
            # every store of v inside the loop is `v = X` directly followed by `break`
            def find(stmts_):
                nonlocal bad
                for k, s in enumerate(stmts_):
                    if isinstance(s, ast.Assign) and len(s.targets) == 1 and isinstance(s.targets[0], ast.Name) and s.targets[0].id == v:
                        if k + 1 < len(stmts_) and isinstance(stmts_[k + 1], ast.Break) and k + 2 == len(stmts_):
                            sets.append((stmts_, k))
                        else:
                            bad = True
                    elif isinstance(s, ast.If):
                        find(s.body)
                        find(s.orelse)
                    elif any(isinstance(x, ast.Name) and x.id == v for x in ast.walk(s)):
                        bad = True
            find(lp.body)
            # the value found must not itself be the 'nothing found' marker
            if any(not _never_none(lst_[k_].value, [lp]) for lst_, k_ in sets):
                bad = True
            later = any(isinstance(x, ast.Name) and x.id == v for s in out[i + 3:] for x in ast.walk(s))
            # the mirrored spelling: `if v is None: <leave>` and the use of v is everything that follows (which leaves too)
            is_none_test = isinstance(t, ast.Compare) and len(t.ops) == 1 and isinstance(t.ops[0], ast.Is) and isinstance(t.left, ast.Name) and t.left.id == v and isinstance(t.comparators[0], ast.Constant) and t.comparators[0].value is None
            if is_none_test and sets and not bad and _exits(out[i + 3:]):
                rest = out[i + 3:]
                for lst, k in sets:
                    x_expr = lst[k].value
                    body = [(_SubstName(v, x_expr).visit(copy.deepcopy(b))) for b in rest]
                    lst[k:k + 2] = [ast.fix_missing_locations(b) for b in body]
                out[i:] = [lp] + chk.body
                continue
            if is_test and sets and not bad and not later:
                for lst, k in sets:
                    x_expr = lst[k].value
                    body = [(_SubstName(v, x_expr).visit(copy.deepcopy(b))) for b in chk.body]
                    lst[k:k + 2] = [ast.fix_missing_locations(b) for b in body]
                out[i:i + 3] = [lp]
                continue
        i += 1
    return out


def _walk_loop_body_list(stmts):
    for s in stmts:
        yield from _walk_loop_body(s)


def _bool_simplify(e):
    """in a boolean context: True if A else X -> A or X; False if A else X -> not A and X; X if A else False -> A and X; X if A else True -> not A or X"""
    if isinstance(e, ast.IfExp):
        a, x, y = e.test, _bool_simplify(e.body), _bool_simplify(e.orelse)
        cx = x.value if isinstance(x, ast.Constant) and isinstance(x.value, bool) else None
        cy = y.value if isinstance(y, ast.Constant) and isinstance(y.value, bool) else None
        new = None
        if cx is True and cy is False:
            new = a
        elif cx is False and cy is True:
            new = _negate(a)
        elif cx is True:
            new = ast.BoolOp(op=ast.Or(), values=[a, y])
        elif cx is False:
            new = ast.BoolOp(op=ast.And(), values=[_negate(a), y])
        elif cy is False:
            new = ast.BoolOp(op=ast.And(), values=[a, x])
        elif cy is True:
            new = ast.BoolOp(op=ast.Or(), values=[_negate(a), x])
        if new is not None:
            new = ast.fix_missing_locations(ast.copy_location(new, e))
            return _flatten_bool(new)
    if isinstance(e, ast.Call) and isinstance(e.func, ast.Name) and e.func.id == "bool" and len(e.args) == 1 and not e.keywords:
        return _bool_simplify(e.args[0])  # a test asks for the truth value anyway
    if isinstance(e, ast.UnaryOp) and isinstance(e.op, ast.Not):
        inner = _bool_simplify(e.operand)
        if isinstance(inner, ast.Constant) and isinstance(inner.value, bool):
            return ast.copy_location(ast.Constant(value=not inner.value), e)
        return ast.copy_location(ast.UnaryOp(op=ast.Not(), operand=inner), e)
    if isinstance(e, ast.BoolOp):
        e.values = [_bool_simplify(v) for v in e.values]
        e = _flatten_bool(e)
        if isinstance(e, ast.BoolOp):
            # in a test: `A or True` is True, `A and False` is False (A without effect); `A or False` is A, `A and True` is A
            absorbing = isinstance(e.op, ast.Or)
            consts = [v for v in e.values if isinstance(v, ast.Constant) and isinstance(v.value, bool)]
            rest = [v for v in e.values if v not in consts]
            if consts and all(isinstance(v, (ast.Name, ast.Attribute, ast.Constant)) or (isinstance(v, ast.UnaryOp) and isinstance(v.operand, (ast.Name, ast.Attribute))) for v in rest):
                if any(c.value is absorbing for c in consts):
                    return ast.copy_location(ast.Constant(value=absorbing), e)
                if not rest:
                    return ast.copy_location(ast.Constant(value=not absorbing), e)
                e = rest[0] if len(rest) == 1 else ast.copy_location(ast.BoolOp(op=e.op, values=rest), e)
        return e
    return e


def _flatten_bool(e):
    if isinstance(e, ast.BoolOp):
        vals = []
        for v in e.values:
            if isinstance(v, ast.BoolOp) and type(v.op) is type(e.op):
                vals.extend(v.values)
            else:
                vals.append(v)
        e.values = vals
    return e


def _single_use_test_temp(stmts, loads=None):
    """t = <expr>; if t: ...  (t used nowhere else) -> if <expr>: ...; the same for a temporary of the inliner used once in the next simple statement"""
    out = []
    i = 0
    while i < len(stmts):
        s = stmts[i]
        nxt = stmts[i + 1] if i + 1 < len(stmts) else None
        if isinstance(s, ast.Assign) and len(s.targets) == 1 and isinstance(s.targets[0], ast.Name) and s.targets[0].id.startswith("_inl") and isinstance(nxt, (ast.Assign, ast.Expr, ast.Return, ast.AugAssign)):
            v = s.targets[0].id
            uses = [n for n in ast.walk(nxt) if isinstance(n, ast.Name) and n.id == v and isinstance(n.ctx, ast.Load)]
            elsewhere = [n for st in stmts[i + 2:] for n in ast.walk(st) if isinstance(n, ast.Name) and n.id == v]
            if len(uses) == 1 and not elsewhere and (loads is None or loads.get(v, 0) == 1):
                _replace_node(nxt, uses[0], s.value)
                i += 1
                continue
        if isinstance(s, ast.Assign) and len(s.targets) == 1 and isinstance(s.targets[0], ast.Name) and isinstance(nxt, ast.For) and isinstance(nxt.iter, ast.Name) and nxt.iter.id == s.targets[0].id \
                and loads is not None and loads.get(s.targets[0].id, 0) == 1 and loads.get("\0names", {}).get(s.targets[0].id, 0) == 2:
            # t = <expr>; for x in t: ...   (t named for nothing else)
            nxt.iter = s.value
            i += 1
            continue
        if isinstance(s, ast.Assign) and len(s.targets) == 1 and isinstance(s.targets[0], ast.Name) and isinstance(nxt, ast.If):
            v = s.targets[0].id
            uses_in_test = [n for n in ast.walk(nxt.test) if isinstance(n, ast.Name) and n.id == v]
            elsewhere = [n for st in stmts[i + 1:] for n in ast.walk(st) if isinstance(n, ast.Name) and n.id == v and n not in uses_in_test]
            if len(uses_in_test) == 1 and not elsewhere and loads is not None and loads.get(v, 0) == 1:
                # the single use must be the first thing the test evaluates
                first = nxt.test
                while isinstance(first, (ast.BoolOp, ast.UnaryOp, ast.Compare)):
                    first = first.values[0] if isinstance(first, ast.BoolOp) else first.operand if isinstance(first, ast.UnaryOp) else first.left
                if first is uses_in_test[0]:
                    _replace_node(nxt, uses_in_test[0], s.value)
                    i += 1
                    continue
        out.append(s)
        i += 1
    return out


_SENTINELS = set()
_SENT_LEAKY = set()  # markers that functions of the module hand back: a call of package code may evaluate to one
_EXTERNAL_ROOTS = frozenset("functools os re posixpath time stat codecs io operator itertools collections getattr str int list dict set tuple bool len type repr sorted frozenset bytes".split())


def _cannot_be_marker(e):
    """can the value of e be a private marker object that is only ever bound to plain names, returned and compared?  Not if e makes
    a new object, reads an attribute / item (markers are never stored there) or calls code outside the package without passing it"""
    if isinstance(e, (ast.Constant, ast.JoinedStr, ast.Tuple, ast.List, ast.Dict, ast.Set, ast.BinOp, ast.Compare, ast.Attribute, ast.Subscript, ast.ListComp, ast.DictComp, ast.SetComp, ast.GeneratorExp)):
        return True
    if isinstance(e, ast.UnaryOp):
        return True
    if isinstance(e, ast.IfExp):
        return _cannot_be_marker(e.body) and _cannot_be_marker(e.orelse)
    if isinstance(e, ast.BoolOp):
        return all(_cannot_be_marker(v) for v in e.values)
    if isinstance(e, ast.Call):
        r = e.func
        while isinstance(r, ast.Attribute):
            r = r.value
        return isinstance(r, ast.Name) and r.id in _EXTERNAL_ROOTS
    return False


def _is_sent_test(t, v):
    """(name of sentinel, True if the test is `v is S`, False if `v is not S`) or None"""
    if isinstance(t, ast.Compare) and len(t.ops) == 1 and isinstance(t.ops[0], (ast.Is, ast.IsNot)) and isinstance(t.left, ast.Name) and (v is None or t.left.id == v) \
            and isinstance(t.comparators[0], ast.Name) and t.comparators[0].id in _SENTINELS:
        return t.left.id, t.comparators[0].id, isinstance(t.ops[0], ast.Is)
    return None


def _sentinel_elim(stmts):
    """a private module-level `S = object()` used as 'nothing found':
         v = S;                         if v is S: A else: B    ->  A
         v = X if c else S;             if v is S: A else: B    ->  if c: v = X; B  else: A
         if c: ..; v = X  else: v = S;  if v is S: A else: B    ->  if c: ..; v = X; B  else: A
    (X does not mention S: the sentinel is never the value of anything else)"""
    if not _SENTINELS:
        return stmts
    out = list(stmts)
    i = 0
    while i + 1 < len(out):
        a, chk = out[i], out[i + 1]
        st = _is_sent_test(chk.test, None) if isinstance(chk, ast.If) else None
        if st is None:
            i += 1
            continue
        v, S, is_ = st
        on_sent, otherwise = (chk.body, chk.orelse) if is_ else (chk.orelse, chk.body)

        def mentions(e):
            if any(isinstance(n, ast.Name) and n.id == S for n in ast.walk(e)):
                return True
            if S in _SENT_LEAKY:
                # the value bound instead of the marker must be something that cannot be the marker itself
                if isinstance(e, ast.expr):
                    if not _cannot_be_marker(e):
                        return True
                elif any(isinstance(n, ast.Assign) and any(isinstance(t, ast.Name) and t.id == v for t in n.targets) and not _cannot_be_marker(n.value) for n in ast.walk(e)):
                    return True
            return False

        def is_sent_assign(s):
            return isinstance(s, ast.Assign) and len(s.targets) == 1 and isinstance(s.targets[0], ast.Name) and s.targets[0].id == v and isinstance(s.value, ast.Name) and s.value.id == S

        def is_val_assign(s):
            return isinstance(s, ast.Assign) and len(s.targets) == 1 and isinstance(s.targets[0], ast.Name) and s.targets[0].id == v and not mentions(s.value)
        new = None
        if is_sent_assign(a):
            new = list(on_sent)
        elif isinstance(a, ast.Assign) and len(a.targets) == 1 and isinstance(a.targets[0], ast.Name) and a.targets[0].id == v and isinstance(a.value, ast.IfExp):
            ie = a.value
            if isinstance(ie.orelse, ast.Name) and ie.orelse.id == S and not mentions(ie.body):
                new = [ast.If(test=ie.test, body=[ast.Assign(targets=a.targets, value=ie.body)] + list(otherwise), orelse=list(on_sent))]
            elif isinstance(ie.body, ast.Name) and ie.body.id == S and not mentions(ie.orelse):
                new = [ast.If(test=ie.test, body=list(on_sent), orelse=[ast.Assign(targets=a.targets, value=ie.orelse)] + list(otherwise))]
        elif isinstance(a, ast.If) and a.body and a.orelse:
            if len(a.orelse) == 1 and is_sent_assign(a.orelse[0]) and is_val_assign(a.body[-1]) and not any(mentions(s) for s in a.body):
                new = [ast.If(test=a.test, body=list(a.body) + list(otherwise), orelse=list(on_sent))]
            elif len(a.body) == 1 and is_sent_assign(a.body[0]) and is_val_assign(a.orelse[-1]) and not any(mentions(s) for s in a.orelse):
                new = [ast.If(test=a.test, body=list(on_sent), orelse=list(a.orelse) + list(otherwise))]
        if new is None:
            i += 1
            continue
        for n_ in new:
            if isinstance(n_, ast.If):
                if not n_.body:
                    n_.test, n_.body, n_.orelse = _negate(n_.test), n_.orelse, []
                ast.fix_missing_locations(ast.copy_location(n_, a))
        out[i:i + 2] = new or [ast.copy_location(ast.Pass(), a)]
    return out


def _kills(stmts, v):
    """index-free test: walking the list, v is assigned (from something that does not read it) before any statement mentions it"""
    for s in stmts:
        mentions = any(isinstance(n, ast.Name) and n.id == v for n in ast.walk(s))
        if not mentions:
            continue
        if isinstance(s, ast.Assign) and len(s.targets) == 1 and isinstance(s.targets[0], ast.Name) and s.targets[0].id == v and not any(isinstance(n, ast.Name) and n.id == v for n in ast.walk(s.value)):
            return True
        if isinstance(s, ast.Try) and s.finalbody and not any(isinstance(n, ast.Name) and n.id == v for part in (s.body, s.handlers, s.orelse) for b in part for n in ast.walk(b)):
            return _kills(s.finalbody, v)
        return False
    return False


def _dead_const_stores(stmts, fn_names):
    """v = <constant> that is overwritten on every path before v is read, all reads of v coming after the overwriting statement"""
    out = []
    for i, s in enumerate(stmts):
        if isinstance(s, ast.Assign) and len(s.targets) == 1 and isinstance(s.targets[0], ast.Name) and isinstance(s.value, ast.Constant) and fn_names is not None:
            v = s.targets[0].id
            rest = stmts[i + 1:]
            inside = sum(1 for r in rest for n in ast.walk(r) if isinstance(n, ast.Name) and n.id == v)
            if _kills(rest, v) and inside == fn_names.get(v, 0) - 1:
                continue
        out.append(s)
    return out


def _continue_guard(stmts):
    """in a loop body:  if c: <A>; continue    <R>   ->   if c: <A>  else: <R>     (A not empty; `if c: continue` stays a guard);
    a `continue` that ends the loop body is dropped"""
    out = list(stmts)
    if out and isinstance(out[-1], ast.Continue) and len(out) > 1:
        out = out[:-1]
    for i, s in enumerate(out):
        if isinstance(s, ast.If) and not s.orelse and len(s.body) >= 2 and isinstance(s.body[-1], ast.Continue) and out[i + 1:] \
                and not any(isinstance(n, (ast.Continue, ast.Break)) for b in s.body[:-1] for n in _walk_loop_body(b)):
            new = ast.If(test=s.test, body=s.body[:-1], orelse=_continue_guard(out[i + 1:]))
            return out[:i] + [ast.fix_missing_locations(ast.copy_location(new, s))]
    if out and isinstance(out[-1], ast.If):
        last = out[-1]
        if last.body:
            last.body = _continue_guard(last.body) or [ast.copy_location(ast.Pass(), last)]
        if last.orelse:
            last.orelse = _continue_guard(last.orelse)
    return out


def canon_flow_list(stmts, pattern=False, tail=True, loads=None):
    """guard-clause form: an `else` after a branch that always leaves the block is flattened; the leaving branch comes first;
    `if not c: A else: B` (neither leaving) becomes `if c: B else: A`; if/else assigning one target becomes a conditional expression"""
    out = []
    if not pattern and loads is not None:
        # if c: ..; _inlN = X  else: _inlN = Y      v = _inlN     ->   the branches assign v directly
        k = 0
        stmts = list(stmts)
        while k + 1 < len(stmts):
            a, b = stmts[k], stmts[k + 1]
            if isinstance(a, ast.If) and isinstance(b, ast.Assign) and len(b.targets) == 1 and isinstance(b.targets[0], ast.Name) and isinstance(b.value, ast.Name) and b.value.id.startswith("_inl") and loads.get(b.value.id, 0) == 1:
                t, v = b.value.id, b.targets[0].id
                if not any(isinstance(n, ast.Name) and n.id == v for n in ast.walk(a)) and any(isinstance(n, ast.Name) and n.id == t and isinstance(n.ctx, ast.Store) for n in ast.walk(a)):
                    for n in ast.walk(a):
                        if isinstance(n, ast.Name) and n.id == t:
                            n.id = v
                    del stmts[k + 1]
                    continue
            k += 1
    if not pattern:
        stmts = _sentinel_elim(list(stmts))
        stmts = _single_use_test_temp(list(stmts), loads)
        if loads is not None and "\0names" in loads:
            stmts = _dead_const_stores(stmts, loads["\0names"])
    for s in stmts:
        if isinstance(s, (ast.If, ast.While)) and not pattern:
            s.test = _bool_simplify(s.test)
        # x = A if c else x  ->  if c: x = A         x = x if c else B  ->  if not c: x = B
        if not pattern and isinstance(s, ast.Assign) and len(s.targets) == 1 and isinstance(s.targets[0], ast.Name) and isinstance(s.value, ast.IfExp):
            x, ie = s.targets[0].id, s.value
            keep_else = isinstance(ie.orelse, ast.Name) and ie.orelse.id == x
            keep_body = isinstance(ie.body, ast.Name) and ie.body.id == x
            if keep_else != keep_body:
                new = ast.If(test=ie.test if keep_else else _negate(ie.test), body=[ast.Assign(targets=s.targets, value=ie.body if keep_else else ie.orelse)], orelse=[])
                s = ast.fix_missing_locations(ast.copy_location(new, s))
        for f in ("body", "orelse", "finalbody"):
            v = getattr(s, f, None)
            if isinstance(v, list) and v and isinstance(v[0], ast.stmt) and not isinstance(s, (ast.FunctionDef, ast.AsyncFunctionDef, ast.ClassDef)):
                is_tail = tail and s is stmts[-1] and isinstance(s, ast.If)
                setattr(s, f, canon_flow_list(v, pattern, tail=is_tail, loads=loads))
                if isinstance(s, (ast.For, ast.While)) and f == "body" and not pattern:
                    s.body = _continue_guard(s.body)
        # if A or B: <leave>  ->  if A: <leave>  if B: <leave>
        if isinstance(s, ast.If) and not s.orelse and not pattern and isinstance(s.test, ast.BoolOp) and isinstance(s.test.op, ast.Or) and _exits(s.body) and len(s.body) == 1 and isinstance(s.body[0], (ast.Continue, ast.Break, ast.Return)) and (not isinstance(s.body[0], ast.Return) or isinstance(s.body[0].value, (ast.Constant, type(None)))):
            for v in s.test.values:
                out.append(ast.fix_missing_locations(ast.copy_location(ast.If(test=v, body=[copy.deepcopy(s.body[0])], orelse=[]), s)))
            continue
        if isinstance(s, ast.Try):
            for h in s.handlers:
                h.body = canon_flow_list(h.body, pattern, tail=False, loads=loads)
        if isinstance(s, ast.If) and s.orelse and not pattern and all(isinstance(x, ast.Pass) for x in s.body):
            # if c: pass else: X  ->  if not c: X
            s.test, s.body, s.orelse = _negate(s.test), s.orelse, []
        if isinstance(s, ast.If) and s.orelse:
            wild = pattern and (any(_is_wild(x) for x in s.body) or any(_is_wild(x) for x in s.orelse))
            if not wild:
                b_exit, o_exit = _exits(s.body), _exits(s.orelse)
                if b_exit:
                    rest = s.orelse
                    s.orelse = []
                    out.append(s)
                    out.extend(rest)
                    continue
                if o_exit:
                    s.test = _negate(s.test)
                    rest = s.body
                    s.body, s.orelse = s.orelse, []
                    out.append(s)
                    out.extend(rest)
                    continue
                # x = a / x = b  ->  x = a if c else b
                if len(s.body) == 1 and len(s.orelse) == 1 and isinstance(s.body[0], ast.Assign) and isinstance(s.orelse[0], ast.Assign) and len(s.body[0].targets) == 1 and len(s.orelse[0].targets) == 1 and ast.dump(s.body[0].targets[0]) == ast.dump(s.orelse[0].targets[0]):
                    new = ast.Assign(targets=s.body[0].targets, value=ast.IfExp(test=s.test, body=s.body[0].value, orelse=s.orelse[0].value))
                    out.append(ast.fix_missing_locations(ast.copy_location(new, s)))
                    continue
                if isinstance(s.test, ast.UnaryOp) and isinstance(s.test.op, ast.Not) and not (len(s.orelse) == 1 and isinstance(s.orelse[0], ast.If)):
                    s.test = s.test.operand
                    s.body, s.orelse = s.orelse, s.body
        out.append(s)
    if not pattern:
        out = _positive_guard(out)
        out = _sentinel_search(out)
        out = _shared_tail_return(out)
        if tail:
            out = _bare_return_guard(out)
    # a loop without `break`: its else-clause is simply what follows
    flat = []
    for s in out:
        if isinstance(s, (ast.For, ast.While)) and s.orelse and not pattern and not any(isinstance(x, ast.Break) for b in s.body for x in _walk_loop_body(b)):
            rest = s.orelse
            s.orelse = []
            flat.append(s)
            flat.extend(rest)
        else:
            flat.append(s)
    out = flat
    # if c: return a   return b   ->   return a if c else b   (applied from the end, so chains nest)
    i = len(out) - 2
    while i >= 0:
        a, b = out[i], out[i + 1]
        if isinstance(a, ast.If) and not a.orelse and len(a.body) == 1 and isinstance(a.body[0], ast.Return) and a.body[0].value is not None and isinstance(b, ast.Return) and b.value is not None:
            new = ast.Return(value=ast.IfExp(test=a.test, body=a.body[0].value, orelse=b.value))
            out[i:i + 2] = [ast.fix_missing_locations(ast.copy_location(new, a))]
        i -= 1
    return out


# ----------------------------------------------------------------------
# N8  loops over a constant tuple are unrolled
# ----------------------------------------------------------------------

class _SubstName(ast.NodeTransformer):
    def __init__(self, name, value):
        self.name, self.value = name, value

    def visit_Name(self, node):
        if node.id == self.name and isinstance(node.ctx, ast.Load):
            return ast.copy_location(copy.deepcopy(self.value), node)
        return node


class _AnyAll(ast.NodeTransformer):
    """any(E(x) for x in (c1, .., cn)) -> bool(E(c1) or .. or E(cn));  all(...) -> bool(.. and ..)   (n <= 12, constants)"""

    def visit_Call(self, node):
        self.generic_visit(node)
        if isinstance(node.func, ast.Name) and node.func.id in ("any", "all") and len(node.args) == 1 and not node.keywords and isinstance(node.args[0], (ast.GeneratorExp, ast.ListComp)):
            g = node.args[0]
            if len(g.generators) == 1 and not g.generators[0].ifs and not g.generators[0].is_async and isinstance(g.generators[0].target, ast.Name) and isinstance(g.generators[0].iter, (ast.Tuple, ast.List)) \
                    and 1 <= len(g.generators[0].iter.elts) <= 12 and all(isinstance(e, ast.Constant) for e in g.generators[0].iter.elts):
                x = g.generators[0].target.id
                vals = [_Fold().visit(_SubstName(x, e).visit(copy.deepcopy(g.elt))) for e in g.generators[0].iter.elts]
                inner = vals[0] if len(vals) == 1 else ast.BoolOp(op=ast.Or() if node.func.id == "any" else ast.And(), values=vals)
                new = ast.Call(func=ast.Name(id="bool", ctx=ast.Load()), args=[inner], keywords=[])
                return ast.fix_missing_locations(ast.copy_location(new, node))
        return node


def _flag_search_loops(stmts):
    """v = False; for x in (c1, .., cn): if T(x): v = True; break     ->   v = bool(T(c1) or .. or T(cn))"""
    out = []
    i = 0
    while i < len(stmts):
        a = stmts[i]
        lp = stmts[i + 1] if i + 1 < len(stmts) else None
        if (isinstance(a, ast.Assign) and len(a.targets) == 1 and isinstance(a.targets[0], ast.Name) and isinstance(a.value, ast.Constant) and a.value.value is False
                and isinstance(lp, ast.For) and not lp.orelse and isinstance(lp.target, ast.Name) and isinstance(lp.iter, (ast.Tuple, ast.List)) and 1 <= len(lp.iter.elts) <= 12
                and all(isinstance(e, ast.Constant) for e in lp.iter.elts) and len(lp.body) == 1 and isinstance(lp.body[0], ast.If) and not lp.body[0].orelse and len(lp.body[0].body) == 2
                and isinstance(lp.body[0].body[0], ast.Assign) and len(lp.body[0].body[0].targets) == 1 and isinstance(lp.body[0].body[0].targets[0], ast.Name) and lp.body[0].body[0].targets[0].id == a.targets[0].id
                and isinstance(lp.body[0].body[0].value, ast.Constant) and lp.body[0].body[0].value.value is True and isinstance(lp.body[0].body[1], ast.Break)):
            x = lp.target.id
            vals = [_Fold().visit(_SubstName(x, e).visit(copy.deepcopy(lp.body[0].test))) for e in lp.iter.elts]
            inner = vals[0] if len(vals) == 1 else ast.BoolOp(op=ast.Or(), values=vals)
            new = ast.Assign(targets=a.targets, value=ast.Call(func=ast.Name(id="bool", ctx=ast.Load()), args=[inner], keywords=[]))
            out.append(ast.fix_missing_locations(ast.copy_location(new, a)))
            i += 2
            continue
        out.append(a)
        i += 1
    return out


def _unroll_extend(tree):
    """X.extend(E(a, b) for a, b in ((a1, b1), (a2, b2), ..))  ->  X.append(E(a1, b1)); X.append(E(a2, b2)); ..
    (the table written in place or held in a local that is used for nothing else; each of a, b used once in E)"""
    for fn in ast.walk(tree):
        if not isinstance(fn, (ast.FunctionDef, ast.AsyncFunctionDef)):
            continue
        for lst in list(_stmt_lists(fn)):
            i = 0
            while i < len(lst):
                s = lst[i]
                i += 1
                c = s.value if isinstance(s, ast.Expr) else None
                if not (isinstance(c, ast.Call) and isinstance(c.func, ast.Attribute) and c.func.attr == "extend" and len(c.args) == 1 and isinstance(c.args[0], (ast.GeneratorExp, ast.ListComp))):
                    continue
                g = c.args[0]
                if len(g.generators) != 1 or g.generators[0].ifs or g.generators[0].is_async:
                    continue
                it, tg = g.generators[0].iter, g.generators[0].target
                table_def = None
                if isinstance(it, ast.Name):
                    defs = [a for a in _walk_same_function(fn) if isinstance(a, ast.Assign) and len(a.targets) == 1 and isinstance(a.targets[0], ast.Name) and a.targets[0].id == it.id]
                    uses = [n for n in ast.walk(fn) if isinstance(n, ast.Name) and n.id == it.id]
                    if len(defs) == 1 and len(uses) == 2 and defs[0] in lst and lst.index(defs[0]) == i - 2:
                        table_def, it = defs[0], defs[0].value
                if not isinstance(it, (ast.Tuple, ast.List)) or not (1 <= len(it.elts) <= 12):
                    continue
                names = [tg.id] if isinstance(tg, ast.Name) else [e.id for e in tg.elts] if isinstance(tg, ast.Tuple) and all(isinstance(e, ast.Name) for e in tg.elts) else None
                if names is None:
                    continue
                if any(sum(1 for n in ast.walk(g.elt) if isinstance(n, ast.Name) and n.id == nm) > 1 for nm in names):
                    continue
                new, ok = [], True
                for row in it.elts:
                    vals = [row] if isinstance(tg, ast.Name) else list(row.elts) if isinstance(row, (ast.Tuple, ast.List)) and len(row.elts) == len(names) else None
                    if vals is None:
                        ok = False
                        break
                    e = copy.deepcopy(g.elt)
                    for nm, v in zip(names, vals):
                        e = _SubstName(nm, v).visit(e)
                    call = ast.Call(func=ast.Attribute(value=copy.deepcopy(c.func.value), attr="append", ctx=ast.Load()), args=[e], keywords=[])
                    new.append(ast.fix_missing_locations(ast.copy_location(ast.Expr(value=call), s)))
                if not ok:
                    continue
                k = lst.index(s)
                lst[k:k + 1] = new
                if table_def is not None:
                    lst.remove(table_def)
                i = k + len(new) - (1 if table_def is not None else 0)


def unroll_const_loops(tree):
    _AnyAll().visit(tree)
    _unroll_extend(tree)
    for n in ast.walk(tree):
        for f in ("body", "orelse", "finalbody"):
            v = getattr(n, f, None)
            if isinstance(v, list) and v and isinstance(v[0], ast.stmt):
                setattr(n, f, _flag_search_loops(v))
    for n in ast.walk(tree):
        for f in ("body", "orelse", "finalbody"):
            v = getattr(n, f, None)
            if not (isinstance(v, list) and v and isinstance(v[0], ast.stmt)):
                continue
            out = []
            for s in v:
                # for t in ([x] if c else Y): B   ->   if c: B[t := x]  else: for t in Y: B
                if isinstance(s, ast.For) and not s.orelse and isinstance(s.target, ast.Name) and isinstance(s.iter, ast.IfExp) and (isinstance(s.iter.body, (ast.Tuple, ast.List)) or isinstance(s.iter.orelse, (ast.Tuple, ast.List))) \
                        and not any(isinstance(x, (ast.Break, ast.Continue)) for b in s.body for x in _walk_loop_body(b)):
                    one = ast.For(target=s.target, iter=s.iter.body, body=s.body, orelse=[])
                    two = ast.For(target=copy.deepcopy(s.target), iter=s.iter.orelse, body=copy.deepcopy(s.body), orelse=[])
                    new = ast.If(test=s.iter.test, body=[ast.copy_location(one, s)], orelse=[ast.copy_location(two, s)])
                    new = ast.fix_missing_locations(ast.copy_location(new, s))
                    unroll_const_loops(new)
                    out.append(new)
                    continue
                # for a, b in ((a1, b1), (a2, b2), ..): B   (the table in place, or a local written just before and used for nothing else;
                # each of a, b read at most once in B)
                if isinstance(s, ast.For) and not s.orelse and isinstance(s.target, ast.Tuple) and all(isinstance(e, ast.Name) for e in s.target.elts) and len(s.body) <= 3 \
                        and not any(isinstance(x, (ast.Break, ast.Continue)) for b in s.body for x in ast.walk(b)):  # a return / yield in the body does the same in the unrolled sequence
                    table, prev = s.iter, None
                    if isinstance(table, ast.Name) and out and isinstance(out[-1], ast.Assign) and len(out[-1].targets) == 1 and isinstance(out[-1].targets[0], ast.Name) and out[-1].targets[0].id == table.id \
                            and sum(1 for x in ast.walk(n) if isinstance(x, ast.Name) and x.id == table.id) == 2:
                        prev, table = out[-1], out[-1].value
                    names = [e.id for e in s.target.elts]
                    if isinstance(table, (ast.Tuple, ast.List)) and 1 <= len(table.elts) <= 12 and all(isinstance(r, (ast.Tuple, ast.List)) and len(r.elts) == len(names) for r in table.elts) \
                            and all(sum(1 for b in s.body for x in ast.walk(b) if isinstance(x, ast.Name) and x.id == nm) <= 1 for nm in names) \
                            and not any(isinstance(x, ast.Name) and x.id in names and isinstance(x.ctx, ast.Store) for b in s.body for x in ast.walk(b)):
                        if prev is not None:
                            out.pop()
                        for r in table.elts:
                            for b in s.body:
                                nb = copy.deepcopy(b)
                                for nm, v in zip(names, r.elts):
                                    nb = _SubstName(nm, v).visit(nb)
                                out.append(ast.fix_missing_locations(nb))
                        continue
                roots = set()
                if isinstance(s, ast.For) and isinstance(s.iter, (ast.Tuple, ast.List)):
                    for e in s.iter.elts:
                        r = e
                        while isinstance(r, ast.Attribute):
                            r = r.value
                        if isinstance(r, ast.Name):
                            roots.add(r.id)
                simple_ok = isinstance(s, ast.For) and isinstance(s.iter, (ast.Tuple, ast.List)) and all(_simple_arg(e) for e in s.iter.elts) \
                    and not any(isinstance(x, ast.Name) and x.id in roots for b in s.body for x in ast.walk(b))
                if isinstance(s, ast.For) and not s.orelse and isinstance(s.target, ast.Name) and isinstance(s.iter, (ast.Tuple, ast.List)) and 1 <= len(s.iter.elts) <= 8 and (all(isinstance(e, ast.Constant) for e in s.iter.elts) or simple_ok) \
                        and not any(isinstance(x, (ast.Break, ast.Continue, ast.Return, ast.Yield, ast.YieldFrom)) for b in s.body for x in ast.walk(b)) \
                        and not any(isinstance(x, ast.Name) and x.id == s.target.id and isinstance(x.ctx, ast.Store) for b in s.body for x in ast.walk(b)) and len(s.body) <= 3:
                    for e in s.iter.elts:
                        for b in s.body:
                            out.append(ast.fix_missing_locations(_SubstName(s.target.id, e).visit(copy.deepcopy(b))))
                else:
                    out.append(s)
            setattr(n, f, out)
    return tree


class _Compare(ast.NodeTransformer):
    """a < b < c  ->  a < b and b < c (when b is a plain name / constant / attribute: evaluated twice without effect);
    [a] if c else [b]  ->  [a if c else b]"""

    def visit_IfExp(self, node):
        self.generic_visit(node)
        if isinstance(node.test, ast.UnaryOp) and isinstance(node.test.op, ast.Not):
            # a if not c else b  ->  b if c else a
            node = ast.copy_location(ast.IfExp(test=node.test.operand, body=node.orelse, orelse=node.body), node)
        a, b = node.body, node.orelse
        if isinstance(a, ast.Constant) and a.value is True and isinstance(b, ast.Constant) and b.value is False:
            # True if c else False  ->  bool(c)
            return ast.fix_missing_locations(ast.copy_location(ast.Call(func=ast.Name(id="bool", ctx=ast.Load()), args=[node.test], keywords=[]), node))
        if isinstance(a, (ast.List, ast.Tuple)) and type(a) is type(b) and len(a.elts) == 1 and len(b.elts) == 1:
            inner = ast.IfExp(test=node.test, body=a.elts[0], orelse=b.elts[0])
            new = type(a)(elts=[inner], ctx=ast.Load())
            return ast.fix_missing_locations(ast.copy_location(new, node))
        return node

    def visit_Compare(self, node):
        self.generic_visit(node)
        # a constant on the left moves to the right: 0 <= x  ->  x >= 0
        if len(node.ops) == 1 and isinstance(node.left, ast.Constant) and not isinstance(node.comparators[0], ast.Constant):
            flip = {ast.Lt: ast.Gt, ast.LtE: ast.GtE, ast.Gt: ast.Lt, ast.GtE: ast.LtE, ast.Eq: ast.Eq, ast.NotEq: ast.NotEq}
            if type(node.ops[0]) in flip:
                node = ast.copy_location(ast.Compare(left=node.comparators[0], ops=[flip[type(node.ops[0])]()], comparators=[node.left]), node)
        if len(node.ops) > 1 and all(_simple_arg(c) for c in node.comparators[:-1]):
            parts = []
            left = node.left
            for op, right in zip(node.ops, node.comparators):
                parts.append(self.visit_Compare(ast.Compare(left=left, ops=[op], comparators=[right])))
                left = right
            return ast.fix_missing_locations(ast.copy_location(ast.BoolOp(op=ast.And(), values=parts), node))
        return node


def _sentinel_names(tree):
    """private `S = object()` markers of a module (module level: 'S'; class level: 'self.S', 'cls.S', 'Class.S') that never
    escape: they are only compared, returned, used as parameter defaults or bound to plain local names"""
    def is_obj(s):
        return isinstance(s, ast.Assign) and len(s.targets) == 1 and isinstance(s.targets[0], ast.Name) and s.targets[0].id.startswith("_") and isinstance(s.value, ast.Call) and isinstance(s.value.func, ast.Name) and s.value.func.id == "object" and not s.value.args and not s.value.keywords
    cands = {}
    for s in tree.body:
        if is_obj(s):
            cands[s.targets[0].id] = {s.targets[0].id}
        if isinstance(s, ast.ClassDef):
            for c in s.body:
                if is_obj(c):
                    n = c.targets[0].id
                    cands[n] = {"self." + n, "cls." + n, s.name + "." + n}
    if not cands:
        return set(), set()
    ok_ids = set()
    for n in ast.walk(tree):
        if isinstance(n, ast.Compare):
            ok_ids |= {id(x) for x in [n.left] + n.comparators}
        elif isinstance(n, ast.Return) and n.value is not None:
            ok_ids.add(id(n.value))
        elif isinstance(n, ast.arguments):
            ok_ids |= {id(d) for d in n.defaults + [d for d in n.kw_defaults if d is not None]}
        elif isinstance(n, ast.Assign) and all(isinstance(t, ast.Name) for t in n.targets):
            ok_ids.add(id(n.value))
        elif isinstance(n, ast.IfExp):
            ok_ids |= {id(n.body), id(n.orelse)}
        elif isinstance(n, ast.keyword):
            pass
    texts, plain = set(), set()
    # a marker that some function hands back (returned, or bound to a local that is returned): the result of a call may then be
    # the marker, so `v = f(x) if c else S; if v is S` is NOT decided by c - such markers are left alone
    handed_back = set()
    for f in ast.walk(tree):
        if not isinstance(f, (ast.FunctionDef, ast.AsyncFunctionDef, ast.Lambda)):
            continue
        body_nodes = list(ast.walk(f))
        returned = [r.value for r in body_nodes if isinstance(r, ast.Return) and r.value is not None] + ([f.body] if isinstance(f, ast.Lambda) else [])
        ret_names = {n.id for r in returned for n in ast.walk(r) if isinstance(n, ast.Name)}
        for name in cands:
            if name in ret_names:
                handed_back.add(name)
            for a in body_nodes:
                if isinstance(a, ast.Assign) and any(isinstance(n, ast.Name) and n.id == name for n in ast.walk(a.value)) and any(isinstance(t, ast.Name) and t.id in ret_names for t in a.targets):
                    handed_back.add(name)
                if isinstance(a, ast.Attribute) and a.attr == name and any(a in list(ast.walk(r)) for r in returned):
                    handed_back.add(name)
    for name, forms in cands.items():
        refs = [x for x in ast.walk(tree) if (isinstance(x, ast.Name) and x.id == name and isinstance(x.ctx, ast.Load) and name in forms) or (isinstance(x, ast.Attribute) and x.attr == name and isinstance(x.ctx, ast.Load))]
        # keyword arguments / positional arguments of calls hand the marker on: only a default value that the callee compares is accepted
        if all(id(r) in ok_ids for r in refs):
            if name in handed_back:
                if name in forms:
                    plain.add(name)
                    _SENT_LEAKY.add(name)
                continue  # tests against attributes are not folded for such a marker
            texts |= forms
            if name in forms:
                plain.add(name)
    return texts, plain


_SENT_TEXTS = set()


def _fold_sentinel_tests(tree):
    """<attribute / item / constant> is [not] S  ->  False [True]: a marker that never escapes cannot be found in an attribute"""
    class T(ast.NodeTransformer):
        def visit_Compare(self, node):
            self.generic_visit(node)
            if len(node.ops) == 1 and isinstance(node.ops[0], (ast.Is, ast.IsNot)):
                a, b = node.left, node.comparators[0]
                for s_, o_ in ((a, b), (b, a)):
                    if isinstance(s_, (ast.Name, ast.Attribute)) and ast.unparse(s_) in _SENT_TEXTS and isinstance(o_, (ast.Attribute, ast.Subscript, ast.Constant)) and ast.unparse(o_) not in _SENT_TEXTS:
                        return ast.copy_location(ast.Constant(value=isinstance(node.ops[0], ast.IsNot)), node)
            return node
    T().visit(tree)
    _fold_constant_ifs(tree)


def _fold_constant_ifs(tree):
    """None is None -> True; <lambda / function of the module> is None -> False; if True: X -> X; if False: X else: Y -> Y;
    a if True else b -> a"""
    defs = {s.name for s in getattr(tree, "body", []) if isinstance(s, (ast.FunctionDef, ast.ClassDef))}
    # local functions too: a name that is only ever bound by `def` (nowhere assigned, no parameter of that name) is never None
    defs |= {s.name for s in ast.walk(tree) if isinstance(s, ast.FunctionDef)}
    rebound = {n.id for n in ast.walk(tree) if isinstance(n, ast.Name) and isinstance(n.ctx, (ast.Store, ast.Del))} | {a.arg for a in ast.walk(tree) if isinstance(a, ast.arg)}

    class T(ast.NodeTransformer):
        def visit_Compare(self, node):
            self.generic_visit(node)
            if len(node.ops) == 1 and isinstance(node.ops[0], (ast.Is, ast.IsNot)) and isinstance(node.comparators[0], ast.Constant) and node.comparators[0].value is None:
                l = node.left
                val = None
                if isinstance(l, ast.Constant):
                    val = l.value is None
                elif isinstance(l, ast.Lambda) or (isinstance(l, ast.Name) and l.id in defs and l.id not in rebound):
                    val = False
                if val is not None:
                    return ast.copy_location(ast.Constant(value=val if isinstance(node.ops[0], ast.Is) else not val), node)
            return node

        def visit_IfExp(self, node):
            self.generic_visit(node)
            if isinstance(node.test, ast.Constant) and isinstance(node.test.value, bool):
                return node.body if node.test.value else node.orelse
            return node
    T().visit(tree)
    for n in ast.walk(tree):
        for f in ("body", "orelse", "finalbody"):
            v = getattr(n, f, None)
            if isinstance(v, list) and v and isinstance(v[0], ast.stmt):
                out = []
                for s in v:
                    if isinstance(s, ast.If) and isinstance(s.test, ast.Constant) and isinstance(s.test.value, bool):
                        out.extend(s.body if s.test.value else s.orelse)
                    else:
                        out.append(s)
                if not out and f == "body":
                    out = [ast.copy_location(ast.Pass(), v[0])]
                setattr(n, f, out)


def canon_flow(tree, pattern=False):
    _SENTINELS.clear()
    _SENT_TEXTS.clear()
    _SENT_LEAKY.clear()
    if isinstance(tree, ast.Module) and not pattern:
        texts, plain = _sentinel_names(tree)
        _SENTINELS.update(plain)
        _SENT_TEXTS.update(texts)
        if texts:
            _fold_sentinel_tests(tree)
        else:
            _fold_constant_ifs(tree)
    _Compare().visit(tree)
    for n in ast.walk(tree):
        for f in ("body", "orelse", "finalbody"):
            pass
    if isinstance(tree, ast.Module):
        tree.body = canon_flow_list(tree.body, pattern)
    for n in ast.walk(tree):
        if isinstance(n, (ast.FunctionDef, ast.AsyncFunctionDef)):
            loads = {}
            for x in ast.walk(n):
                if isinstance(x, ast.Name) and isinstance(x.ctx, ast.Load):
                    loads[x.id] = loads.get(x.id, 0) + 1
            names = {}
            for x in ast.walk(n):
                if isinstance(x, ast.Name):
                    names[x.id] = names.get(x.id, 0) + 1
                elif isinstance(x, (ast.Global, ast.Nonlocal)):
                    for g in x.names:
                        names[g] = names.get(g, 0) + 1000
            loads["\0names"] = names
            n.body = canon_flow_list(n.body, pattern, loads=loads)
        elif isinstance(n, ast.ClassDef):
            n.body = canon_flow_list(n.body, pattern)
    return tree
