"""Typestate analysis of skeleton programs.

1. effect summaries of the small stack-manipulating runtime methods, derived
   from runtime.py on every run by symbolic evaluation;
2. a forward dataflow over the skeleton's CFG (exceptional and return edges)
   whose state is the LIFO stack of resources acquired since entry, the armed
   state of `nextcaller` (as a resource) and the buffer depth at which
   __M_writer was last bound."""

import ast

from ..core import AnalysisError
from . import cfg as cfgmod
from .facts import dotted, const, src, walk_func


# ----------------------------------------------------------------------
# effect summaries from runtime.py
# ----------------------------------------------------------------------

class Effect:
    def __init__(self):
        self.delta = {}  # stack attr text -> net int
        self.returns = None  # 'writer-of-top' | 'popped' | 'top' | 'tuple:popped,writer-of-top' | 'pushed' | other text
        self.nextcaller = None  # 'none' | 'popped' | None (untouched)

    def net(self):
        vals = [v for v in self.delta.values() if v]
        return sum(vals)

    def __repr__(self):
        return "Effect(delta=%s returns=%s nextcaller=%s)" % (self.delta, self.returns, self.nextcaller)


class RuntimeEffects:
    """summaries for Context / CallerStack / LoopStack methods."""

    STACKS = {"runtime.Context": "self._buffer_stack", "runtime.CallerStack": "self", "runtime.LoopStack": "self.stack"}

    def __init__(self, db):
        self.db = db
        self.cache = {}
        self.props = {}

    def effect(self, clsq, name, depth=0):
        k = (clsq, name)
        if k in self.cache:
            return self.cache[k]
        meths = self.db.methods(clsq)
        if name not in meths:
            raise AnalysisError("typestate: %s.%s not found in runtime.py (the generator emits a call to it)" % (clsq, name))
        if depth > 5:
            raise AnalysisError("typestate: recursion in %s.%s" % (clsq, name))
        fn = meths[name]
        eff = Effect()
        stack = self.STACKS[clsq]
        env = {}
        self._block(clsq, fn.body, eff, stack, env, depth)
        self.cache[k] = eff
        return eff

    def _classify(self, clsq, e, stack, env, eff, depth):
        """classify a value expression (after the statements so far)."""
        if e is None:
            return "none"
        if isinstance(e, ast.Constant) and e.value is None:
            return "none"
        t = src(e)
        if isinstance(e, ast.Name) and e.id in env:
            return env[e.id]
        if isinstance(e, ast.Attribute) and e.attr == "write":
            inner = self._classify(clsq, e.value, stack, env, eff, depth)
            if inner in ("top", "pushed"):
                return "writer-of-top"
            return "writer-of-" + inner
        if isinstance(e, ast.Subscript) and src(e.value) == stack and const(e.slice) == -1:
            return "top"
        if isinstance(e, ast.Call):
            nm = dotted(e.func)
            if nm == stack + ".pop" and not e.args:
                return "popped"
            if nm and nm.startswith("self.") and nm.count(".") == 1:
                sub = self.effect(clsq, nm.split(".")[1], depth + 1)
                return sub.returns
        if isinstance(e, ast.Attribute) and dotted(e) and dotted(e).startswith("self.") and dotted(e).count(".") == 1:
            # property?
            meths = self.db.methods(clsq)
            a = e.attr
            if a in meths and any(dotted(d) == "property" for d in meths[a].decorator_list):
                return self._prop(clsq, a, stack, depth)
        if isinstance(e, ast.IfExp):
            a_, b_ = self._classify(clsq, e.body, stack, env, eff, depth), self._classify(clsq, e.orelse, stack, env, eff, depth)
            if a_ == b_:
                return a_
            if {a_, b_} == {"top", "expr:self"} and src(e.test) == stack:
                return "top"  # the top, or the stack object itself when empty
        if isinstance(e, ast.Tuple):
            return "tuple:" + ",".join(self._classify(clsq, x, stack, env, eff, depth) for x in e.elts)
        if isinstance(e, ast.BoolOp):
            return "expr:" + t
        return "expr:" + t

    def _prop(self, clsq, name, stack, depth):
        fn = self.db.methods(clsq)[name]
        # `if self.stack: return self.stack[-1] else: return self` -> 'top'
        rets = [n for n in walk_func(fn) if isinstance(n, ast.Return)]
        kinds = set()

        def arms(e):
            return arms(e.body) + arms(e.orelse) if isinstance(e, ast.IfExp) else [e]
        for r in rets:
            for v in arms(r.value):
                if isinstance(v, ast.Subscript) and src(v.value) == stack and const(v.slice) == -1:
                    kinds.add("top")
                elif src(v) == "self":
                    kinds.add("self-when-empty")
                else:
                    kinds.add("expr:" + src(v))
        if kinds <= {"top", "self-when-empty"} and "top" in kinds:
            return "top"
        return "|".join(sorted(kinds))

    def _block(self, clsq, stmts, eff, stack, env, depth):
        for s in stmts:
            if isinstance(s, ast.Expr) and isinstance(s.value, ast.Constant):
                continue
            if isinstance(s, ast.Assert):
                continue
            if isinstance(s, ast.Return):
                # calls inside the return expression take effect first
                self._calls(clsq, s.value, eff, stack, env, depth)
                eff.returns = self._classify(clsq, s.value, stack, env, eff, depth)
                return True
            if isinstance(s, ast.Assign):
                self._calls(clsq, s.value, eff, stack, env, depth)
                kind = self._classify(clsq, s.value, stack, env, eff, depth)
                for t in s.targets:
                    if isinstance(t, ast.Name):
                        env[t.id] = kind
                        if isinstance(s.value, ast.Call) and (dotted(s.value.func) or "").endswith("FastEncodingBuffer"):
                            env[t.id] = "fresh-buffer"
                        if isinstance(s.value, ast.Call) and (dotted(s.value.func) or "") == "LoopContext":
                            env[t.id] = "fresh-loopcontext"
                    elif dotted(t) == "self.nextcaller":
                        eff.nextcaller = kind
                    elif isinstance(t, ast.Attribute) and isinstance(t.value, ast.Name):
                        pass  # attribute of a local (new.parent = ...)
                    else:
                        raise AnalysisError("typestate: unrecognised store %s in %s" % (src(t), clsq))
                continue
            if isinstance(s, ast.Expr):
                self._calls(clsq, s.value, eff, stack, env, depth)
                continue
            if isinstance(s, ast.Delete):
                for t in s.targets:
                    if isinstance(t, ast.Subscript) and src(t.value) == stack and const(t.slice) == -1:
                        eff.delta[stack] = eff.delta.get(stack, 0) - 1
                    else:
                        raise AnalysisError("typestate: unrecognised del %s in %s" % (src(t), clsq))
                continue
            if isinstance(s, ast.If):
                a, b = Effect(), Effect()
                ea, eb = dict(env), dict(env)
                ra = self._block(clsq, s.body, a, stack, ea, depth)
                rb = self._block(clsq, s.orelse, b, stack, eb, depth)
                if a.delta != b.delta or a.nextcaller != b.nextcaller:
                    raise AnalysisError("typestate: branches of `if %s` in %s disagree on the stack effect" % (src(s.test), clsq))
                for k, v in a.delta.items():
                    eff.delta[k] = eff.delta.get(k, 0) + v
                if ra and rb:
                    eff.returns = a.returns if a.returns == b.returns else "%s|%s" % (a.returns, b.returns)
                    return True
                continue
            if isinstance(s, ast.Pass):
                continue
            raise AnalysisError("typestate: statement %s in %s not modelled" % (type(s).__name__, clsq))
        return False

    def _calls(self, clsq, e, eff, stack, env, depth):
        if e is None:
            return
        for n in ast.walk(e):
            if isinstance(n, ast.Call):
                nm = dotted(n.func)
                if nm == stack + ".append":
                    eff.delta[stack] = eff.delta.get(stack, 0) + 1
                    if n.args and isinstance(n.args[0], ast.Name):
                        env[n.args[0].id] = "pushed"
                elif nm == stack + ".pop":
                    if n.args:
                        raise AnalysisError("typestate: pop with index in %s" % clsq)
                    eff.delta[stack] = eff.delta.get(stack, 0) - 1
                elif nm in (stack + ".insert", stack + ".extend", stack + ".clear", stack + ".remove"):
                    raise AnalysisError("typestate: stack mutator %s not modelled" % nm)
                elif nm and nm.startswith("self.") and nm.count(".") == 1 and nm.split(".")[1] in self.db.methods(clsq):
                    sub = self.effect(clsq, nm.split(".")[1], depth + 1)
                    for k, v in sub.delta.items():
                        eff.delta[k] = eff.delta.get(k, 0) + v
                    if sub.nextcaller is not None:
                        eff.nextcaller = sub.nextcaller


# receivers as they appear in emitted code -> runtime class
RECEIVERS = {
    "context": "runtime.Context",
    "context.caller_stack": "runtime.CallerStack",
    "__M_loop": "runtime.LoopStack",
}
RESOURCE = {"runtime.Context": "buf", "runtime.CallerStack": "frame", "runtime.LoopStack": "loop"}


class Violation:
    def __init__(self, kind, line, msg):
        self.kind = kind
        self.line = line
        self.msg = msg

    def __repr__(self):
        return "%s@%s: %s" % (self.kind, self.line, self.msg)


class Checker:
    """typestate of one function body of a skeleton."""

    def __init__(self, rt, summaries=None):
        self.rt = rt
        self.summaries = summaries or {}  # CALL name -> dict(binds_writer=bool)

    # classify one simple statement of the skeleton ---------------------
    def classify(self, st):
        """returns list of actions:
        ('acq', res) ('rel', res) ('bindw', when) ('use_writer',) ('arm',) ('disarm',) ('rebind_loop',)
        ('call', name) ('children',) ('userblock',)"""
        acts = []
        value = None
        targets = []
        if isinstance(st, ast.Assign):
            value = st.value
            targets = [src(t) for t in st.targets]
        elif isinstance(st, ast.Expr):
            value = st.value
        elif isinstance(st, ast.Return):
            value = st.value
        if isinstance(st, ast.Assign) and any(t == "context.caller_stack.nextcaller" for t in targets):
            if isinstance(value, ast.Constant) and value.value is None:
                acts.append(("disarm",))
            else:
                acts.append(("arm",))
        if value is None:
            return acts
        # nested calls: look at every Call in the value
        calls = [n for n in ast.walk(value) if isinstance(n, ast.Call) and not _inside_lambda(value, n)]
        for c in calls:
            nm = dotted(c.func)
            if nm is None:
                continue
            if nm == "__M_writer":
                acts.append(("use_writer",))
                continue
            if nm == "__CHILDREN__":
                acts.append(("children",))
                continue
            if nm == "__USERBLOCK__":
                acts.append(("userblock",))
                continue
            if nm.startswith("__CALL_"):
                acts.append(("call", nm[7:-2]))
                continue
            recv, _, meth = nm.rpartition(".")
            if recv in RECEIVERS:
                clsq = RECEIVERS[recv]
                if meth in self.rt.db.methods(clsq):
                    eff = self.rt.effect(clsq, meth)
                    d = eff.net()
                    res = RESOURCE[clsq]
                    if d == 1:
                        acts.append(("acq", res, eff, c))
                    elif d == -1:
                        acts.append(("rel", res, eff, c))
                    elif d != 0:
                        acts.append(("bad", "%s changes the %s stack by %d" % (nm, res, d)))
                    # writer binding through the return value
                    if c is value or (isinstance(value, ast.Call) and c is value):
                        ret = eff.returns or ""
                        if isinstance(st, ast.Assign):
                            tg = st.targets[0]
                            if isinstance(tg, ast.Name) and tg.id == "__M_writer":
                                acts.append(("bindw", "after" , ret == "writer-of-top", ret))
                            elif isinstance(tg, ast.Tuple):
                                parts = ret.split(":", 1)[1].split(",") if ret.startswith("tuple:") else []
                                for i, e in enumerate(tg.elts):
                                    if isinstance(e, ast.Name) and e.id == "__M_writer":
                                        ok = i < len(parts) and parts[i] == "writer-of-top"
                                        acts.append(("bindw", "after", ok, parts[i] if i < len(parts) else ret))
                            # loop rebinding
                            if res == "loop":
                                names = set()
                                for t in st.targets:
                                    for n in ast.walk(t):
                                        if isinstance(n, ast.Name):
                                            names.add(n.id)
                                acts.append(("rebind_loop", "loop" in names, ret))
                        elif res == "loop":
                            acts.append(("rebind_loop", False, ret))
        return acts

    def is_resource_stmt(self, st):
        return any(a[0] in ("acq", "rel", "arm", "disarm") for a in self.classify(st))

    # ------------------------------------------------------------------
    def check_function(self, body, name, entry_writer_bound):
        """run the typestate on a statement list.  Returns list[Violation] and stats."""
        viol = []
        cache = {}

        def acts_of(st):
            k = id(st)
            if k not in cache:
                cache[k] = self.classify(st)
            return cache[k]

        def may_raise(st):
            if isinstance(st, (ast.Pass, ast.Break, ast.Continue, ast.FunctionDef)):
                return False
            a = acts_of(st) if isinstance(st, (ast.Assign, ast.Expr, ast.Return)) else []
            kinds = {x[0] for x in a}
            if kinds and kinds <= {"acq", "rel", "bindw", "disarm", "rebind_loop"}:
                # stack primitives are trusted not to raise - unless the acquiring call
                # evaluates an argument (user expression) first: then it may raise *before*
                # anything was acquired
                for x in a:
                    if x[0] == "acq" and (x[3].args or x[3].keywords):
                        return True
                return False
            if isinstance(st, ast.Return) and isinstance(st.value, ast.Constant):
                return False
            return True

        g = SkeletonCFG(body, name, may_raise)
        init = ((), 0 if entry_writer_bound else None)

        def transfer(node, state):
            st = node.stmt
            if st is None or node.label in ("Try", "ExceptDispatch", "Handler", "Reraise", "If", "For", "While", "With"):
                return [(state, None)]
            if isinstance(st, ast.FunctionDef):
                return [(state, None)]
            stack, wd = state
            new_stack, new_wd = stack, wd
            depth = sum(1 for r in stack if r == "buf")
            for a in acts_of(st):
                k = a[0]
                if k == "bad":
                    viol.append(Violation("effect", st.lineno, a[1]))
                elif k == "acq":
                    new_stack = new_stack + (a[1],)
                elif k == "arm":
                    new_stack = new_stack + ("nextcaller",)
                elif k in ("rel", "disarm"):
                    res = a[1] if k == "rel" else "nextcaller"
                    if not new_stack:
                        viol.append(Violation("underflow", st.lineno, "release of %s with nothing acquired on this path" % res))
                    elif new_stack[-1] != res:
                        if res in new_stack:
                            # the stacks are independent objects: the order in which different
                            # resources are released is not observable, only the pairing is
                            lst = list(new_stack)
                            idx = len(lst) - 1 - lst[::-1].index(res)
                            del lst[idx]
                            new_stack = tuple(lst)
                        else:
                            viol.append(Violation("underflow", st.lineno, "release of %s which is not held on this path (held: %s)" % (res, list(new_stack))))
                    else:
                        new_stack = new_stack[:-1]
                elif k == "bindw":
                    d2 = sum(1 for r in new_stack if r == "buf")
                    if a[2]:
                        new_wd = d2
                    else:
                        viol.append(Violation("writer-source", st.lineno, "__M_writer bound from %r, not from the writer of the current top buffer" % (a[3],)))
                        new_wd = "stale"
                elif k == "use_writer":
                    if wd is None:
                        viol.append(Violation("writer-unbound", st.lineno, "__M_writer used before it is bound in this callable"))
                    elif wd != depth:
                        viol.append(Violation("writer-depth", st.lineno, "__M_writer was bound at buffer depth %s but is used at depth %d: output goes to the wrong buffer" % (wd, depth)))
                elif k == "call":
                    s = self.summaries.get(a[1], {})
                    if s.get("binds_writer"):
                        new_wd = depth
                elif k == "rebind_loop":
                    if not a[1]:
                        viol.append(Violation("loop-rebind", st.lineno, "loop-stack operation does not rebind `loop` from its result"))
                    elif a[2] != "top":
                        viol.append(Violation("loop-rebind", st.lineno, "`loop` is rebound to %r, not to the new top of the loop stack" % (a[2],)))
            return [((new_stack, new_wd), "n"), (state, "e")]

        IN = cfgmod.forward(g, init, transfer)
        exits = dict(normal=IN.get(g.exit, set()), exc=IN.get(g.rexit, set()))
        return g, viol, exits


def _inside_lambda(root, node):
    for n in ast.walk(root):
        if isinstance(n, ast.Lambda):
            if any(x is node for x in ast.walk(n.body)):
                return True
    return False


class SkeletonCFG(cfgmod.CFG):
    def __init__(self, body, name, may_raise):
        self._mr = may_raise
        super().__init__(body, name)

    def _raises(self, s):
        return self._mr(s)
