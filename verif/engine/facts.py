"""Program database over /repo/mako: parsed modules, qualified lookups,
parent links, small AST helpers shared by all rules."""

import ast
import os

from ..core import AnalysisError, AnchorMissing


def dotted(node):
    """'a.b.c' for Name/Attribute chains (call results shown as 'f()')."""
    if isinstance(node, ast.Name):
        return node.id
    if isinstance(node, ast.Attribute):
        b = dotted(node.value)
        return None if b is None else b + "." + node.attr
    if isinstance(node, ast.Call):
        b = dotted(node.func)
        return None if b is None else b + "()"
    if isinstance(node, ast.Subscript):
        b = dotted(node.value)
        if b is None:
            return None
        s = node.slice
        if isinstance(s, ast.Constant):
            return "%s[%r]" % (b, s.value)
        if isinstance(s, ast.UnaryOp) and isinstance(s.op, ast.USub) and isinstance(s.operand, ast.Constant):
            return "%s[-%r]" % (b, s.operand.value)
        return b + "[]"
    return None


def call_name(node):
    """dotted name of the callee of a Call node, else None."""
    if isinstance(node, ast.Call):
        return dotted(node.func)
    return None


def src(node):
    try:
        return ast.unparse(node)
    except Exception:
        return "<%s>" % type(node).__name__


def const(node, default=None):
    if isinstance(node, ast.Constant):
        return node.value
    if isinstance(node, ast.UnaryOp) and isinstance(node.op, ast.USub) and isinstance(node.operand, ast.Constant) and isinstance(node.operand.value, (int, float)):
        return -node.operand.value
    return default


def is_const(node, value):
    return isinstance(node, ast.Constant) and node.value == value and type(node.value) is type(value)


def walk_no_nested(node, include_self=True):
    """ast.walk that does not descend into nested function/class/lambda bodies."""
    todo = [node] if include_self else list(ast.iter_child_nodes(node))
    first = True
    while todo:
        n = todo.pop()
        yield n
        if not first or not include_self:
            if isinstance(n, (ast.FunctionDef, ast.AsyncFunctionDef, ast.ClassDef, ast.Lambda)):
                continue
        first = False
        todo.extend(ast.iter_child_nodes(n))


def walk_func(fn):
    """All nodes of a function body, excluding nested defs/classes/lambdas."""
    for st in fn.body:
        for n in _walk_skip(st):
            yield n


def _walk_skip(n):
    yield n
    if isinstance(n, (ast.FunctionDef, ast.AsyncFunctionDef, ast.ClassDef, ast.Lambda)):
        return
    for c in ast.iter_child_nodes(n):
        yield from _walk_skip(c)


class Module:
    def __init__(self, name, path, relpath, source, tree):
        self.name = name
        self.path = path
        self.relpath = relpath
        self.source = source
        self.tree = tree
        self.imports = {}  # local alias -> dotted target


class DB:
    def __init__(self, repo):
        self.repo = repo
        self.pkg = os.path.join(repo, "mako")
        if not os.path.isdir(self.pkg):
            raise AnchorMissing("package directory %s not found" % self.pkg)
        self.modules = {}
        self.defs = {}  # qualified name -> FunctionDef/ClassDef
        self._counts = dict(files=0, functions=0, classes=0, calls=0, lines=0)
        for root, dirs, files in sorted(os.walk(self.pkg)):
            dirs.sort()
            if "__pycache__" in dirs:
                dirs.remove("__pycache__")
            for fn in sorted(files):
                if not fn.endswith(".py"):
                    continue
                path = os.path.join(root, fn)
                rel = os.path.relpath(path, self.pkg)
                name = rel[:-3].replace(os.sep, ".")
                if name.endswith(".__init__"):
                    name = name[: -len(".__init__")]
                with open(path, encoding="utf-8") as f:
                    source = f.read()
                try:
                    tree = ast.parse(source, filename=path)
                except SyntaxError as e:
                    raise AnalysisError("cannot parse %s: %s" % (path, e))
                m = Module(name, path, "mako/" + rel, source, tree)
                self.modules[name] = m
                self._counts["files"] += 1
                self._counts["lines"] += source.count("\n") + 1
        # canonical form (engine/normalize.py): refactorings that preserve behaviour converge to one shape
        from . import normalize
        try:
            self.normalize_stats = normalize.normalize_package({n: m.tree for n, m in self.modules.items()}, passes=os.environ.get("VERIF_NORMALIZE"))
        except RecursionError:
            raise AnalysisError("normalisation did not terminate")
        for m in self.modules.values():
            self._index(m)

    # ------------------------------------------------------------------
    def _index(self, m):
        # `lineno` becomes the position in the normal form (pre-order): after unfolding, a statement that came from a helper keeps
        # the helper's source line, which says nothing about where it now stands.  The source line is kept in `_srcline` for reports.
        counter = [0]

        def number(node):
            counter[0] += 1
            if hasattr(node, "lineno"):
                node._srcline = node.lineno
                node.lineno = counter[0]
            for child in ast.iter_child_nodes(node):
                number(child)
        number(m.tree)
        for node in ast.walk(m.tree):
            for child in ast.iter_child_nodes(node):
                child._parent = node
            node._mod = m
            if isinstance(node, ast.Match):
                raise AnalysisError("match statement in %s: statement kind not modelled" % m.relpath)
        m.tree._parent = None

        def visit(node, prefix, func):
            for child in ast.iter_child_nodes(node):
                child._func = func
                if isinstance(child, (ast.FunctionDef, ast.AsyncFunctionDef)):
                    q = prefix + "." + child.name
                    child._qual = q
                    self.defs.setdefault(q, child)
                    self._counts["functions"] += 1
                    visit(child, q, child)
                elif isinstance(child, ast.ClassDef):
                    q = prefix + "." + child.name
                    child._qual = q
                    self.defs.setdefault(q, child)
                    self._counts["classes"] += 1
                    visit(child, q, func)
                else:
                    if isinstance(child, ast.Call):
                        self._counts["calls"] += 1
                    visit(child, prefix, func)

        m.tree._func = None
        visit(m.tree, m.name, None)
        for node in m.tree.body:
            if isinstance(node, ast.Import):
                for a in node.names:
                    m.imports[a.asname or a.name.split(".")[0]] = a.name
            elif isinstance(node, ast.ImportFrom):
                for a in node.names:
                    m.imports[a.asname or a.name] = "%s.%s" % (node.module or "", a.name)

    # ------------------------------------------------------------------
    def summary(self):
        return dict(self._counts, modules=sorted(self.modules))

    def mod(self, name):
        try:
            return self.modules[name]
        except KeyError:
            raise AnchorMissing("module mako/%s.py not found" % name.replace(".", "/"))

    def get(self, qual, kind=None):
        n = self.defs.get(qual)
        if n is None:
            raise AnchorMissing("anchor %s not found" % qual)
        if kind and not isinstance(n, kind):
            raise AnchorMissing("anchor %s is not a %s" % (qual, kind))
        return n

    def has(self, qual):
        return qual in self.defs

    def func(self, qual):
        return self.get(qual, (ast.FunctionDef, ast.AsyncFunctionDef))

    def cls(self, qual):
        return self.get(qual, ast.ClassDef)

    def with_helpers(self, fn):
        """fn and the functions outside the inventory (i.e. helpers that a refactoring split off and the normaliser could not
        unfold) it calls, transitively: the code that used to be fn.  [fn, helper, ...]"""
        from . import normalize
        if not hasattr(self, "_known"):
            self._known = normalize.load_known()
        out, todo = [fn], [fn]
        while todo:
            f = todo.pop()
            q = getattr(f, "_qual", "")
            mod = q.split(".")[0] if not q.startswith("ext.") else ".".join(q.split(".")[:2])
            owner = q.rsplit(".", 1)[0]
            for c in ast.walk(f):
                if not isinstance(c, ast.Call):
                    continue
                cand = []
                if isinstance(c.func, ast.Name):
                    cand = [q + "." + c.func.id, owner + "." + c.func.id, mod + "." + c.func.id]
                elif isinstance(c.func, ast.Attribute) and isinstance(c.func.value, ast.Name) and c.func.value.id in ("self", "cls"):
                    cand = [owner + "." + c.func.attr]
                    cd = self.defs.get(owner)
                    for b in getattr(cd, "bases", []):
                        if isinstance(b, ast.Name):
                            cand.append(mod + "." + b.id + "." + c.func.attr)
                elif isinstance(c.func, ast.Attribute) and isinstance(c.func.value, ast.Name) and (mod + "." + c.func.value.id) in self.defs:
                    cand = [mod + "." + c.func.value.id + "." + c.func.attr]
                for k in cand:
                    n = self.defs.get(k)
                    if isinstance(n, (ast.FunctionDef, ast.AsyncFunctionDef)) and k not in self._known and n not in out:
                        out.append(n)
                        todo.append(n)
                        break
        return out

    def methods(self, clsqual):
        c = self.cls(clsqual)
        return {n.name: n for n in c.body if isinstance(n, (ast.FunctionDef, ast.AsyncFunctionDef))}

    def functions_in(self, modname):
        """every function (any nesting) of a module, as (qual, node)."""
        p = modname + "."
        return [(q, n) for q, n in self.defs.items()
                if q.startswith(p) and isinstance(n, (ast.FunctionDef, ast.AsyncFunctionDef))]

    def all_functions(self, core_only=False):
        for q, n in self.defs.items():
            if isinstance(n, (ast.FunctionDef, ast.AsyncFunctionDef)):
                if core_only and (q.startswith("ext.") or q.startswith("testing.")):
                    continue
                yield q, n

    def where(self, node):
        m = getattr(node, "_mod", None)
        f = getattr(node, "_func", None)
        if isinstance(node, (ast.FunctionDef, ast.ClassDef)):
            fq = getattr(node, "_qual", "?")
        else:
            fq = getattr(f, "_qual", "<module>") if f is not None else "<module>"
        return "%s:%s (%s)" % (m.relpath if m else "?", getattr(node, "_srcline", getattr(node, "lineno", "?")), fq)

    def module_assign(self, modname, name):
        """value node of a module-level `name = ...`"""
        for st in self.mod(modname).tree.body:
            if isinstance(st, ast.Assign):
                for t in st.targets:
                    if isinstance(t, ast.Name) and t.id == name:
                        return st.value
            elif isinstance(st, ast.AnnAssign) and isinstance(st.target, ast.Name) and st.target.id == name:
                return st.value
        raise AnchorMissing("module-level %s.%s not found" % (modname, name))

    def class_assign(self, clsqual, name):
        for st in self.cls(clsqual).body:
            if isinstance(st, ast.Assign):
                for t in st.targets:
                    if isinstance(t, ast.Name) and t.id == name:
                        return st.value
        raise AnchorMissing("class-level %s.%s not found" % (clsqual, name))

    def calls_in(self, node, pred=None):
        """Call nodes in a function/module subtree (not into nested defs when
        node is a function and nested=False)."""
        for n in ast.walk(node):
            if isinstance(n, ast.Call):
                nm = dotted(n.func)
                if pred is None or (nm is not None and pred(nm)):
                    yield n

    def all_calls(self, pred, modules=None):
        for mn, m in self.modules.items():
            if modules is not None and mn not in modules:
                continue
            for n in ast.walk(m.tree):
                if isinstance(n, ast.Call):
                    nm = dotted(n.func)
                    if nm is not None and pred(nm):
                        yield n


def enclosing_stmt(node):
    while node is not None and not isinstance(node, ast.stmt):
        node = getattr(node, "_parent", None)
    return node


def ancestors(node):
    node = getattr(node, "_parent", None)
    while node is not None:
        yield node
        node = getattr(node, "_parent", None)


def str_value(node):
    """Constant-fold a string expression: literals, implicit/explicit '+'
    concatenation.  Returns None when not a constant string."""
    if isinstance(node, ast.Constant) and isinstance(node.value, str):
        return node.value
    if isinstance(node, ast.BinOp) and isinstance(node.op, ast.Add):
        a, b = str_value(node.left), str_value(node.right)
        if a is not None and b is not None:
            return a + b
    if isinstance(node, ast.JoinedStr):
        parts = []
        for v in node.values:
            if isinstance(v, ast.Constant):
                parts.append(v.value)
            else:
                return None
        return "".join(parts)
    return None


def _drop_noops(tree):
    """statements without effect (docstrings and other constant expression
    statements) are removed from the analysed tree, so that rules see the same
    statement lists whether or not such lines are present"""
    for node in ast.walk(tree):
        for f in ("body", "orelse", "finalbody"):
            v = getattr(node, f, None)
            if isinstance(v, list) and v and isinstance(v[0], ast.stmt):
                kept = [s for s in v if not (isinstance(s, ast.Expr) and isinstance(s.value, ast.Constant) and s.value.value is not Ellipsis)]
                if not kept and f == "body":
                    p = ast.Pass()
                    ast.copy_location(p, v[0])
                    kept = [p]
                setattr(node, f, kept)
