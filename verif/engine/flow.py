"""Reaching definitions, value provenance (op chains), a tiny type lattice,
write-effect scan and call-graph reachability."""

import ast

from ..core import AnalysisError
from . import cfg as cfgmod
from .facts import dotted, const, src, walk_func


# ----------------------------------------------------------------------
# reaching definitions for local names of one function
# ----------------------------------------------------------------------

def _targets(t):
    if isinstance(t, ast.Name):
        yield t.id
    elif isinstance(t, (ast.Tuple, ast.List)):
        for e in t.elts:
            yield from _targets(e)
    elif isinstance(t, ast.Starred):
        yield from _targets(t.value)


def stmt_defs(s):
    """names (re)bound by statement s itself (not by nested bodies)."""
    out = []
    if isinstance(s, ast.Assign):
        for t in s.targets:
            out.extend(_targets(t))
    elif isinstance(s, (ast.AugAssign, ast.AnnAssign)):
        out.extend(_targets(s.target))
    elif isinstance(s, (ast.For, ast.AsyncFor)):
        out.extend(_targets(s.target))
    elif isinstance(s, (ast.With, ast.AsyncWith)):
        for it in s.items:
            if it.optional_vars is not None:
                out.extend(_targets(it.optional_vars))
    elif isinstance(s, (ast.FunctionDef, ast.ClassDef, ast.AsyncFunctionDef)):
        out.append(s.name)
    elif isinstance(s, (ast.Import, ast.ImportFrom)):
        for a in s.names:
            out.append(a.asname or a.name.split(".")[0])
    elif isinstance(s, ast.ExceptHandler):
        if s.name:
            out.append(s.name)
    # walrus
    for n in ast.walk(s) if isinstance(s, (ast.Expr, ast.Assign, ast.If, ast.While, ast.Return)) else ():
        if isinstance(n, ast.NamedExpr):
            out.extend(_targets(n.target))
    return out


class Reaching:
    """reaching definitions on the CFG of a function.  A definition is the
    defining statement (or the string 'param')."""

    def __init__(self, fn):
        self.fn = fn
        self.cfg = cfgmod.function_cfg(fn)
        params = [a.arg for a in fn.args.posonlyargs + fn.args.args + fn.args.kwonlyargs]
        if fn.args.vararg:
            params.append(fn.args.vararg.arg)
        if fn.args.kwarg:
            params.append(fn.args.kwarg.arg)
        self.params = params
        init = frozenset((p, "param") for p in params)
        IN = {self.cfg.entry: set(init)}
        todo = [self.cfg.entry]
        gens = {}
        for n in self.cfg.nodes:
            st = n.stmt
            if st is None or n.label in ("Reraise", "ExceptDispatch", "Try"):
                gens[n] = []
            elif n.label == "Handler":
                gens[n] = stmt_defs(st)
            elif isinstance(st, (ast.If, ast.While)):
                gens[n] = stmt_defs(st) if any(isinstance(x, ast.NamedExpr) for x in ast.walk(st.test)) else []
            else:
                gens[n] = stmt_defs(st)
        while todo:
            n = todo.pop()
            cur = IN.get(n, set())
            g = gens[n]
            if g:
                out_n = {(v, d) for (v, d) in cur if v not in g} | {(v, n.stmt) for v in g}
            else:
                out_n = cur
            for m, k in n.succ:
                o = cur if (k == "e" and g) else out_n
                # on an exceptional edge the assignment may or may not have happened
                if k == "e" and g:
                    o = cur | out_n
                tgt = IN.setdefault(m, set())
                if not o <= tgt:
                    tgt |= o
                    todo.append(m)
        self.IN = IN

    def defs_at(self, stmt, name):
        """set of definitions of `name` reaching statement `stmt`."""
        out = set()
        nodes = self.cfg.nodes_of(stmt)
        if not nodes:
            raise AnalysisError("statement at line %s not in CFG of %s" % (getattr(stmt, "_srcline", getattr(stmt, "lineno", "?")), self.fn.name))
        for n in nodes:
            for v, d in self.IN.get(n, ()):
                if v == name:
                    out.add(d)
        return out


# ----------------------------------------------------------------------
# provenance: op chains
# ----------------------------------------------------------------------

class Chain:
    """ops applied to a root expression, innermost first."""

    def __init__(self, root, ops):
        self.root = root  # dotted text of the root atom, or ast node text
        self.ops = ops  # list of tuples

    def names(self):
        return [o[0] for o in self.ops]

    def __repr__(self):
        return "%s |> %s" % (self.root, " |> ".join("%s%r" % (o[0], o[1:]) for o in self.ops))


NORMPATH = {"posixpath.normpath", "os.path.normpath", "ntpath.normpath", "normpath"}
JOIN = {"posixpath.join", "os.path.join", "join"}


def chains(expr, reaching, at_stmt, depth=0):
    """All op chains (one per combination of reaching definitions) for the
    value of `expr` evaluated at statement `at_stmt`."""
    if depth > 12:
        raise AnalysisError("provenance recursion too deep")
    if isinstance(expr, ast.Name):
        defs = reaching.defs_at(at_stmt, expr.id)
        out = []
        if not defs:
            return [Chain(expr.id, [])]
        for d in defs:
            if d == "param":
                out.append(Chain(expr.id, []))
            elif isinstance(d, ast.Assign) and len(d.targets) == 1 and isinstance(d.targets[0], ast.Name):
                out.extend(chains(d.value, reaching, d, depth + 1))
            elif isinstance(d, ast.Assign) and any(isinstance(t, ast.Name) and t.id == expr.id for t in d.targets):
                out.extend(chains(d.value, reaching, d, depth + 1))
            else:
                out.append(Chain("%s@%s" % (expr.id, type(d).__name__), []))
        return out
    if isinstance(expr, ast.Attribute):
        d = dotted(expr)
        return [Chain(d or src(expr), [])]
    if isinstance(expr, ast.Call):
        name = dotted(expr.func)
        # method forms on a string value
        if isinstance(expr.func, ast.Attribute) and expr.func.attr in ("replace", "lstrip", "rstrip", "strip", "lower", "upper", "encode", "decode", "copy"):
            args = tuple(const(a, src(a)) for a in expr.args)
            return [Chain(c.root, c.ops + [(expr.func.attr,) + args]) for c in chains(expr.func.value, reaching, at_stmt, depth + 1)]
        if name in ("re.sub",) and len(expr.args) >= 3:
            p, r = const(expr.args[0], src(expr.args[0])), const(expr.args[1], src(expr.args[1]))
            return [Chain(c.root, c.ops + [("re.sub", p, r)]) for c in chains(expr.args[2], reaching, at_stmt, depth + 1)]
        if name in NORMPATH and len(expr.args) == 1:
            return [Chain(c.root, c.ops + [("normpath", name)]) for c in chains(expr.args[0], reaching, at_stmt, depth + 1)]
        if name in ("os.path.abspath", "posixpath.abspath") and len(expr.args) == 1:
            return [Chain(c.root, c.ops + [("abspath",)]) for c in chains(expr.args[0], reaching, at_stmt, depth + 1)]
        if name in JOIN and len(expr.args) >= 2:
            first = src(expr.args[0])
            return [Chain(c.root, c.ops + [("join2", first)]) for c in chains(expr.args[-1], reaching, at_stmt, depth + 1)]
        if name in ("str", "repr") and len(expr.args) == 1:
            return [Chain(c.root, c.ops + [(name,)]) for c in chains(expr.args[0], reaching, at_stmt, depth + 1)]
        return [Chain(src(expr), [])]
    if isinstance(expr, ast.BinOp) and isinstance(expr.op, ast.Add):
        r = const(expr.right)
        if isinstance(r, str):
            return [Chain(c.root, c.ops + [("concat", r)]) for c in chains(expr.left, reaching, at_stmt, depth + 1)]
    if isinstance(expr, ast.Subscript) and isinstance(expr.slice, ast.Slice):
        return [Chain(c.root, c.ops + [("slice", src(expr.slice))]) for c in chains(expr.value, reaching, at_stmt, depth + 1)]
    return [Chain(src(expr), [])]


# ----------------------------------------------------------------------
# misc structure helpers
# ----------------------------------------------------------------------

def always_raises(body):
    """every path through the statement list ends in raise."""
    if not body:
        return False
    last = body[-1]
    if isinstance(last, ast.Raise):
        return True
    if isinstance(last, ast.If) and last.orelse:
        return always_raises(last.body) and always_raises(last.orelse)
    if isinstance(last, ast.Try):
        if last.finalbody and always_raises(last.finalbody):
            return True
        return always_raises(last.body) and all(always_raises(h.body) for h in last.handlers)
    return False


def attr_stores(fn_or_tree):
    """(target Attribute node, stmt) for each attribute store in the subtree."""
    for n in ast.walk(fn_or_tree):
        if isinstance(n, ast.Attribute) and isinstance(n.ctx, (ast.Store, ast.Del)):
            yield n


def names_loaded(node):
    return {n.id for n in ast.walk(node) if isinstance(n, ast.Name) and isinstance(n.ctx, ast.Load)}


def call_graph(db, modules=None):
    """name-based intra-package call graph: caller qual -> set of callee quals
    (methods resolved by bare attribute name over all classes of the package;
    conservative over-approximation used only for reachability questions)."""
    by_name = {}
    for q, n in db.all_functions():
        by_name.setdefault(q.rsplit(".", 1)[1], set()).add(q)
    g = {}
    for q, fn in db.all_functions():
        if modules is not None and q.split(".")[0] not in modules:
            continue
        outs = set()
        for n in ast.walk(fn):
            if isinstance(n, ast.Call):
                f = n.func
                nm = f.attr if isinstance(f, ast.Attribute) else (f.id if isinstance(f, ast.Name) else None)
                if nm and nm in by_name:
                    outs |= by_name[nm]
                # class construction -> __init__
                if nm:
                    for cq in db.defs:
                        if cq.endswith("." + nm) and isinstance(db.defs[cq], ast.ClassDef):
                            init = cq + ".__init__"
                            if init in db.defs:
                                outs.add(init)
        g[q] = outs
    return g


def reachable_from(g, roots):
    seen = set()
    todo = list(roots)
    while todo:
        q = todo.pop()
        if q in seen:
            continue
        seen.add(q)
        todo.extend(g.get(q, ()))
    return seen
