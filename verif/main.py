"""Command line:  vcheck <Cxx> [--tier quick|thorough] [--rule RID]
                  vcheck <Cxx> --replay <violation.json>
                  vcheck all [--tier ...]
                  vcheck selftest [-j N]
"""
import json
import os
import sys
import traceback

from . import core


def main(argv):
    if argv and argv[0] == "--version":
        print("vcheck 1 (python %s)" % sys.version.split()[0])
        return 0
    if not argv:
        print(__doc__)
        return 2
    tier = os.environ.get("VERIF_TIER", "quick")
    only_rule = None
    replay = None
    args = list(argv)
    target = args.pop(0)
    jobs = 16
    while args:
        a = args.pop(0)
        if a == "--tier":
            tier = args.pop(0)
        elif a == "--rule":
            only_rule = args.pop(0)
        elif a == "--replay":
            replay = args.pop(0)
        elif a == "--repo":
            core.REPO = args.pop(0)
        elif a == "-j":
            jobs = int(args.pop(0))
        elif a == "--only":
            only_rule = args.pop(0)
        elif a.startswith("-j"):
            jobs = int(a[2:])
        else:
            print("unknown argument %r" % a)
            return 2
    if target == "selftest":
        from .selftest import run as st
        return st.main(jobs, only_rule)
    if target == "all":
        from .engine import facts
        rc = 0
        db = facts.DB(core.REPO)
        for i in range(1, 21):
            p = "C%02d" % i
            r = core.run_property(p, tier, db=db)
            rc = max(rc, r)
        return rc
    if replay:
        with open(replay) as f:
            rep = json.load(f)
        only_rule = rep["rule"]
        target = rep["property"]
    return core.run_property(target, tier, only_rule=only_rule)


if __name__ == "__main__":
    try:
        rc = main(sys.argv[1:])
    except SystemExit:
        raise
    except BaseException:
        print("ANALYSIS-ERROR internal: " + traceback.format_exc())
        rc = 2
    sys.stdout.flush()
    sys.exit(rc)
