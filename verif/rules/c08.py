"""C08 - a template means the same on every compilation and rendering path;
hash-seed independence.

Decided: no set-order dependent emission that can change meaning; every
construction path registers the module; identity keys of process-wide
registries are injective in the template identity; writer/reader agreement of
module attributes and metadata; the render_ prefix agrees at all sites; both
compile paths and all render entry points share one pipeline with identical
wiring.  Equality of outputs across paths as such is not decided."""

import ast
import re

from ..core import rule, AnalysisError
from ..engine import cfg as cfgmod, flow, emit
from ..engine import pattern as pm
from ..engine import pattern as P
from ..engine.facts import dotted, const, src, walk_func, str_value, enclosing_stmt, ancestors
from . import skeletons as sk
from . import c05  # declares-order is registered for C08 there
from . import c18  # module-encoding (module-directory path writes what it declares) is registered for C08 there
from .common import calls, stmt_nodes, param_names, kwmap, pn, access_paths, assigned_from, resolve, resolve_deep


SET_ATTRS_CACHE = {}


def _set_attrs(db):
    """attributes of _Identifiers initialised as set()"""
    if "v" in SET_ATTRS_CACHE:
        return SET_ATTRS_CACHE["v"]
    out = set()
    init = db.func("codegen._Identifiers.__init__")
    for s in walk_func(init):
        if isinstance(s, ast.Assign) and isinstance(s.value, ast.Call) and dotted(s.value.func) == "set" or (isinstance(s, ast.Assign) and isinstance(s.value, ast.Set)):
            for t in s.targets:
                d = dotted(t)
                if d and d.startswith("self."):
                    out.add(d[5:])
    SET_ATTRS_CACHE["v"] = out
    return out


def _is_set(e, env, db):
    """definite 'set' type of an expression inside codegen"""
    if isinstance(e, ast.Set) or isinstance(e, ast.SetComp):
        return True
    if isinstance(e, ast.Name):
        return env.get(e.id) == "set"
    if isinstance(e, ast.Call):
        nm = dotted(e.func)
        if nm in ("set", "frozenset"):
            return True
        if isinstance(e.func, ast.Attribute) and e.func.attr in ("union", "difference", "intersection", "symmetric_difference", "copy") and _is_set(e.func.value, env, db):
            return True
        if isinstance(e.func, ast.Attribute) and e.func.attr in ("declared_identifiers", "undeclared_identifiers") and not e.args:
            return True  # PythonCode identifier sets (lists/tuples for some tags: treated as sets conservatively)
        if nm == "sorted":
            return False
        if nm in ("list", "tuple", "iter", "reversed") and e.args:
            return _is_set(e.args[0], env, db)  # keeps the set's (hash) order
    if isinstance(e, ast.BinOp) and isinstance(e.op, ast.Add):
        return _is_set(e.left, env, db) or _is_set(e.right, env, db)  # concatenation containing a hash-ordered part
    if isinstance(e, (ast.ListComp, ast.GeneratorExp)) and len(e.generators) == 1:
        return _is_set(e.generators[0].iter, env, db)
    if isinstance(e, ast.Attribute):
        if e.attr in _set_attrs(db) and ("identifiers" in (dotted(e.value) or "") or dotted(e.value) == "self"):
            return True
    return False


def _order_sensitive_sites(db, fn):
    """(node, kind, iter expr) for loops / comprehensions over sets in fn"""
    env = {}
    # flow-insensitive local typing: a local is a set if every assignment gives a set
    assigns = {}
    for s in walk_func(fn):
        if isinstance(s, ast.Assign) and len(s.targets) == 1 and isinstance(s.targets[0], ast.Name):
            assigns.setdefault(s.targets[0].id, []).append(s.value)
    # optimistic fixpoint: assume set where some assignment is definitely a set, then drop
    # the assumption for names with an assignment that is not a set under it
    grew = True
    while grew:
        grew = False
        for k, vs in assigns.items():
            if k not in env and any(_is_set(v, env, db) for v in vs):
                env[k] = "set"
                grew = True
    changed = True
    while changed:
        changed = False
        for k in list(env):
            if not all(_is_set(v, env, db) for v in assigns[k]):
                del env[k]
                changed = True
    out = []
    for n in walk_func(fn):
        if isinstance(n, ast.For) and _is_set(n.iter, env, db):
            out.append((n, "for", n.iter))
        elif isinstance(n, (ast.ListComp, ast.GeneratorExp, ast.SetComp, ast.DictComp)):
            for g in n.generators:
                if _is_set(g.iter, env, db):
                    out.append((n, "comp", g.iter))
        elif isinstance(n, ast.Call) and isinstance(n.func, ast.Attribute) and n.func.attr == "join" and n.args and not isinstance(n.args[0], (ast.ListComp, ast.GeneratorExp)) and _is_set(n.args[0], env, db):
            out.append((n, "join", n.args[0]))
    return out


@rule("C08.hash-order", min_instances=3)
def hash_order(ctx):
    """no emission depends on the iteration order of a set in a way that can change meaning (PYTHONHASHSEED independence of generated modules)"""
    db = ctx.db
    S = sk.get(db)
    n = 0
    for q, fn in db.functions_in("codegen"):
        emits = S.model.node_emits(fn)
        for node, kind, it in _order_sensitive_sites(db, fn):
            n += 1
            where = db.where(node)
            key = "%s:%s:%s" % (q.split(".")[-1], kind, src(it)[:40])
            if kind == "for":
                body_emits = any(S.model.node_emits(s) for s in node.body)
                if not body_emits:
                    ctx.ok(key, where, "loop body emits nothing")
                    continue
                # what can the body emit?  def headers / decorators are order sensitive
                ctx.violation("order:codegen.%s#for-over-set:%s" % (q.split(".")[-1], src(it)), where,
                              "`for %s in %s` iterates a set and its body emits code (nested def headers, context look-ups): the order of the emitted statements follows the string hash seed, and a def whose default argument or decorator names an identifier declared by another iteration is emitted before it under some PYTHONHASHSEED values (UnboundLocalError)" % (src(node.target), src(it)))
            else:
                # comprehension / join: where does the value go?
                st = enclosing_stmt(node)
                in_raise = any(isinstance(a, ast.Raise) for a in ancestors(node))
                feeds_emit = S.model.node_emits(st) if st is not None else False
                if in_raise:
                    ctx.ok(key, where, "only the text of an error message")
                    continue
                if not feeds_emit and not emits:
                    ctx.ok(key, where, "does not reach emission")
                    continue
                # element built from the loop variable alone, joined by ',' into a keyword/list display: commutative
                elt = node.elt if isinstance(node, (ast.ListComp, ast.GeneratorExp)) else None
                commutative = False
                if elt is not None:
                    names = {x.id for x in ast.walk(elt) if isinstance(x, ast.Name)}
                    targets = {x.id for g in node.generators for x in ast.walk(g.target) if isinstance(x, ast.Name)}
                    commutative = names <= targets | {"repr", "str"}
                    par = getattr(node, "_parent", None)
                    joined = isinstance(par, ast.Call) and isinstance(par.func, ast.Attribute) and par.func.attr == "join" and const(par.func.value) == ","
                    commutative = commutative and joined
                if commutative:
                    ctx.ok(key, where, "elements depend on the loop variable only and form a comma separated keyword/list display: order does not change meaning")
                else:
                    ctx.violation("order:codegen.%s#%s-over-set:%s" % (q.split(".")[-1], kind, src(it)), where, "value built by iterating the set %s reaches emitted code and is not order independent" % src(it))
    ctx.require(n >= 3, "expected >=3 set iterations in codegen.py, found %d" % n)


@rule("C08.registry", min_instances=4)
def registry(ctx):
    """every construction path that sets Template.module registers a ModuleInfo for that module"""
    db = ctx.db
    cf = db.func("template.Template._compile_from_file")
    g = cfgmod.function_cfg(cf)
    mi = [x for c in calls(cf, "ModuleInfo") for x in stmt_nodes(g, c)]
    good, path = g.must_pass(g.entry, mi, exits=[g.exit], kinds=("n",))
    ctx.check(bool(mi) and good, "compile_from_file", db.where(cf), "a path through _compile_from_file returns a module without registering it (%s): Template.source/.code and tracebacks cannot find it" % g.fmt_path(path), "every path registers ModuleInfo")
    mvs = assigned_from(cf, "compat.load_module(...)") | assigned_from(cf, "_compile_text(...)#1")
    for i_, c in enumerate(calls(cf, "ModuleInfo")):
        ctx.check(src(c.args[0]) in mvs and src(c.args[2]) == "self", "compile_from_file.args:%d" % i_, db.where(c), "ModuleInfo(%s)" % src(c), "registers (module, ..., self, ...)")
    ti = db.func("template.Template.__init__")
    ct = calls(ti, "_compile_text")
    mi2 = calls(ti, "ModuleInfo")
    ok = bool(ct) and bool(mi2) and getattr(enclosing_stmt(ct[0]), "_parent", None) is getattr(enclosing_stmt(mi2[0]), "_parent", None) and mi2[0].lineno > ct[0].lineno
    ctx.check(ok, "init.text", db.where(ti), "the text branch of Template.__init__ does not register the compiled module", "text branch registers ModuleInfo")
    if mi2:
        a = [src(x) for x in mi2[0].args]
        ctx.check(a[:1] == sorted(assigned_from(ti, "_compile_text(...)#1"))[:1] and bool(set(a) & assigned_from(ti, "_compile_text(...)#0")) and "text" in a, "init.text.args", db.where(mi2[0]), "ModuleInfo(%s) does not carry the module source and template source" % a, "carries code and text")
    mt = db.func("template.ModuleTemplate.__init__")
    c = calls(mt, "ModuleInfo")
    ctx.check(bool(c) and src(c[0].args[0]) == "module", "ModuleTemplate", db.where(mt), "ModuleTemplate does not register its module", "registers")
    # source / code are looked up through the callable's module name
    for prop in ("source", "code"):
        fn = db.func("template.Template." + prop)
        ctx.check("_get_module_info_from_callable(self.callable_).%s" % prop in src(fn), "lookup:" + prop, db.where(fn), "Template.%s is not resolved through the registry" % prop, "registry lookup by the callable's module")
    gm = db.func("template._get_module_info_from_callable")
    ctx.check(pm.has(gm, "$c.__globals__['__name__']"), "lookup-key", db.where(gm), "registry is not keyed by the module's __name__", "keyed by module __name__")
    reg = db.func("template.ModuleInfo.__init__")
    ctx.check(pm.has(reg, "self._modules[$m.__name__]"), "register-key", db.where(reg), "ModuleInfo does not register under module.__name__", "registered under module.__name__")


@rule("C08.identity-key", min_instances=2, props=["C17"])
def identity_key(ctx):
    """values that key process-wide registries (ModuleInfo._modules, Cache.id) are injective functions of the template identity"""
    db = ctx.db
    n = 0
    for q in ("template.Template.__init__", "template.ModuleTemplate.__init__"):
        fn = db.func(q)
        for s in walk_func(fn):
            if isinstance(s, ast.Assign) and any(dotted(t) == "self.module_id" for t in s.targets):
                n += 1
                v = s.value
                if isinstance(v, ast.Call) and dotted(v.func) == "re.sub":
                    pat, rep = const(v.args[0]), const(v.args[1])
                    ctx.violation("key:%s#module_id-lossy:%s" % (q.split(".")[1], src(v.args[2])), db.where(s),
                                  "module_id = re.sub(%r, %r, %s) maps distinct URIs (e.g. 'a/b.html' and 'a_b.html') to one module name; it keys ModuleInfo._modules (Template.source/.code return the other template's text) and is Cache.id (cached sections of one template are served to the other)" % (pat, rep, src(v.args[2])))
                elif "id(self)" in src(v) or "hex(" in src(v):
                    ctx.ok("key:%s#module_id:memory" % q.split(".")[1], db.where(s), "unique per object: %s" % src(v))
                else:
                    ctx.ok("key:%s#module_id:%s" % (q.split(".")[1], src(v)[:30]), db.where(s), "no lossy substitution: %s" % src(v))
    ctx.require(n >= 3, "module_id assignments not found (%d)" % n)
    # carriers: module name and cache id derive from module_id
    ct = db.func("template._compile_text")
    ctx.check(pm.has(ct, "$i = $t.module_id\n...\n$m = types.ModuleType($c)") and (pm.has(ct, "$c = $i\n$m = types.ModuleType($c)") or pm.has(ct, "$i = $t.module_id\n$m = types.ModuleType($i)")), "carrier:ModuleType", db.where(ct), "in-memory module is not named by module_id", "ModuleType(module_id)")
    cf = db.func("template.Template._compile_from_file")
    ctx.check(all(src(c.args[0]) == "self.module_id" for c in calls(cf, "compat.load_module")), "carrier:load_module", db.where(cf), "file modules are not loaded under module_id", "load_module(module_id, path)")
    ci = db.func("cache.Cache.__init__")
    ctx.check(pm.has(ci, "self.id = $t.module.__name__"), "carrier:Cache.id", db.where(ci), "Cache.id is not the module name", "Cache.id = module.__name__")


def _emitted_module_names(S):
    names = set()
    for meth in ("write_toplevel", "write_inherit", "write_namespaces"):
        for t in S.model.method_traces(meth):
            res = S.layout.run(t.events)
            for ind, line, ev in res.lines:
                if ind != 0:
                    continue
                m = re.match(r"(?:def\s+)?([A-Za-z_][A-Za-z_0-9]*)\s*(?:=|\()", line)
                if m:
                    names.add(m.group(1))
    return names


@rule("C08.module-attrs", min_instances=10)
def module_attrs(ctx):
    """every attribute the package reads off a generated module is emitted under that name; metadata keys written = keys read"""
    db = ctx.db
    S = sk.get(db)
    emitted = _emitted_module_names(S)
    emitted |= {"render_body"}
    ctx.note("emitted_module_level_names", sorted(emitted))
    reads = []
    for mn, m in db.modules.items():
        if mn.startswith("testing"):
            continue
        for n in ast.walk(m.tree):
            if isinstance(n, ast.Attribute) and isinstance(n.ctx, ast.Load):
                base = dotted(n.value) or ""
                if (base.endswith(".module") or base in ("module", "self.module", "template.module", "tmpl.module")) and (n.attr.startswith("_") and not n.attr.startswith("__") or n.attr.startswith("render_")):
                    reads.append((n.attr, n))
            elif isinstance(n, ast.Call) and dotted(n.func) in ("getattr", "hasattr") and len(n.args) >= 2 and isinstance(n.args[1], ast.Constant) and isinstance(n.args[1].value, str):
                base = dotted(n.args[0]) or ""
                if base.endswith(".module") or base == "module":
                    reads.append((n.args[1].value, n))
    ctx.require(len(reads) >= 8, "only %d reads of generated-module attributes found" % len(reads))
    for name, node in reads:
        ok = name in emitted
        ctx.check(ok, "read:%s@%s" % (name, getattr(getattr(node, "_func", None), "_qual", "?")), db.where(node), "module attribute %s is read but the code generator never emits it at module level" % name, "emitted")
    # metadata keys
    wm = db.func("codegen._GenerateRenderMethod.write_metadata_struct")
    d = [n for n in walk_func(wm) if isinstance(n, ast.Dict)]
    keys = {const(k) for k in d[0].keys} if d else set()
    used = set()
    for mn, m in db.modules.items():
        for n in ast.walk(m.tree):
            if isinstance(n, ast.Subscript) and isinstance(n.slice, ast.Constant) and isinstance(n.slice.value, str):
                if "source_map" in (dotted(n.value) or "") or "get_module_source_metadata" in src(n.value):
                    used.add(n.slice.value)
    used.discard("full_line_map")
    ctx.check(used <= keys and "line_map" in used, "metadata-keys", db.where(wm), "metadata keys read %s are not all written %s" % (sorted(used), sorted(keys)), "read %s, written %s" % (sorted(used), sorted(keys)))


@rule("C08.render-prefix", min_instances=7)
def render_prefix(ctx):
    """the `render_` prefix and its length agree across codegen, Template.has_def/get_def/list_defs, runtime._decorate_toplevel and Cache.invalidate_*"""
    db = ctx.db
    P = "render_"
    init = db.func("codegen._GenerateRenderMethod.__init__")
    f = [n for n in walk_func(init) if isinstance(n, ast.BinOp) and isinstance(n.left, ast.Constant) and n.left.value == P + "%s"]
    ctx.check(bool(f) and src(f[0].right) == pn(init, 3) + ".funcname", "codegen.name", db.where(init), "top-level callables are not named render_<funcname>", "render_%s % node.funcname")
    dd = db.func("codegen._GenerateRenderMethod.write_def_decl")
    ctx.check(pm.has(dd, "'return render_%s(%s)' % $_"), "codegen.stub", db.where(dd), "def stubs do not call render_<name>", "stub calls render_%s")
    for meth in ("has_def", "get_def", "_get_def_callable"):
        fn = db.func("template.Template." + meth)
        ctx.check(pm.has(fn, "'render_%s' % $n"), "Template." + meth, db.where(fn), "%s does not look up 'render_%%s' %% name" % meth, "render_%s % name")
    ld = db.func("template.Template.list_defs")
    t = src(ld)
    ok = pm.has(ld, "[$i[%d:] for $i in dir(self.module) if $i[:%d] == '%s']" % (len(P), len(P), P)) or pm.has(ld, "[$i[%d:] for $i in dir(self.module) if $i.startswith('%s')]" % (len(P), P))
    ctx.check(ok, "Template.list_defs", db.where(ld), "list_defs slices with a length that is not len('render_') = %d: %s" % (len(P), t.split("return")[-1].strip()), "prefix test and slice use %d" % len(P))
    dt = db.func("runtime._decorate_toplevel.decorate_render.go")
    sl = [n for n in walk_func(dt) if isinstance(n, ast.Subscript) and "__name__" in src(n.value) and isinstance(n.slice, ast.Slice)]
    ctx.check(bool(sl) and const(sl[0].slice.lower) == len(P) and sl[0].slice.upper is None, "runtime._decorate_toplevel", db.where(dt), "decorated name strips %s characters, prefix has %d" % (src(sl[0].slice) if sl else None, len(P)), "__name__[%d:]" % len(P))
    for meth, pat in (("invalidate_body", "'render_body'"), ("invalidate_def", "'render_%s' % name")):
        fn = db.func("cache.Cache." + meth)
        ctx.check(src(fn).count(pat) >= 2, "Cache." + meth, db.where(fn), "%s does not use %s for key and defname" % (meth, pat), pat)
    tn = db.func("runtime.TemplateNamespace._get_star")
    ctx.check(pm.has(tn, "self.template.module._exports") and pm.has(tn, "self.template._get_def_callable($k)"), "exports", db.where(tn), "namespace star-import does not resolve _exports through _get_def_callable", "_exports -> render_<name>")
    body = [n for n in walk_func(init) if isinstance(n, ast.Assign) and isinstance(n.targets[0], ast.Name) and isinstance(n.value, ast.Constant) and isinstance(n.value.value, str) and n.value.value.startswith(P)]
    ti = db.func("template.Template.__init__")
    ctx.check(bool(body) and body[0].value.value == "render_body" and "self.module.render_body" in src(ti), "body-name", db.where(ti), "body callable name disagrees between codegen and Template", "render_body")


@rule("C08.cmd-source-bytes", min_instances=2, props=["C01", "C18"])
def cmd_source_bytes(ctx):
    """mako-render hands a template file to Template by name (or as bytes): it never reads it through a text-mode stream, which would decode it with the locale's codec, ignore the coding comment / BOM and translate CR LF"""
    db = ctx.db
    n = 0
    for q, fn in db.functions_in("cmd"):
        for c in walk_func(fn):
            if isinstance(c, ast.Call) and dotted(c.func) in ("open", "io.open", "codecs.open"):
                mode = c.args[1] if len(c.args) > 1 else next((k.value for k in c.keywords if k.arg == "mode"), None)
                modes = [a_.value for a_ in ([mode] if isinstance(mode, ast.Constant) else [mode.body, mode.orelse] if isinstance(mode, ast.IfExp) else []) if isinstance(a_, ast.Constant)]
                n += 1
                reading_text = mode is None or (modes and any(isinstance(m_, str) and "b" not in m_ and not any(x_ in m_ for x_ in "wax") for m_ in modes))
                ctx.check(not reading_text, "open@%s:%s" % (q.split(".", 1)[-1], src(c.args[0]) if c.args else "?"), db.where(c), "%s opens `%s` for reading in text mode: the template source is decoded outside of Mako (coding comment and BOM ignored, \\r\\n turned into \\n) before the lexer sees it" % (q, src(c.args[0]) if c.args else "?"), "not a text-mode read")
    cm = db.func("cmd.cmdline")
    tc = [c for f_ in db.with_helpers(cm) for c in walk_func(f_) if isinstance(c, ast.Call) and dotted(c.func) == "Template"]
    ctx.require(tc, "cmd.cmdline does not build a Template (anchor)")
    byname = [c for c in tc if any(k.arg == "filename" for k in c.keywords)]
    ctx.check(bool(byname), "file-by-name", db.where(tc[0]), "a template file is not handed to Template by name (Template(filename=...)): Mako's own reading and decoding of the file is bypassed", "Template(filename=...) for files")
    ctx.require(n >= 1, "cmd.py: no open() call found (the output file is written through open())")


@rule("C08.one-pipeline", min_instances=8, props=["C18", "C10"])
def one_pipeline(ctx):
    """string, file and module-directory templates are compiled by the same _compile with identical wiring; all render entry points funnel into runtime._render / _render_context; the lookup mirrors Template's options"""
    db = ctx.db
    sites = []
    for q in ("template._compile_text", "template._compile_module_file"):
        fn = db.func(q)
        c = calls(fn, "_compile")
        ctx.check(len(c) == 1, "calls-_compile:" + q, db.where(fn), "%s does not call _compile exactly once" % q, "one _compile call")
        if c:
            sites.append((q, c[0]))
    if len(sites) == 2:
        a, b = sites[0][1], sites[1][1]
        pa, pb = [src(x) for x in a.args], [src(x) for x in b.args]
        ka, kb = {k.arg: src(k.value) for k in a.keywords}, {k.arg: src(k.value) for k in b.keywords}
        ka.pop("generate_magic_comment", None)
        kb.pop("generate_magic_comment", None)
        ctx.check(pa == pb == ["template", "text", "filename"] and ka == kb, "same-wiring", db.where(b), "the two compile paths call _compile differently: %s %s vs %s %s" % (pa, ka, pb, kb), "identical apart from generate_magic_comment")
    cm = db.func("template._compile")
    c = calls(cm, "codegen.compile")
    ctx.require(c, "_compile does not call codegen.compile")
    cc = db.func("codegen.compile")
    params = param_names(cc)
    given = set(params[: len(c[0].args)]) | {k.arg for k in c[0].keywords}
    missing = [p for p in params if p not in given]
    ctx.check(not missing, "compile.all-params", db.where(c[0]), "codegen.compile parameters not passed by _compile (they silently keep their defaults on this path): %s" % missing, "all %d parameters passed" % len(params))
    for k in c[0].keywords:
        if k.arg in ("default_filters", "buffer_filters", "imports", "future_imports", "strict_undefined", "enable_loop", "reserved_names"):
            ctx.check(src(k.value) == "template." + k.arg, "compile.kw:" + k.arg, db.where(c[0]), "%s=%s is not the Template's own setting" % (k.arg, src(k.value)), "from template")
    # _CompileContext receives them in order
    cx = [x for x in walk_func(cc) if isinstance(x, ast.Call) and dotted(x.func) == "_CompileContext"]
    ctx.require(cx, "codegen.compile does not build _CompileContext")
    ci = db.func("codegen._CompileContext.__init__")
    ctx.check([src(a) for a in cx[0].args] == param_names(ci)[1:], "compile-context.order", db.where(cx[0]), "_CompileContext arguments %s do not line up with its parameters %s" % ([src(a) for a in cx[0].args], param_names(ci)[1:]), "positional arguments line up")
    for s in [x for x in walk_func(ci) if isinstance(x, ast.Assign)]:
        ctx.check(dotted(s.targets[0]) == "self." + src(s.value), "compile-context:%s" % src(s.value), db.where(s), "_CompileContext stores %s as %s" % (src(s.value), src(s.targets[0])), "stored under its own name")
    lx = calls(cm, "template.lexer_cls")
    ctx.check(bool(lx) and [src(a) for a in lx[0].args] == ["text", "filename"], "lexer-args", db.where(cm), "lexer is not given (text, filename)", "lexer(text, filename, ...)")
    # render entry points
    for meth, target in (("render", "runtime._render"), ("render_unicode", "runtime._render"), ("render_context", "runtime._render_context")):
        fn = db.func("template.Template." + meth)
        c = calls(fn, target)
        ctx.check(bool(c) and src(c[0].args[0]) == "self" and src(c[0].args[1]) == "self.callable_", "entry:" + meth, db.where(fn), "%s does not go through %s(self, self.callable_, ...)" % (meth, target), target)
    rcx = db.func("runtime._render_context")
    # a def: the parent template's namespaces are wired into the caller's context, and the def runs on that context
    from .common import sym_cases, facts_at
    tp_, cp_, xp_ = pn(rcx, 0), pn(rcx, 1), pn(rcx, 2)
    ok = False
    for e_ in [c_ for c_ in walk_func(rcx) if isinstance(c_, ast.Call) and dotted(c_.func) == "_exec_template"]:
        for conds_, v_ in sym_cases(rcx, e_):
            if any(pm.matches(t_, "isinstance(%s, $cls)" % tp_) and tv_ for t_, tv_ in conds_) and len(v_.args) >= 2:
                ok = src(v_.args[0]) == cp_ and src(v_.args[1]) == xp_
    wired = False
    for c_ in [c_ for c_ in walk_func(rcx) if isinstance(c_, ast.Call) and dotted(c_.func) == "_populate_self_namespace"]:
        for conds_, v_ in sym_cases(rcx, c_):
            isdef_ = any(pm.matches(t_, "isinstance(%s, $cls)" % tp_) and tv_ for t_, tv_ in conds_) or ("isinstance(%s, template.DefTemplate)" % tp_, True) in facts_at(c_, rcx)
            if isdef_ and pm.matches(v_, "_populate_self_namespace(%s, %s.parent)" % (xp_, tp_)):
                wired = True
            # a call that is not under the test at all serves both kinds: its argument decides
            if not conds_ and isinstance(v_.args[1], ast.IfExp) and pm.matches(v_.args[1].test, "isinstance(%s, $cls)" % tp_) and src(v_.args[1].body) == tp_ + ".parent":
                wired = True
    ok = ok and wired
    ctx.check(ok, "entry:get_def-context", db.where(rcx), "a def rendered through get_def(name).render() is not executed with the caller's own context after wiring the parent template's namespaces: it sees the base template's context (no parent, wrong local) when the template inherits", "def executed on the given context with self/local of the owning template")
    rn = db.func("runtime._render")
    ctx.check(bool(calls(rn, "_render_context")), "entry:_render->_render_context", db.where(rn), "_render does not funnel into _render_context", "_render -> _render_context")
    gd = db.func("template.Template.get_def")
    ctx.check(pm.has(gd, "DefTemplate(self, getattr(self.module, 'render_%s' % $n))"), "entry:get_def", db.where(gd), "get_def does not wrap the module's render_<name>", "DefTemplate(self, module.render_<name>)")
    dt = db.func("template.DefTemplate.__init__")
    inherited = {dotted(s.targets[0])[5:] for s in walk_func(dt) if isinstance(s, ast.Assign) and (dotted(s.targets[0]) or "").startswith("self.")}
    for a in ("output_encoding", "encoding_errors", "format_exceptions", "error_handler", "enable_loop", "lookup", "module"):
        ctx.check(a in inherited, "DefTemplate:" + a, db.where(dt), "DefTemplate does not inherit %s from its parent template" % a, "inherited")
    # lookup mirrors Template options
    li = db.func("lookup.TemplateLookup.__init__")
    ta = [s for s in walk_func(li) if isinstance(s, ast.Assign) and dotted(s.targets[0]) == "self.template_args"]
    ctx.require(ta, "TemplateLookup.template_args not found")
    tv = ta[0].value
    if isinstance(tv, ast.Dict):
        keys = {const(k): src(v) for k, v in zip(tv.keys, tv.values)}
    elif isinstance(tv, ast.DictComp) and len(tv.generators) == 1 and isinstance(tv.generators[0].iter, (ast.Tuple, ast.List)) and all(isinstance(e_, ast.Constant) for e_ in tv.generators[0].iter.elts) \
            and isinstance(tv.generators[0].target, ast.Name) and src(tv.key) == tv.generators[0].target.id and isinstance(tv.value, ast.Subscript) and src(tv.value.slice) == tv.generators[0].target.id \
            and src(resolve_deep(li, tv.value.value, 2)) == "locals()":
        # {name: locals()[name] for name in (<option names>)}
        keys = {e_.value: e_.value for e_ in tv.generators[0].iter.elts}
    else:
        raise AnalysisError("C08.one-pipeline: TemplateLookup.template_args is built in a way the analysis does not follow")
    tparams = set(param_names(db.func("template.Template.__init__")))
    special = {"self", "text", "filename", "uri", "lookup", "module_filename", "cache_type", "cache_dir", "cache_url"}
    ctx.check(set(keys) <= tparams, "template_args.valid", db.where(ta[0]), "template_args has keys Template does not accept: %s" % sorted(set(keys) - tparams), "all keys are Template options")
    miss = sorted(tparams - special - set(keys))
    ctx.check(not miss, "template_args.complete", db.where(ta[0]), "Template options not forwarded by the lookup (templates loaded through a lookup silently use defaults): %s" % miss, "all %d options forwarded" % len(keys))
    for k, v in keys.items():
        ctx.check(v == k, "template_args:" + k, db.where(ta[0]), "template_args[%r] = %s" % (k, v), "own value")
    # ModuleTemplate takes identity from the module
    mt = db.func("template.ModuleTemplate.__init__")
    t = src(mt)
    ctx.check(pm.has(mt, "self.uri = $m._template_uri") and pm.has(mt, "self.input_encoding = $m._source_encoding") and pm.has(mt, "self.enable_loop = $m._enable_loop"), "ModuleTemplate.identity", db.where(mt), "ModuleTemplate does not take uri / encoding / enable_loop from the module", "identity from module attributes")


@rule("C08.argument-presence", primary=False, min_instances=2, props=["C07", "C04"])
def argument_presence(ctx):
    """whether the context supplies an argument of a def / included page is decided by membership (`name in data`), not by the value found there: None, 0 and '' are values like any other, for render(), get_def(name).render() and <%include> alike"""
    db = ctx.db
    for q in ("runtime._kwargs_for_callable", "runtime._kwargs_for_include"):
        fn = db.func(q)
        group = db.with_helpers(fn)
        member, by_value = [], []
        for g in group:
            params = {a.arg for a in g.args.args}
            for n in walk_func(g):
                if isinstance(n, ast.Compare) and len(n.ops) == 1 and isinstance(n.ops[0], (ast.In, ast.NotIn)) and isinstance(n.comparators[0], ast.Name) and n.comparators[0].id in params:
                    member.append((g, n))
                if isinstance(n, ast.Call) and isinstance(n.func, ast.Attribute) and n.func.attr == "get" and isinstance(n.func.value, ast.Name) and n.func.value.id in params and len(n.args) == 1:
                    # is the value looked up only to see whether there is one?
                    par = getattr(n, "_parent", None)
                    names = {t.id for t in par.targets if isinstance(t, ast.Name)} if isinstance(par, ast.Assign) else set()
                    for t in walk_func(g):
                        test = t.test if isinstance(t, (ast.If, ast.IfExp, ast.While)) else None
                        if test is None:
                            continue
                        for x in ast.walk(test):
                            if (x is n) or (isinstance(x, ast.Name) and x.id in names):
                                by_value.append((g, n, test))
        data_member = [m for m in member if src(m[1].comparators[0]) != "kwargs"]
        key = "presence:" + q.split(".")[-1]
        by_value = [b for b in by_value if not any(m[0] is b[0] and isinstance(m[1].ops[0], ast.In) and m[1].comparators[0].id == b[1].func.value.id for m in member)]
        if by_value:
            g, n, test = by_value[0]
            ctx.violation(key, db.where(n), "%s takes an argument from the context only when `%s` (the value found by `%s`), not when the name is present: an argument the caller passed as None falls back to the def's / page's own default (get_def(name).render(x=None) and the body call then disagree)" % (q.split(".")[-1], " ".join(src(test).split())[:60], src(n)))
        elif any(isinstance(m[1].ops[0], ast.In) for m in data_member):
            ctx.ok(key, db.where(fn), "presence decided by membership")
        else:
            ctx.undecided(key, db.where(fn), "neither a membership test nor a value test on the context data found")
