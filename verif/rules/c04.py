"""C04 - names resolve through scopes, module, imports, context, builtins, UNDEFINED.

Decided: the reserved-name checks dominate rendering and compilation on all
paths; Context data is mutated only on private copies (the API never hands
out the shared dict); the lookup siblings agree on the order (data, builtins);
the six copies of the 'undeclared' filter agree; strict_undefined emission
raises NameError naming the identifier and import namespaces precede the
context.  The scope analysis of _Identifiers itself is a statement about
Python scoping and is not decided."""

import ast

from ..core import rule, AnalysisError
from ..engine import cfg as cfgmod, flow
from ..engine import pattern as P
from ..engine.facts import dotted, const, src, walk_func, enclosing_stmt, ancestors
from . import skeletons as sk
from . import c19  # idents-fields (scan state, parameter binding) is registered for C04 there
from .common import calls, stmt_nodes, contains, pn, access_paths, assigned_from, describe_owner, resolve, resolve_deep, guards_of
from .common import raise_names as common_raise_names


@rule("C04.reserved-at-render", min_instances=5)
def reserved_at_render(ctx):
    """every render entry point checks the reserved names (Context._set_with_template) before any template code runs"""
    db = ctx.db
    sw = db.func("runtime.Context._set_with_template")
    ctx.check(P.has(sw, "$t.reserved_names.intersection(self._data)") and any(n.endswith("NameConflictError") for n, _ in common_raise_names(sw)), "check.shape", db.where(sw), "_set_with_template does not intersect the template's reserved names with the context data and raise NameConflictError", "reserved ∩ data -> NameConflictError")
    ifs = [i for i in walk_func(sw) if isinstance(i, ast.If)]
    ctx.check(bool(ifs) and flow.always_raises(ifs[0].body), "check.raises", db.where(sw), "a reserved name in the data does not raise", "raises")
    rn = db.func("runtime._render")
    g = cfgmod.function_cfg(rn)
    cvars = assigned_from(rn, "Context(...)")
    s_ = [x for cv_ in cvars for c in calls(rn, cv_ + "._set_with_template") for x in stmt_nodes(g, c)]
    r_ = [x for c in calls(rn, "_render_context") for x in stmt_nodes(g, c)]
    p = g.path_avoiding(g.entry, r_, s_) if r_ else None
    ctx.check(bool(s_) and bool(r_) and p is None, "_render.dominates", db.where(rn), "_render can reach _render_context without the reserved-name check", "_set_with_template dominates _render_context")
    cx = calls(rn, "Context")
    ctx.check(bool(cx) and any(k.arg is None and src(k.value) == pn(rn, 3) for k in cx[0].keywords), "_render.data", db.where(rn), "the context is not built from the data passed to render()", "Context(buf, **data)")
    rc = db.func("template.Template.render_context")
    ifs = [i for i in rc.body if isinstance(i, ast.If)]
    ok = P.has(rc, "if getattr($c, '_with_template', None) is None:\n    $c._set_with_template(self)\n    ...") or P.has(rc, "if $c._with_template is None:\n    $c._set_with_template(self)\n    ...")
    ctx.check(ok, "render_context.guard", db.where(rc), "render_context does not check a fresh context against the reserved names", "checks a context not yet bound to a template")
    for m in ("render", "render_unicode"):
        fn = db.func("template.Template." + m)
        ctx.check(bool(calls(fn, "runtime._render")), "entry:" + m, db.where(fn), "%s bypasses runtime._render" % m, "through _render")
    re_ = db.func("runtime._render_error")
    ctx.check(bool(calls(re_, "context._set_with_template")), "error-template", db.where(re_), "the error template is rendered on a context not re-bound to it", "re-bound before rendering the error page")
    rv = db.module_assign("codegen", "RESERVED_NAMES")
    tv = db.module_assign("codegen", "TOPLEVEL_DECLARED")
    names = {const(e) for n in (rv, tv) for x in ast.walk(n) if isinstance(x, ast.Set) for e in x.elts}
    ctx.check({"context", "UNDEFINED", "STOP_RENDERING", "loop"} <= names, "RESERVED_NAMES", "mako/codegen.py", "reserved names are %s" % sorted(names), sorted(names))


@rule("C04.reserved-at-compile", min_instances=4)
def reserved_at_compile(ctx):
    """assigning a reserved name in a template is rejected on every path through _Identifiers, with the Template's own reserved set"""
    db = ctx.db
    init = db.func("codegen._Identifiers.__init__")
    g = cfgmod.function_cfg(init)
    chk = [s for s in walk_func(init) if isinstance(s, ast.Assign) and "reserved_names.intersection" in src(s.value)]
    ctx.require(chk, "_Identifiers.__init__: reserved-name test not found")
    ctx.check(P.has(chk[0], "self.compiler.reserved_names.intersection(self.locally_declared)"), "test", db.where(chk[0]), "reserved names are not intersected with the locally declared names: %s" % src(chk[0].value), "reserved ∩ locally_declared")
    ifs = [i for i in walk_func(init) if isinstance(i, ast.If) and src(i.test) == src(chk[0].targets[0])]
    ctx.check(bool(ifs) and flow.always_raises(ifs[0].body) and "NameConflictError" in src(ifs[0]), "raises", db.where(ifs[0]) if ifs else db.where(init), "a reserved name assigned in the template does not raise NameConflictError", "raises NameConflictError")
    good, path = g.must_pass(g.entry, g.nodes_of(chk[0]), exits=[g.exit], kinds=("n",))
    ctx.check(good, "on-every-path", db.where(chk[0]), "a path through _Identifiers.__init__ skips the reserved-name test (%s)" % g.fmt_path(path), "on every normal path")
    visit = [n_ for n_, _ in P.find(init, "$n.accept_visitor(self)")]
    ctx.check(bool(visit) and visit[0].lineno < chk[0].lineno, "after-scan", db.where(chk[0]), "the test runs before the node was scanned", "after the node's identifiers were collected")
    cm = db.func("template._compile")
    kw = {k.arg: src(k.value) for c in calls(cm, "codegen.compile") for k in c.keywords}
    ctx.check(kw.get("reserved_names") == "template.reserved_names", "threaded", db.where(cm), "codegen.compile gets reserved_names=%s" % kw.get("reserved_names"), "Template.reserved_names threaded to the compiler")
    cd = db.func("codegen._Identifiers.check_declared")
    ctx.check(P.has(cd, "for $i in $n.declared_identifiers():\n    self.locally_declared.add($i)"), "declared-collected", db.where(cd), "declared identifiers of code nodes are not recorded as locally declared", "assignments recorded in locally_declared")


@rule("C04.context-isolation", min_instances=8)
def context_isolation(ctx):
    """Context data is mutated only in the constructor, on a Context obtained in the same function from _copy(), or at the inheritance wiring sites; kwargs hands out copies"""
    db = ctx.db
    cp = db.func("runtime.Context._copy")
    a = [s for s in walk_func(cp) if isinstance(s, ast.Assign) and (dotted(s.targets[0]) or "").endswith("._data")]
    ctx.check(bool(a) and P.has(cp, "$c = Context.__new__(Context)\n...\n$c._data = self._data.copy()\n...\nreturn $c"), "_copy.data", db.where(cp), "_copy shares the data dict (%s): template code then alters the context seen by other scopes and by the caller of render" % (src(a[0].value) if a else None), "c._data = self._data.copy()")
    kw = db.func("runtime.Context.kwargs")
    r = [x for x in walk_func(kw) if isinstance(x, ast.Return)]
    ctx.check(bool(r) and src(r[0].value) == "self._kwargs.copy()", "kwargs.copy", db.where(kw), "context.kwargs returns %s" % (src(r[0].value) if r else None), "returns a copy")
    ci = db.func("runtime.Context.__init__")
    a = [s for s in walk_func(ci) if isinstance(s, ast.Assign) and dotted(s.targets[0]) == "self._kwargs"]
    ctx.check(bool(a) and src(a[0].value) == "data.copy()", "kwargs.snapshot", db.where(ci), "_kwargs is not a snapshot of the render arguments (%s)" % (src(a[0].value) if a else None), "_kwargs = data.copy() before capture/caller are added")
    first_mut = min([s.lineno for s in walk_func(ci) if isinstance(s, ast.Assign) and "self._data[" in src(s)] or [10 ** 9])
    ctx.check(bool(a) and a[0].lineno < first_mut, "kwargs.before-builtins", db.where(ci), "kwargs snapshot is taken after capture/caller were added to the data", "snapshot precedes the additions")
    # mutations of ._data anywhere in runtime.py
    allowed_wiring = {("runtime._inherit_from", "context._data['parent']"), ("runtime._inherit_from", "(context._locals)._data['local']"),
                      ("runtime._populate_self_namespace", "context._data['self']"), ("runtime._populate_self_namespace", "context._data['local']")}
    m = db.mod("runtime")
    n = 0
    for node in ast.walk(m.tree):
        tgt = None
        kind = None
        if isinstance(node, ast.Subscript) and isinstance(node.ctx, (ast.Store, ast.Del)) and (dotted(node.value) or "").endswith("._data"):
            tgt, kind = dotted(node), "store"
        elif isinstance(node, ast.Call) and isinstance(node.func, ast.Attribute) and node.func.attr in ("update", "pop", "setdefault", "clear", "popitem", "__setitem__"):
            recv = node.func.value
            rd = dotted(recv) or ""
            if rd.endswith("._data"):
                tgt, kind = rd, node.func.attr
            elif isinstance(recv, ast.Name):
                f = getattr(node, "_func", None)
                if f is not None:
                    rr = flow.Reaching(f)
                    try:
                        defs = rr.defs_at(enclosing_stmt(node), recv.id)
                    except AnalysisError:
                        defs = set()
                    for d in defs:
                        if isinstance(d, ast.Assign) and (dotted(d.value) or "").endswith("._data"):
                            tgt, kind = dotted(d.value), node.func.attr
        if tgt is None:
            continue
        n += 1
        f = getattr(node, "_func", None)
        q = getattr(f, "_qual", "<module>")
        owner = tgt.split("._data")[0]
        if owner.isidentifier() and owner != "self":
            tgt = describe_owner(f, node, owner) + tgt[len(owner):]
        key = "%s:%s:%s" % (q, tgt, kind)
        if q == "runtime.Context.__init__" and owner == "self":
            ctx.ok(key, db.where(node), "constructor")
            continue
        if (q, tgt) in allowed_wiring:
            ctx.ok(key, db.where(node), "inheritance wiring site (self/local, parent/local)")
            continue
        # owner must be a local obtained from _copy() in this function
        ok = False
        if f is not None and owner.isidentifier():
            rr = flow.Reaching(f)
            defs = rr.defs_at(enclosing_stmt(node), owner)
            ok = bool(defs) and all(isinstance(d, ast.Assign) and isinstance(d.value, ast.Call) and (dotted(d.value.func) or "").endswith("._copy") for d in defs)
        ctx.check(ok, key, db.where(node), "%s mutates %s, which is not a copy made in this function: context data shared with other scopes / the caller of render is altered" % (q, tgt), "mutates a private copy")
    ctx.require(n >= 8, "expected >=8 mutations of ._data in runtime.py, found %d" % n)
    lc = db.func("runtime.Context._locals")
    ctx.check(P.has(lc, "$c = self._copy()\n$c._data.update($d)\nreturn $c"), "_locals", db.where(lc), "_locals does not update a copy", "update on a copy (self when nothing to add)")


@rule("C04.lookup-siblings", min_instances=8)
def lookup_siblings(ctx):
    """Context.get and Context.__getitem__ consult the data first and builtins second; the copies of the 'undeclared' filter in _Identifiers agree"""
    db = ctx.db
    gi = db.func("runtime.Context.__getitem__")
    ctx.check(P.has(gi, "if $k in self._data:\n    return self._data[$k]\nelse:\n    return builtins.__dict__[$k]") or P.has(gi, "if $k in self._data:\n    return self._data[$k]\nreturn builtins.__dict__[$k]"), "__getitem__", db.where(gi), "context[key] does not look in the data first and builtins second", "data, then builtins (KeyError otherwise)")
    ge = db.func("runtime.Context.get")
    r = [x for x in walk_func(ge) if isinstance(x, ast.Return)]
    ctx.check(P.has(ge, "return self._data.get($k, builtins.__dict__.get($k, $d))") or any(P.matches(resolve_deep(ge, x.value), "self._data.get($k, builtins.__dict__.get($k, $d))") for x in r if x.value is not None), "get", db.where(ge), "context.get is %s" % (src(r[0].value) if r else None), "data, then builtins, then default")
    ks = db.func("runtime.Context.keys")
    ctx.check(P.has(ks, "self._data.keys()") or P.has(ks, "list(self._data)"), "keys", db.where(ks), "keys() does not list the data", "keys of the data")
    # the undeclared filter
    cls = db.cls("codegen._Identifiers")
    copies = []
    for n in ast.walk(cls):
        if isinstance(n, ast.If) and (P.has(n.test, "self.declared.union($_)") or (getattr(n, "_func", None) is not None and P.has(resolve_deep(n._func, n.test), "self.declared.union($_)"))):
            copies.append(n)
    ctx.require(len(copies) >= 3, "expected several copies of the undeclared filter in _Identifiers, found %d" % len(copies))
    good = {id(n_) for n_, _ in P.find(cls, "if $i != 'context' and $i not in self.declared.union(self.locally_declared):\n    self.undeclared.add($i)")}
    for c in copies:
        f = getattr(c, "_func", None)
        if id(c) not in good and f is not None:
            # the set of declared names held in a local
            env_ = {}
            if P.matches(resolve_deep(f, c.test), "$i != 'context' and $i not in self.declared.union(self.locally_declared)") and len(c.body) == 1 and P.matches(c.body[0], "self.undeclared.add($i)"):
                good.add(id(c))
        ctx.check(id(c) in good, "filter@%s:%d" % (f.name if f else "?", [x for x in copies if getattr(x, '_func', None) is f].index(c)), db.where(c), "copy of the undeclared filter differs from its siblings: `%s` -> %s" % (src(c.test), src(c.body[0])), "agrees")
    # nested scopes see the parent's declarations
    init = db.func("codegen._Identifiers.__init__")
    for pat, what in (("set($p.declared)", "parent declared"), ("$p.closuredefs.values()", "closure defs"), ("$x.union($p.locally_declared)", "parent locals"), ("$x.union($p.argument_declared)", "parent arguments"), ("$x.union($p.undeclared)", "names the parent fetched (nested)")):
        hits = [n_ for n_, e_ in P.find(init, pat) if src(e_["p"][1]) == pn(init, 3)]
        ok_ = bool(hits)
        if "nested" in what:
            # ... for a nested scope only
            ok_ = ok_ and all((pn(init, 4), True) in guards_of(h_, init) for h_ in hits)
        ctx.check(ok_, "inherits:" + what, db.where(init), "a nested scope no longer inherits %s" % what, what)


def _all_lines(events):
    for e in events:
        if e[0] == "LINE":
            yield e
        elif e[0] == "STAR":
            for a in e[1]:
                yield from _all_lines(a.events)


@rule("C04.strict-emission", min_instances=8, props=["C07"])
def strict_emission(ctx):
    """emitted variable declarations: strict_undefined -> every context look-up ends in NameError naming the identifier (no UNDEFINED default); otherwise the default is UNDEFINED; import namespaces are consulted before the context"""
    db = ctx.db
    S = sk.get(db)
    n = 0
    for t in S.model.method_traces("write_variable_declares"):
        strict = t.asg.get("self.compiler.strict_undefined")
        ns = t.asg.get("self.compiler.has_ns_imports")
        if strict is None:
            continue
        lines = [e[1] for e in _all_lines(t.events)]
        lits = [l.literal() for l in lines]
        ctxl = [l for l in lits if "context.get(" in l or "context[" in l or "_import_ns.get(" in l]
        if not ctxl:
            continue
        n += 1
        key = "declares[strict=%d,ns_imports=%s]" % (strict, int(bool(ns)))
        probs = []
        if strict:
            if any("context.get(" in l and "UNDEFINED" in l for l in lits):
                probs.append("strict_undefined still falls back to UNDEFINED")
            if not any(l.strip().startswith("raise NameError(") for l in lits):
                probs.append("no NameError raised for a missing name")
            ne = [l for l in lines if l.literal().strip().startswith("raise NameError(")]
            if ne and not ne[0].holes():
                probs.append("the NameError does not name the identifier")
            if not any(l.strip().startswith("except KeyError") for l in lits):
                probs.append("context[...] is not guarded by except KeyError")
        else:
            if not any("UNDEFINED" in l for l in ctxl):
                probs.append("non-strict look-up has no UNDEFINED default")
            if any("raise NameError" in l for l in lits):
                probs.append("non-strict mode raises NameError")
        if ns:
            first = [l for l in ctxl if not l.startswith("_mako_get_namespace")]
            if first and not first[0].lstrip().split("=", 1)[1].strip().startswith("_import_ns.get("):
                probs.append("names are fetched from the context before the imported namespaces: %s" % first[0])
            if strict and not any("is UNDEFINED" in l for l in lits):
                probs.append("strict mode does not fall through from _import_ns to the context")
        if probs:
            ctx.violation(key, "mako/codegen.py (write_variable_declares)", "; ".join(probs))
        else:
            ctx.ok(key, "mako/codegen.py (write_variable_declares)", "look-up order and failure mode as specified")
    ctx.require(n >= 4, "write_variable_declares: context look-up emissions not found (%d)" % n)
    # same identifier in target, key and message
    wv = db.func("codegen._GenerateRenderMethod.write_variable_declares")
    for node in walk_func(wv):
        if isinstance(node, ast.BinOp) and isinstance(node.op, ast.Mod) and isinstance(node.left, ast.Constant) and isinstance(node.left.value, str) and ("context.get(" in node.left.value or "context[" in node.left.value or "NameError" in node.left.value or "_import_ns.get" in node.left.value or " is UNDEFINED" in node.left.value):
            args = node.right.elts if isinstance(node.right, ast.Tuple) else [node.right]
            loopvars = {a_.target.id for a_ in ancestors(node) if isinstance(a_, ast.For) and isinstance(a_.target, ast.Name)}
            ok = all(isinstance(a, ast.Name) for a in args) and len({a.id for a in args}) == 1 and args[0].id in loopvars
            ctx.check(ok, "same-ident:%s" % node.left.value[:24], db.where(node), "look-up `%s` is formatted with %s, not the identifier throughout" % (node.left.value, [src(a) for a in args]), "ident used for target, key and message")
    # writer bound last; loop stack only when used
    last = [e for e in _all_lines(S.model.method_traces("write_variable_declares")[0].events)][-1]
    ctx.check(last[1].literal() == "__M_writer = context.writer()", "writer-last", "mako/codegen.py (write_variable_declares)", "declarations do not end by binding the writer", "writer bound after the declarations")


def _resolved_methods(db, q):
    """name -> FunctionDef for the methods of class q, class-level aliases (`visitA = visitB`) resolved"""
    out = dict(db.methods(q))
    alias = {}
    for st in db.cls(q).body:
        if isinstance(st, ast.Assign) and isinstance(st.value, ast.Name):
            for t in st.targets:
                if isinstance(t, ast.Name):
                    alias[t.id] = st.value.id
    for a in list(alias):
        seen, b = set(), a
        while b in alias and b not in seen:
            seen.add(b)
            b = alias[b]
        if b in out:
            out[a] = out[b]
    return out


@rule("C04.visitor-declares", min_instances=5)
def visitor_declares(ctx):
    """every parse-tree node that can declare names (loop targets of control lines, assignments of code blocks, arguments of defs / blocks / calls / page) has an _Identifiers visitor that records node.declared_identifiers(): those names are local to the scope, are checked against the reserved names and are not fetched from the context"""
    db = ctx.db
    pt = db.mod("parsetree")
    declaring = []
    for c in pt.tree.body:
        if not isinstance(c, ast.ClassDef):
            continue
        m = [s for s in c.body if isinstance(s, ast.FunctionDef) and s.name == "declared_identifiers"]
        if not m or c.name.startswith("_"):
            continue  # (a private class is a shared base, never the class of a node)
        rets = [r for r in walk_func(m[0]) if isinstance(r, ast.Return)]
        trivial = all(isinstance(r.value, (ast.List, ast.Tuple, ast.Set)) and not r.value.elts or (isinstance(r.value, ast.Call) and dotted(r.value.func) in ("set", "list", "frozenset", "tuple") and not r.value.args) for r in rets)
        if not trivial:
            declaring.append(c.name)
    ctx.require(len(declaring) >= 5, "parsetree: fewer than 5 node classes with a non-empty declared_identifiers() (%s)" % declaring)
    meths = _resolved_methods(db, "codegen._Identifiers")

    def reads_declared(fn, depth=3, seen=None):
        seen = seen or set()
        if id(fn) in seen:
            return False
        seen.add(id(fn))
        for n in walk_func(fn):
            if isinstance(n, ast.Attribute) and n.attr == "declared_identifiers":
                return True
        if depth:
            for n in walk_func(fn):
                if isinstance(n, ast.Call) and isinstance(n.func, ast.Attribute) and dotted(n.func.value) == "self" and n.func.attr in meths:
                    if reads_declared(meths[n.func.attr], depth - 1, seen):
                        return True
        return False

    for c in declaring:
        h = meths.get("visit" + c)
        if h is None:
            ctx.violation("declares:" + c, db.where(db.cls("codegen._Identifiers")), "_Identifiers has no visit%s: the names such a node declares are never recorded" % c)
            continue
        ctx.check(reads_declared(h), "declares:" + c, db.where(h),
                  "_Identifiers.visit%s (%s) never reads node.declared_identifiers(): the names a %s binds (e.g. the target of `%% for x in ...`, `except E as x`) are not recorded as declared - assigning a reserved name passes unnoticed and under strict_undefined the bound name raises NameError" % (c, h.name, c),
                  "declared identifiers recorded")


@rule("C04.locals-handed-to-defs", primary=False, min_instances=2, props=["C05"])
def locals_handed_to_defs(ctx):
    """the stub that calls a top-level def passes context._locals(__M_locals) under exactly the condition under which the enclosing render function creates __M_locals (same flags, same identifiers object)"""
    db = ctx.db
    wr = db.func("codegen._GenerateRenderMethod.write_render_callable")
    wd = db.func("codegen._GenerateRenderMethod.write_def_decl")

    def guard_of(fn, needle):
        for g in db.with_helpers(fn):
            for i in walk_func(g):
                if isinstance(i, ast.If) and any(isinstance(c, ast.Constant) and isinstance(c.value, str) and needle in c.value for s in i.body for c in ast.walk(s)):
                    return i
        return None
    gr = guard_of(wr, "__M_locals = __M_dict_builtin")
    gd = guard_of(wd, "context._locals(__M_locals)")
    ctx.require(gr is not None, "write_render_callable: guard of the `__M_locals = ...` line not found (anchor)")
    ctx.require(gd is not None, "write_def_decl: guard of the `context._locals(__M_locals)` argument not found (anchor)")
    a = " ".join(src(resolve_deep(wr, gr.test)).split())
    b = " ".join(src(resolve_deep(wd, gd.test)).split())
    ctx.ok("guards-found", db.where(gr), "creation guarded by `%s`" % a[:80])
    if a == b:
        ctx.ok("same-condition", db.where(gd), "stub passes the locals under the same condition")
    else:
        import re as _re
        norm = lambda t: _re.sub(r"\b(self\.)?identifiers\b|\bself\.identifier_stack\[-1\]", "IDENTS", t)
        if norm(a) == norm(b):
            ctx.violation("same-condition", db.where(gd),
                          "write_def_decl decides on `%s` whether to pass context._locals(__M_locals) while the render function creates __M_locals on `%s`: the two look at different identifier scopes (for a def referenced from a <%%call> body the scope handed in is the call body's, which has no locals of its own), so the def is called with the bare context and no longer sees the body's variables" % (b[:90], a[:90]))
        else:
            ctx.undecided("same-condition", db.where(gd), "conditions differ in shape: `%s` vs `%s`" % (a[:80], b[:80]))
