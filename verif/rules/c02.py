"""C02 - expression substitution applies the filter pipeline in the documented order.

Decided: for every assignment of create_filter_callable's guard atoms the
final filter list in concatenation normal form (D + P + L, with `n` rules),
the nesting order of the emitted calls, which sites apply expression
defaults, the three-way guard of visitExpression, resolution of built-in
flags.  The expression scanner (parse_until_text) on arbitrary nesting and
re-emission of filter arguments (C19) are not decided."""

import ast

from ..core import rule, AnalysisError
from ..engine import pattern as P
from ..engine.facts import dotted, const, src, walk_func, enclosing_stmt
from .common import calls, pn, access_paths, sym_cases, resolve, resolve_deep, guards_of, branch_paths, line_sources
from . import c10  # xml-table (what the `x` flag denotes) is registered for C02 there
from . import c03  # printer-indents-first-line-only (multi-line expressions keep their text) is registered for C02 there


SHARED = {"self.compiler.default_filters": "D", "self.compiler.pagetag.filter_args.args": "P"}


class _Val:
    """abstract list value: components front to back (L = the filters given, P = page filters, D = default filters,
    X~ = a derived form of X) and whether it *is* one of the shared configuration lists (not a copy)"""

    def __init__(self, comps, shared=None):
        self.comps, self.shared = tuple(comps), shared

    def __repr__(self):
        return "+".join(self.comps) or "[]"


class _Compose:
    def __init__(self, fn, argsp, isexp):
        self.fn, self.argsp, self.isexp = fn, argsp, isexp
        self.paths = []       # (final comps of args, facts dict)
        self.problems = []    # (node, text)

    # -- expressions ---------------------------------------------------
    def val(self, e, env):
        t = src(e)
        if isinstance(e, ast.Name):
            return env.get(e.id)
        if t in SHARED:
            return _Val([SHARED[t]], shared=SHARED[t])
        if isinstance(e, (ast.List, ast.Tuple)) and not e.elts:
            return _Val([])
        if isinstance(e, ast.BinOp) and isinstance(e.op, ast.Add):
            l, r = self.val(e.left, env), self.val(e.right, env)
            if l is not None and r is not None:
                return _Val(l.comps + r.comps)
            return None
        if isinstance(e, ast.Call) and dotted(e.func) in ("list", "tuple") and len(e.args) == 1:
            v = self.val(e.args[0], env)
            return _Val(v.comps) if v is not None else None
        if isinstance(e, ast.Call) and isinstance(e.func, ast.Attribute) and e.func.attr == "copy" and not e.args:
            v = self.val(e.func.value, env)
            return _Val(v.comps) if v is not None else None
        if isinstance(e, ast.Subscript) and isinstance(e.slice, ast.Slice) and e.slice.lower is None and e.slice.upper is None and e.slice.step is None:
            v = self.val(e.value, env)
            return _Val(v.comps) if v is not None else None
        if isinstance(e, ast.IfExp):
            return None
        for k, c in SHARED.items():
            if k.split(".")[-1] in t or (c == "P" and "filter_args" in t):
                return _Val([c + "~"])  # built from the configured list but not the list itself (filtered, reordered, de-duplicated)
        return None

    # -- conditions ----------------------------------------------------
    def atom(self, test, env):
        """(fact name, value-if-test-true) or None for a condition the analysis does not interpret"""
        t = src(test)
        if isinstance(test, ast.UnaryOp) and isinstance(test.op, ast.Not):
            a = self.atom(test.operand, env)
            return (a[0], not a[1], a[2]) if a else None
        if isinstance(test, ast.Compare) and len(test.ops) == 1 and const(test.left) == "n" and isinstance(test.ops[0], (ast.In, ast.NotIn)):
            v = self.val(test.comparators[0], env)
            if v is not None:
                return ("n-in:" + "+".join(v.comps), isinstance(test.ops[0], ast.In), v.comps)
            return None
        if t == self.isexp:
            return ("is_expression", True, None)
        if t in ("self.compiler.pagetag", "self.compiler.pagetag is not None"):
            return ("page", True, None)
        if t == "self.compiler.pagetag is None":
            return ("page", False, None)
        if t in ("self.compiler.default_filters", "len(self.compiler.default_filters)"):
            return ("default", True, None)
        if isinstance(test, ast.Name) and env.get(test.id) is not None:
            v = env[test.id]
            if v.comps == ("P",):
                return ("p-nonempty", True, None)
            if v.comps == ():
                return ("const", False, None)
        return None

    def assume(self, facts, name, value, comps):
        """record a fact; False when it contradicts what the path already knows"""
        f = dict(facts)
        if name == "const":
            return f if value else None
        if name.startswith("n-in:"):
            if not comps:
                return f if value is False else None  # nothing is in the empty list
            know = {c: f.get("n-in-" + c) for c in comps}
            if value:
                # n in X1+..+Xk: at least one; if all others known False, the remaining one is True
                if all(v is False for v in know.values()):
                    return None
                unknown = [c for c, v in know.items() if v is None]
                if len(unknown) == 1 and not any(v for v in know.values()):
                    f["n-in-" + unknown[0]] = True
            else:
                if any(v is True for v in know.values()):
                    return None
                for c in comps:
                    f["n-in-" + c] = False
            return f
        if name in f and f[name] != value:
            return None
        f[name] = value
        return f

    # -- statements ----------------------------------------------------
    def run(self, stmts, env, facts):
        if not stmts:
            self.paths.append((env.get(self.argsp), facts))
            return
        s, rest = stmts[0], list(stmts[1:])
        if isinstance(s, ast.If):
            test = s.test
            if isinstance(test, ast.BoolOp) and isinstance(test.op, ast.And):
                # if A and B: X else: Y  ==  if A: (if B: X else: Y) else: Y
                inner = ast.If(test=test.values[1] if len(test.values) == 2 else ast.BoolOp(op=ast.And(), values=test.values[1:]), body=s.body, orelse=s.orelse)
                outer = ast.If(test=test.values[0], body=[inner], orelse=s.orelse)
                for n_ in (inner, outer):
                    ast.copy_location(n_, s)
                    if isinstance(n_.test, ast.BoolOp):
                        ast.copy_location(n_.test, test)
                return self.run([outer] + rest, env, facts)
            if isinstance(test, ast.BoolOp) and isinstance(test.op, ast.Or):
                # if A or B: X else: Y  ==  if A: X else: (if B: X else: Y)
                inner = ast.If(test=test.values[1] if len(test.values) == 2 else ast.BoolOp(op=ast.Or(), values=test.values[1:]), body=s.body, orelse=s.orelse)
                outer = ast.If(test=test.values[0], body=s.body, orelse=[inner])
                for n_ in (inner, outer):
                    ast.copy_location(n_, s)
                    if isinstance(n_.test, ast.BoolOp):
                        ast.copy_location(n_.test, test)
                return self.run([outer] + rest, env, facts)
            a = self.atom(test, env)
            if a is None:
                self.run(list(s.body) + rest, dict(env), facts)
                self.run(list(s.orelse) + rest, dict(env), facts)
                return
            for val, body in ((True, s.body), (False, s.orelse)):
                f = self.assume(facts, a[0], a[1] if val else not a[1], a[2])
                if f is not None:
                    self.run(list(body) + rest, dict(env), f)
            return
        if isinstance(s, ast.Assign) and len(s.targets) == 1 and isinstance(s.value, ast.IfExp):
            # x = a if c else b  ==  if c: x = a else: x = b
            a1 = ast.copy_location(ast.Assign(targets=s.targets, value=s.value.body), s)
            a2 = ast.copy_location(ast.Assign(targets=s.targets, value=s.value.orelse), s)
            return self.run([ast.copy_location(ast.If(test=s.value.test, body=[a1], orelse=[a2]), s)] + rest, env, facts)
        if isinstance(s, ast.Assign) and len(s.targets) == 1 and isinstance(s.targets[0], ast.Name):
            v = self.val(s.value, env)
            if v is None and (s.targets[0].id == self.argsp or any(isinstance(x, ast.Name) and x.id in env for x in ast.walk(s.value))):
                raise AnalysisError("create_filter_callable: assignment `%s` not understood" % src(s))
            env = dict(env)
            if v is not None:
                env[s.targets[0].id] = v
            return self.run(rest, env, facts)
        if isinstance(s, ast.AugAssign) and isinstance(s.value, ast.IfExp):
            a1 = ast.copy_location(ast.AugAssign(target=s.target, op=s.op, value=s.value.body), s)
            a2 = ast.copy_location(ast.AugAssign(target=s.target, op=s.op, value=s.value.orelse), s)
            return self.run([ast.copy_location(ast.If(test=s.value.test, body=[a1], orelse=[a2]), s)] + rest, env, facts)
        mut = None
        if isinstance(s, ast.AugAssign) and isinstance(s.op, ast.Add) and isinstance(s.target, ast.Name) and s.target.id in env:
            mut = (s.target.id, s.value, "back")
        elif isinstance(s, ast.Expr) and isinstance(s.value, ast.Call) and isinstance(s.value.func, ast.Attribute) and isinstance(s.value.func.value, ast.Name) and s.value.func.value.id in env and s.value.func.attr in ("extend", "insert", "append"):
            c = s.value
            if c.func.attr == "extend":
                mut = (c.func.value.id, c.args[0], "back")
            else:
                raise AnalysisError("create_filter_callable: `%s` not understood" % src(s))
        if mut:
            name, ve, where = mut
            cur, add = env[name], self.val(ve, env)
            if add is None:
                raise AnalysisError("create_filter_callable: `%s` not understood" % src(s))
            if cur.shared:
                self.problems.append((s, "`%s` extends the configured %s filter list itself (the template's / page tag's own list object, `%s` is no copy): every later expression, and every other template sharing that list, gets the added filters once more" % (src(s), "default" if cur.shared == "D" else "page", name)))
            env = dict(env)
            env[name] = _Val(cur.comps + add.comps, shared=cur.shared)
            # aliases of the same shared object see the mutation too
            return self.run(rest, env, facts)
        if isinstance(s, (ast.FunctionDef, ast.Expr, ast.Pass, ast.Assert)):
            return self.run(rest, env, facts)
        if isinstance(s, ast.Assign):
            return self.run(rest, env, facts)
        if isinstance(s, ast.For):
            # the list the wrapping loop runs over is the composed filter list
            self.paths.append((self.val(s.iter, env), facts))
            return
        raise AnalysisError("create_filter_callable: statement %s not understood" % type(s).__name__)


@rule("C02.compose", min_instances=5)
def compose(ctx):
    """create_filter_callable: default filters D and page filters P are prepended (D + P + L) only for expressions; `n` among the local filters disables both, `n` in the page filters disables D; the configured lists themselves are never extended"""
    db = ctx.db
    fn = db.func("codegen._GenerateRenderMethod.create_filter_callable")
    argsp, isexp = pn(fn, 1), pn(fn, 3)
    cz = _Compose(fn, argsp, isexp)
    cz.run(list(fn.body), {argsp: _Val(["L"])}, {})
    where = db.where(fn)
    ctx.note("paths", [(repr(v), sorted(f.items())) for v, f in cz.paths])
    for node, text in cz.problems[:1]:
        ctx.violation("shared-list-extended", db.where(node), text)
    if not cz.problems:
        ctx.ok("shared-list-extended", where, "no in-place extension of a configured filter list")
    seen = set()
    finals = set()
    for v, f in cz.paths:
        final = repr(v)
        key = "path[%s]" % ",".join("%s=%d" % (k, val) for k, val in sorted(f.items()))
        if key in seen:
            continue
        seen.add(key)
        nL, isx, page, dflt, nP = f.get("n-in-L"), f.get("is_expression"), f.get("page"), f.get("default"), f.get("n-in-P")
        if f.get("p-nonempty") is False and page is None:
            page = None
        want = None
        why = ""
        if nL is True:
            want, why = "L", "with n among the local filters the list must stay L"
        elif isx is False:
            want, why = "L", "nothing may be added for non-expression filters (def/block/<%text>/buffer_filters)"
        elif nL is False and isx is True and page is not None and dflt is not None:
            comps = ["L"]
            if page:
                comps = ["P"] + comps
            if dflt and not (page and nP is True):
                if page and nP is None:
                    ctx.violation(key, where, "default filters are added to %s without testing for n in the page filters" % final)
                    finals.add(final)
                    continue
                comps = ["D"] + comps
            want, why = "+".join(comps), "expected %s" % "+".join(comps)
        elif nL is None:
            ctx.violation(key, where, "a path builds the filter list %s without testing for `n` among the expression's own filters: n does not disable the defaults" % final)
            finals.add(final)
            continue
        else:
            # facts undetermined on this path: it must not add anything the known facts forbid
            if isx is None and final != "L":
                ctx.violation(key, where, "filters are added (%s) on a path that does not depend on is_expression: def/block/<%%text> filters and buffer_filters get the expression defaults" % final)
                finals.add(final)
                continue
            continue
        finals.add(final)
        ctx.check(final == want, key, where, "final filter list is %s: %s" % (final, why), "final list %s" % final)
    for v, f in cz.paths:
        for comp in (v.comps if v is not None else ()):
            if comp.endswith("~"):
                ctx.violation("component:" + comp, where, "the %s filters are not prepended as configured but in a derived form (some are dropped, reordered or de-duplicated): the pipeline is no longer f2(f1(P(D(value))))" % ("default" if comp.startswith("D") else "page"))
    ctx.check({"L", "P+L", "D+P+L", "D+L"} <= finals, "all-forms", where, "reachable filter lists %s lack one of L, P+L, D+L, D+P+L" % sorted(finals), sorted(finals))


@rule("C02.wrap-order", min_instances=4)
def wrap_order(ctx):
    """each later filter becomes the outer call; `n` itself is never emitted; function-call filters keep their arguments"""
    db = ctx.db
    fn = db.func("codegen._GenerateRenderMethod.create_filter_callable")
    loops = [n for n in fn.body if isinstance(n, ast.For)]
    argsp, targetp = pn(fn, 1), pn(fn, 2)
    ctx.require(loops and isinstance(loops[0].iter, ast.Name) and isinstance(loops[0].target, ast.Name), "create_filter_callable: `for e in args` not found")
    lp = loops[0]
    ev = lp.target.id
    tg = [s for s in ast.walk(lp) if isinstance(s, ast.Assign) and src(s.targets[0]) == targetp]
    # the fold: target = "<f>(<target>)" where <f> is the resolved name of this filter (a value computed from the loop variable)
    fvar = None
    ok = False
    if tg:
        for n_, env_ in P.find(lp, "%s = '%%s(%%s)' %% ($f, %s)" % (targetp, targetp)):
            if n_ is tg[-1] and isinstance(env_["f"][1], ast.Name):
                fvar = env_["f"][1].id
                ok = True
    ctx.check(ok, "fold", db.where(lp), "the fold is `%s`: the previous target must be the argument of the next filter" % (src(tg[-1]) if tg else None), 'target = "%s(%s)" % (e, target)')
    ctx.check(tg and tg[-1] in lp.body, "fold-every-filter", db.where(lp), "the fold is conditional", "applied for every filter")
    skips = [i_ for i_ in lp.body if isinstance(i_, ast.If) and P.matches(i_.test, "%s == 'n'" % ev) and len(i_.body) == 1 and isinstance(i_.body[0], ast.Continue)]
    ctx.check(bool(skips) and bool(tg) and skips[0].lineno < tg[-1].lineno, "n-skipped", db.where(lp), "`n` is not skipped", "`n` never emitted")
    rets = [r for r in fn.body if isinstance(r, ast.Return)]
    ctx.check(bool(rets) and src(rets[-1].value) == targetp, "returns-target", db.where(fn), "returns %s" % (src(rets[-1].value) if rets else None), "returns the folded target")
    # name resolution of one filter (the local helper locate_encode, wherever its body stands)
    helper = [f_ for f_ in ast.walk(fn) if isinstance(f_, ast.FunctionDef) and f_ is not fn]
    scope = helper + [lp]
    okl = any(P.has(x_, "'filters.' + $n if re.match($rx, $n) else filters.DEFAULT_ESCAPES.get($n, $n)") or (P.has(x_, "'filters.' + $n") and P.has(x_, "filters.DEFAULT_ESCAPES.get($n, $n)")) for x_ in scope) and any(isinstance(c_, ast.Constant) and isinstance(c_.value, str) and "decode" in c_.value for x_ in scope for c_ in ast.walk(x_))
    ctx.check(okl, "locate", db.where(lp), "a filter name is no longer mapped decode.<enc> -> filters.decode.<enc> and otherwise through DEFAULT_ESCAPES (unknown names unchanged)", "decode.x -> filters.decode.x ; flag -> DEFAULT_ESCAPES ; other name unchanged")
    # the value folded in derives from the loop variable on both branches (plain name / call with arguments)
    defs_f = [s_ for s_ in ast.walk(lp) if isinstance(s_, ast.Assign) and isinstance(s_.targets[0], ast.Name) and fvar is not None and s_.targets[0].id == fvar]
    callform = P.has(lp, "($i, $a) = $m.group(1, 2)\n...\n$e = $f + $a") or P.has(lp, "($i, $a) = $m.group(1, 2)\n$f = locate_encode($i)\n$e = $f + $a")
    ctx.check(callform and (fvar == ev or bool(defs_f)), "call-filters", db.where(lp), "filters written as calls lose their arguments or are not resolved by name", "name resolved, arguments kept")
    wt = db.func("codegen._GenerateRenderMethod.write_toplevel")
    imp = [a_ for a_ in line_sources(wt) if const(a_) and str(const(a_)).startswith("from mako import")]
    ok = bool(imp) and {"runtime", "filters", "cache"} <= set(const(imp[0]).replace("from mako import", "").replace(" ", "").split(","))
    ctx.check(ok, "emitted-import", db.where(wt), "generated modules do not import runtime, filters and cache", "from mako import runtime, filters, cache")


@rule("C02.sites", min_instances=6)
def sites(ctx):
    """expression defaults apply only at ${...} and call tags; def/block/<%text> filters and buffer_filters are applied without them, exactly where the content is returned/written"""
    db = ctx.db
    cg = db.mod("codegen")
    expect_true = {"visitExpression", "visitCallTag"}
    n = 0
    for c in ast.walk(cg.tree):
        if isinstance(c, ast.Call) and dotted(c.func) == "self.create_filter_callable":
            n += 1
            f = getattr(c, "_func", None)
            name = f.name if f is not None else "?"
            flag = const(c.args[2]) if len(c.args) > 2 else None
            arg0 = src(c.args[0])
            if name in expect_true:
                ctx.check(flag is True, "%s:is_expression" % name, db.where(c), "%s applies filters with is_expression=%s: default/page filters are skipped for expressions" % (name, flag), "is_expression=True")
            else:
                ctx.check(flag is False, "%s:%s" % (name, arg0[:30]), db.where(c), "%s applies `%s` with is_expression=%s: defaults/page filters leak into def/block/text/buffer filtering" % (name, arg0, flag), "is_expression=False")
    ctx.require(n >= 6, "expected >=6 create_filter_callable sites, found %d" % n)
    ve = db.func("codegen._GenerateRenderMethod.visitExpression")
    c = calls(ve, "self.create_filter_callable")
    ctx.check(bool(c) and src(c[0].args[0]) == "node.escapes_code.args", "expression.local-filters", db.where(ve), "expression filters are %s" % (src(c[0].args[0]) if c else None), "local filters = parsed filter list of the expression")
    df = db.func("codegen._GenerateRenderMethod.write_def_finish")
    bf = [x for x in calls(df, "self.create_filter_callable") if "buffer_filters" in src(x.args[0])]
    ok = bool(bf) and any(isinstance(a, ast.If) and src(a.test) == "buffered and (not cached)" for a in _anc(bf[0]))
    ctx.check(ok, "buffer_filters.uncached", db.where(df), "buffer_filters are not applied exactly for buffered, uncached defs in write_def_finish", "buffered and not cached")
    wc = db.func("codegen._GenerateRenderMethod.write_cache_decorator")
    bf = [x for x in calls(wc, "self.create_filter_callable") if "buffer_filters" in src(x.args[0])]
    ok = bool(bf) and any(isinstance(a, ast.If) and src(a.test) == "buffered" for a in _anc(bf[0]))
    ctx.check(ok, "buffer_filters.cached", db.where(wc), "buffer_filters are not applied by the cache wrapper of a buffered def", "cached buffered defs: wrapper applies buffer_filters")
    ti = db.func("template.Template.__init__")
    t = src(ti)
    ctx.check(P.has(ti, "if $d is None:\n    self.default_filters = ['str']\nelse:\n    self.default_filters = $d"), "default-str", db.where(ti), "default_filters does not default to ['str']", "default_filters None -> ['str']")


def _anc(n):
    from ..engine.facts import ancestors
    return list(ancestors(n))


@rule("C02.guard", min_instances=3)
def guard(ctx):
    """visitExpression takes the filtered path iff the expression, the page tag or the template configures filters"""
    db = ctx.db
    ve = db.func("codegen._GenerateRenderMethod.visitExpression")
    # the unfiltered write happens exactly when every source of filters is empty: the conditions (all taken false) of the case
    # in which node.text is written as it is
    cases = [(c_, v_, w_) for w_ in calls(ve, "self.printer.writeline") for c_, v_ in sym_cases(ve, w_.args[0])]
    plain = [(c_, v_, w_) for c_, v_, w_ in cases if P.matches(v_, "'__M_writer(%%s)' %% %s.text" % pn(ve, 1))]
    ctx.require(plain and len(cases) > len(plain), "visitExpression has no guard")
    class _G:
        pass
    ifs = [_G()]
    ifs[0] = plain[0][2]
    vals = []
    for t_, tv_ in plain[0][0]:
        if tv_:
            vals = []
            break
        vals += list(t_.values) if isinstance(t_, ast.BoolOp) and isinstance(t_.op, ast.Or) else [t_]
    texts = [src(v) for v in vals]
    for frag, what in (("node.escapes", "the expression's own filters"), ("pagetag.filter_args.args", "<%page expression_filter>"), ("default_filters", "default_filters")):
        ctx.check(any(frag in x for x in texts), "disjunct:" + frag, db.where(ifs[0]), "the filter guard ignores %s: an expression with only %s configured is written unfiltered" % (what, what), "tests " + what)
    pg = [x for x in texts if "pagetag.filter_args" in x]
    ctx.check(bool(pg) and "pagetag is not None" in pg[0], "page-none-safe", db.where(ifs[0]), "page filter test does not guard against a missing page tag", "guards pagetag is not None")
    ctx.check(len(plain) == 1 and bool(vals), "unfiltered-branch", db.where(ifs[0]), "unfiltered branch does not write node.text", "else: __M_writer(node.text)")
    # Expression parses its filter list with ArgumentList and excludes builtin flags from undeclared names
    ex = db.func("parsetree.Expression.__init__")
    ctx.check("ast.ArgumentList(escapes" in src(ex), "filter-list-parsed", db.where(ex), "the filter list is not parsed as an argument list", "escapes parsed by ArgumentList")
    me = db.func("lexer.Lexer.match_expression")
    t = src(me)
    ctx.check("parse_until_text(True, '\\\\|', '}')" in t and "parse_until_text(True, '}')" in t, "scanner-nesting", db.where(me), "the expression scanner does not watch bracket nesting for | and }", "watch_nesting=True for both scans")


# the documented flag names (docs/filtering.rst) and what they denote
FLAGS = {"x": "filters.xml_escape", "h": "filters.html_escape", "u": "filters.url_escape", "trim": "filters.trim", "entity": "filters.html_entities_escape",
         "unicode": "str", "str": "str", "decode": "decode", "n": "n"}


@rule("C02.flag-table", min_instances=12)
def flag_table(ctx):
    """the built-in flag names denote the documented functions: DEFAULT_ESCAPES maps each flag to the documented name, that name is what filters.py defines, and the emitted module imports `filters`"""
    db = ctx.db
    tbl = db.module_assign("filters", "DEFAULT_ESCAPES")
    ctx.require(isinstance(tbl, ast.Dict), "filters.DEFAULT_ESCAPES is not a dict literal")
    have = {const(k): const(v) for k, v in zip(tbl.keys, tbl.values)}
    for k, v in FLAGS.items():
        ctx.check(have.get(k) == v, "flag:" + k, db.where(tbl), "flag `%s` denotes %r, documented as %s" % (k, have.get(k), v), "%s -> %s" % (k, v))
    extra = sorted(set(have) - set(FLAGS))
    ctx.note("additional_flags", extra)
    # what the names are bound to in filters.py
    m = db.mod("filters")
    he = db.module_assign("filters", "html_escape")
    ctx.check(dotted(he) == "markupsafe.escape", "denotes:h", db.where(he), "html_escape is %s" % src(he), "markupsafe.escape")
    ue = db.func("filters.url_escape")
    ctx.check(P.has(ue, "$s = %s.encode('utf8')\nreturn quote_plus($s)" % pn(ue, 0)) or P.has(ue, "return quote_plus(%s.encode('utf8'))" % pn(ue, 0)), "denotes:u", db.where(ue), "url_escape is not quote_plus of the UTF-8 octets", "quote_plus(utf-8 octets)")
    tr = db.func("filters.trim")
    ctx.check(P.has(tr, "return %s.strip()" % pn(tr, 0)), "denotes:trim", db.where(tr), "trim is not str.strip()", "string.strip()")
    en = db.module_assign("filters", "html_entities_escape")
    ctx.check(src(en) == "_html_entities_escaper.escape_entities", "denotes:entity", db.where(en), "html_entities_escape is %s" % src(en), "escape_entities of the HTML entity table")
    wt = db.func("codegen._GenerateRenderMethod.write_toplevel")
    imp = [a_ for a_ in line_sources(wt) if const(a_) and str(const(a_)).startswith("from mako import") and "filters" in str(const(a_))]
    ctx.check(bool(imp), "module-imports-filters", db.where(wt), "generated modules do not import mako.filters: the `filters.` names the flags denote are unbound", "from mako import ... filters ...")


@rule("C02.filter-list-top-level", min_instances=1)
def filter_list_top_level(ctx):
    """the filters of `${x | f, g(a, (b, c))}` are the elements of the *outermost* tuple of the parsed list: the code that takes that tuple apart does not descend into the elements (a tuple inside a filter call's arguments is an argument, not two more filters)"""
    db = ctx.db
    al = db.func("ast.ArgumentList.__init__")
    pm = db.mod("pyparser")
    n = 0
    # (a) a visitor class with visit_Tuple used by ArgumentList
    used = {c.func.attr for c in walk_func(al) if isinstance(c, ast.Call) and isinstance(c.func, ast.Attribute) and dotted(c.func.value) == "pyparser"} | \
           {c.func.id for g in db.with_helpers(al) for c in walk_func(g) if isinstance(c, ast.Call) and isinstance(c.func, ast.Name)}
    for cd in pm.tree.body:
        if isinstance(cd, ast.ClassDef) and cd.name in used:
            vt = [m for m in cd.body if isinstance(m, ast.FunctionDef) and m.name == "visit_Tuple"]
            if not vt:
                continue
            n += 1
            deeper = [c for c in walk_func(vt[0]) if isinstance(c, ast.Call) and isinstance(c.func, ast.Attribute) and c.func.attr in ("generic_visit", "visit") and dotted(c.func.value) in ("self", "super()")]
            ctx.check(not deeper, "visitor:%s" % cd.name, db.where(vt[0]),
                      "%s.visit_Tuple goes on into the elements (`%s`): the elements of a tuple nested in a filter call's arguments are added to the list of filters" % (cd.name, src(deeper[0]) if deeper else ""),
                      "visit_Tuple takes the elements of the tuple it is given and stops")
    # (b) a function that collects `.elts`
    for g in [f for f in pm.tree.body if isinstance(f, ast.FunctionDef) and f.name in used] + [g_ for g_ in db.with_helpers(al) if g_ is not al]:
        elts = [a for a in walk_func(g) if isinstance(a, ast.Attribute) and a.attr == "elts"]
        if not elts:
            continue
        n += 1
        walks = [c for c in walk_func(g) if isinstance(c, ast.Call) and (dotted(c.func) or "").split(".")[-1] in ("walk", "iter_child_nodes")]
        rec = [c for c in walk_func(g) if isinstance(c, ast.Call) and isinstance(c.func, ast.Name) and c.func.id == g.name]
        ctx.check(not walks and not rec, "collector:%s" % g.name, db.where(g),
                  "%s collects the elements of every tuple it finds while walking the whole expression (`%s`): the elements of a tuple nested in a filter call's arguments are added to the list of filters" % (g.name, src((walks or rec)[0]) if (walks or rec) else ""),
                  "only the tuple at the top is taken apart")
    ctx.require(n >= 1, "ArgumentList: the code that takes the parsed tuple apart was not found in pyparser (anchor)")
