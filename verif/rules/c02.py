"""C02 - expression substitution applies the filter pipeline in the documented order.

Decided: for every assignment of create_filter_callable's guard atoms the
final filter list in concatenation normal form (D + P + L, with `n` rules),
the nesting order of the emitted calls, which sites apply expression
defaults, the three-way guard of visitExpression, resolution of built-in
flags.  The expression scanner (parse_until_text) on arbitrary nesting and
re-emission of filter arguments (C19) are not decided."""

import ast

from ..core import rule, AnalysisError
from ..engine import pattern as P
from ..engine.facts import dotted, const, src, walk_func, enclosing_stmt
from .common import calls, pn, access_paths
from . import c10  # xml-table (what the `x` flag denotes) is registered for C02 there


def _component(e):
    t = src(e)
    if t == "args":
        return None
    if t == "self.compiler.pagetag.filter_args.args":
        return "P"
    if t == "self.compiler.default_filters":
        return "D"
    if "pagetag.filter_args.args" in t:
        return "P~"  # a derived (filtered / reordered) form of the page filters
    if "default_filters" in t:
        return "D~"
    return "?" + t


def _paths(stmts, state, conds, out):
    """enumerate paths of the prologue of create_filter_callable.
    state: list of components of `args` (front to back); conds: list of (test text, bool)"""
    if not stmts:
        out.append((list(state), list(conds)))
        return
    s, rest = stmts[0], stmts[1:]
    if isinstance(s, ast.If):
        # test may mention `args`: record the value of args at the test
        t = src(s.test)
        snap = "+".join(state)
        _paths(list(s.body) + rest, list(state), conds + [(t, True, snap)], out)
        _paths(list(s.orelse) + rest, list(state), conds + [(t, False, snap)], out)
        return
    if isinstance(s, ast.Assign) and src(s.targets[0]) == "args":
        v = s.value
        if isinstance(v, ast.BinOp) and isinstance(v.op, ast.Add):
            l, r = _component(v.left), _component(v.right)
            if l is not None and r is None:
                _paths(rest, [l] + state, conds, out)
                return
            if l is None and r is not None:
                _paths(rest, state + [r], conds, out)
                return
        raise AnalysisError("create_filter_callable: assignment `%s` not understood" % src(s))
    if isinstance(s, (ast.FunctionDef, ast.Expr, ast.Pass)):
        _paths(rest, state, conds, out)
        return
    if isinstance(s, ast.For):
        out.append((list(state), list(conds)))
        return
    raise AnalysisError("create_filter_callable: statement %s not understood" % type(s).__name__)


@rule("C02.compose", min_instances=5)
def compose(ctx):
    """create_filter_callable: default filters D and page filters P are prepended (D + P + L) only for expressions; `n` among the local filters disables both, `n` in the page filters disables D"""
    db = ctx.db
    fn = db.func("codegen._GenerateRenderMethod.create_filter_callable")
    body = [s for s in fn.body if not (isinstance(s, ast.Expr) and isinstance(s.value, ast.Constant))]
    paths = []
    _paths(body, ["L"], [], paths)
    ctx.note("paths", [("+".join(st), [(t, v) for t, v, _ in cs]) for st, cs in paths])
    where = db.where(fn)

    def atom(cs, frag, idx=0):
        hits = [(v, snap) for t, v, snap in cs if frag in t]
        return hits[idx] if len(hits) > idx else None
    seen = set()
    for st, cs in paths:
        final = "+".join(st)
        n_first = atom(cs, "'n' not in args", 0)
        is_expr = atom(cs, "is_expression")
        page = atom(cs, "self.compiler.pagetag")
        dflt = atom(cs, "self.compiler.default_filters")
        key = "path[%s]" % ",".join("%s=%d" % (t.replace("self.compiler.", "")[:28], v) for t, v, _ in cs)
        if key in seen:
            continue
        seen.add(key)
        ok = True
        why = ""
        if n_first is None:
            ok, why = False, "no outer `\"n\" not in args` test: n among the expression's filters does not disable defaults"
        elif not n_first[0]:
            ok, why = final == "L", "with n among the local filters the list must stay L"
        elif is_expr is None or not is_expr[0]:
            ok, why = final == "L", "nothing may be added for non-expression filters (def/block/<%%text>/buffer_filters)"
        else:
            want = ["L"]
            if page is not None and page[0]:
                want = ["P"] + want
            # the combined test `default_filters and "n" not in args` shows up as one atom
            d_on = None
            for t, v, snap in cs:
                if "default_filters" in t:
                    d_on = (v, snap, t)
            if d_on is not None and d_on[0]:
                want = ["D"] + want
                # the n test guarding D must look at P+L when a page tag is present
                if "'n' not in args" not in d_on[2]:
                    ok, why = False, "default filters are added without testing for n in the page filters"
                elif page is not None and page[0] and d_on[1] != "P+L":
                    ok, why = False, "the n test guarding the default filters looks at %s instead of page+local filters" % d_on[1]
            if ok:
                ok, why = final == "+".join(want), "expected %s" % "+".join(want)
        ctx.check(ok, key, where, "final filter list is %s: %s" % (final, why), "final list %s" % final)
    for st, cs in paths:
        for comp in st:
            if comp.endswith("~"):
                ctx.violation("component:" + comp, where, "the %s filters are not prepended as configured but in a derived form (some are dropped, reordered or de-duplicated): the pipeline is no longer f2(f1(P(D(value))))" % ("default" if comp.startswith("D") else "page"))
    finals = {"+".join(st) for st, cs in paths}
    ctx.check({"L", "P+L", "D+P+L", "D+L"} <= finals, "all-forms", where, "reachable filter lists %s lack one of L, P+L, D+L, D+P+L" % sorted(finals), sorted(finals))


@rule("C02.wrap-order", min_instances=4)
def wrap_order(ctx):
    """each later filter becomes the outer call; `n` itself is never emitted; function-call filters keep their arguments"""
    db = ctx.db
    fn = db.func("codegen._GenerateRenderMethod.create_filter_callable")
    loops = [n for n in fn.body if isinstance(n, ast.For)]
    argsp, targetp = pn(fn, 1), pn(fn, 2)
    ctx.require(loops and src(loops[0].iter) == argsp and isinstance(loops[0].target, ast.Name), "create_filter_callable: `for e in args` not found")
    lp = loops[0]
    ev = lp.target.id
    tg = [s for s in ast.walk(lp) if isinstance(s, ast.Assign) and src(s.targets[0]) == targetp]
    ok = bool(tg) and any(n_ is tg[-1] for n_, _e in P.find(lp, "%s = '%%s(%%s)' %% (%s, %s)" % (targetp, ev, targetp)))
    ctx.check(ok, "fold", db.where(lp), "the fold is `%s`: the previous target must be the argument of the next filter" % (src(tg[-1]) if tg else None), 'target = "%s(%s)" % (e, target)')
    ctx.check(tg and tg[-1] in lp.body, "fold-every-filter", db.where(lp), "the fold is conditional", "applied for every filter")
    first = lp.body[0]
    ctx.check(isinstance(first, ast.If) and P.has(first.test, "%s == 'n'" % ev) and isinstance(first.body[0], ast.Continue), "n-skipped", db.where(lp), "`n` is not skipped", "`n` never emitted")
    rets = [r for r in fn.body if isinstance(r, ast.Return)]
    ctx.check(bool(rets) and src(rets[-1].value) == targetp, "returns-target", db.where(fn), "returns %s" % (src(rets[-1].value) if rets else None), "returns the folded target")
    le = db.func("codegen._GenerateRenderMethod.create_filter_callable.locate_encode")
    t = src(le)
    ctx.check(P.has(le, "'filters.' + $n") and P.has(le, "filters.DEFAULT_ESCAPES.get($n, $n)") and "decode" in t, "locate", db.where(le), "locate_encode no longer maps decode.<enc> to filters.decode.<enc> and other names through DEFAULT_ESCAPES (unknown names unchanged)", "decode.x -> filters.decode.x ; flag -> DEFAULT_ESCAPES ; other name unchanged")
    t = src(lp)
    ctx.check(P.has(lp, "($i, $a) = $m.group(1, 2)\n$f = locate_encode($i)\n$e = $f + $a"), "call-filters", db.where(lp), "filters written as calls lose their arguments or are not resolved by name", "name resolved, arguments kept")
    wt = db.func("codegen._GenerateRenderMethod.write_toplevel")
    imp = [c for c in calls(wt, "self.printer.writeline") if const(c.args[0]) and str(const(c.args[0])).startswith("from mako import")]
    ok = bool(imp) and {"runtime", "filters", "cache"} <= set(const(imp[0].args[0]).replace("from mako import", "").replace(" ", "").split(","))
    ctx.check(ok, "emitted-import", db.where(wt), "generated modules do not import runtime, filters and cache", "from mako import runtime, filters, cache")


@rule("C02.sites", min_instances=6)
def sites(ctx):
    """expression defaults apply only at ${...} and call tags; def/block/<%text> filters and buffer_filters are applied without them, exactly where the content is returned/written"""
    db = ctx.db
    cg = db.mod("codegen")
    expect_true = {"visitExpression", "visitCallTag"}
    n = 0
    for c in ast.walk(cg.tree):
        if isinstance(c, ast.Call) and dotted(c.func) == "self.create_filter_callable":
            n += 1
            f = getattr(c, "_func", None)
            name = f.name if f is not None else "?"
            flag = const(c.args[2]) if len(c.args) > 2 else None
            arg0 = src(c.args[0])
            if name in expect_true:
                ctx.check(flag is True, "%s:is_expression" % name, db.where(c), "%s applies filters with is_expression=%s: default/page filters are skipped for expressions" % (name, flag), "is_expression=True")
            else:
                ctx.check(flag is False, "%s:%s" % (name, arg0[:30]), db.where(c), "%s applies `%s` with is_expression=%s: defaults/page filters leak into def/block/text/buffer filtering" % (name, arg0, flag), "is_expression=False")
    ctx.require(n >= 6, "expected >=6 create_filter_callable sites, found %d" % n)
    ve = db.func("codegen._GenerateRenderMethod.visitExpression")
    c = calls(ve, "self.create_filter_callable")
    ctx.check(bool(c) and src(c[0].args[0]) == "node.escapes_code.args", "expression.local-filters", db.where(ve), "expression filters are %s" % (src(c[0].args[0]) if c else None), "local filters = parsed filter list of the expression")
    df = db.func("codegen._GenerateRenderMethod.write_def_finish")
    bf = [x for x in calls(df, "self.create_filter_callable") if "buffer_filters" in src(x.args[0])]
    ok = bool(bf) and any(isinstance(a, ast.If) and src(a.test) == "buffered and (not cached)" for a in _anc(bf[0]))
    ctx.check(ok, "buffer_filters.uncached", db.where(df), "buffer_filters are not applied exactly for buffered, uncached defs in write_def_finish", "buffered and not cached")
    wc = db.func("codegen._GenerateRenderMethod.write_cache_decorator")
    bf = [x for x in calls(wc, "self.create_filter_callable") if "buffer_filters" in src(x.args[0])]
    ok = bool(bf) and any(isinstance(a, ast.If) and src(a.test) == "buffered" for a in _anc(bf[0]))
    ctx.check(ok, "buffer_filters.cached", db.where(wc), "buffer_filters are not applied by the cache wrapper of a buffered def", "cached buffered defs: wrapper applies buffer_filters")
    ti = db.func("template.Template.__init__")
    t = src(ti)
    ctx.check(P.has(ti, "if $d is None:\n    self.default_filters = ['str']\nelse:\n    self.default_filters = $d"), "default-str", db.where(ti), "default_filters does not default to ['str']", "default_filters None -> ['str']")


def _anc(n):
    from ..engine.facts import ancestors
    return list(ancestors(n))


@rule("C02.guard", min_instances=3)
def guard(ctx):
    """visitExpression takes the filtered path iff the expression, the page tag or the template configures filters"""
    db = ctx.db
    ve = db.func("codegen._GenerateRenderMethod.visitExpression")
    ifs = [i for i in ve.body if isinstance(i, ast.If)]
    ctx.require(ifs, "visitExpression has no guard")
    t = ifs[0].test
    vals = t.values if isinstance(t, ast.BoolOp) and isinstance(t.op, ast.Or) else [t]
    texts = [src(v) for v in vals]
    for frag, what in (("node.escapes", "the expression's own filters"), ("pagetag.filter_args.args", "<%page expression_filter>"), ("default_filters", "default_filters")):
        ctx.check(any(frag in x for x in texts), "disjunct:" + frag, db.where(ifs[0]), "the filter guard ignores %s: an expression with only %s configured is written unfiltered" % (what, what), "tests " + what)
    pg = [x for x in texts if "pagetag.filter_args" in x]
    ctx.check(bool(pg) and "pagetag is not None" in pg[0], "page-none-safe", db.where(ifs[0]), "page filter test does not guard against a missing page tag", "guards pagetag is not None")
    els = ifs[0].orelse
    ctx.check(bool(els) and "__M_writer(%s)" in src(els[0]) and "node.text" in src(els[0]), "unfiltered-branch", db.where(ifs[0]), "unfiltered branch does not write node.text", "else: __M_writer(node.text)")
    # Expression parses its filter list with ArgumentList and excludes builtin flags from undeclared names
    ex = db.func("parsetree.Expression.__init__")
    ctx.check("ast.ArgumentList(escapes" in src(ex), "filter-list-parsed", db.where(ex), "the filter list is not parsed as an argument list", "escapes parsed by ArgumentList")
    me = db.func("lexer.Lexer.match_expression")
    t = src(me)
    ctx.check("parse_until_text(True, '\\\\|', '}')" in t and "parse_until_text(True, '}')" in t, "scanner-nesting", db.where(me), "the expression scanner does not watch bracket nesting for | and }", "watch_nesting=True for both scans")


# the documented flag names (docs/filtering.rst) and what they denote
FLAGS = {"x": "filters.xml_escape", "h": "filters.html_escape", "u": "filters.url_escape", "trim": "filters.trim", "entity": "filters.html_entities_escape",
         "unicode": "str", "str": "str", "decode": "decode", "n": "n"}


@rule("C02.flag-table", min_instances=12)
def flag_table(ctx):
    """the built-in flag names denote the documented functions: DEFAULT_ESCAPES maps each flag to the documented name, that name is what filters.py defines, and the emitted module imports `filters`"""
    db = ctx.db
    tbl = db.module_assign("filters", "DEFAULT_ESCAPES")
    ctx.require(isinstance(tbl, ast.Dict), "filters.DEFAULT_ESCAPES is not a dict literal")
    have = {const(k): const(v) for k, v in zip(tbl.keys, tbl.values)}
    for k, v in FLAGS.items():
        ctx.check(have.get(k) == v, "flag:" + k, db.where(tbl), "flag `%s` denotes %r, documented as %s" % (k, have.get(k), v), "%s -> %s" % (k, v))
    extra = sorted(set(have) - set(FLAGS))
    ctx.note("additional_flags", extra)
    # what the names are bound to in filters.py
    m = db.mod("filters")
    he = db.module_assign("filters", "html_escape")
    ctx.check(dotted(he) == "markupsafe.escape", "denotes:h", db.where(he), "html_escape is %s" % src(he), "markupsafe.escape")
    ue = db.func("filters.url_escape")
    ctx.check(P.has(ue, "$s = %s.encode('utf8')\nreturn quote_plus($s)" % pn(ue, 0)) or P.has(ue, "return quote_plus(%s.encode('utf8'))" % pn(ue, 0)), "denotes:u", db.where(ue), "url_escape is not quote_plus of the UTF-8 octets", "quote_plus(utf-8 octets)")
    tr = db.func("filters.trim")
    ctx.check(P.has(tr, "return %s.strip()" % pn(tr, 0)), "denotes:trim", db.where(tr), "trim is not str.strip()", "string.strip()")
    en = db.module_assign("filters", "html_entities_escape")
    ctx.check(src(en) == "_html_entities_escaper.escape_entities", "denotes:entity", db.where(en), "html_entities_escape is %s" % src(en), "escape_entities of the HTML entity table")
    wt = db.func("codegen._GenerateRenderMethod.write_toplevel")
    imp = [c for c in calls(wt, "self.printer.writeline") if const(c.args[0]) and str(const(c.args[0])).startswith("from mako import") and "filters" in str(const(c.args[0]))]
    ctx.check(bool(imp), "module-imports-filters", db.where(wt), "generated modules do not import mako.filters: the `filters.` names the flags denote are unbound", "from mako import ... filters ...")
