"""C11 - compile-time errors name the template and the line of the fault.

Decided: every embedded-Python parse and every raise of a Mako syntax/compile
exception carries the owning node's source / line / pos / filename; only Mako
exception classes are raised on the compile path; the line offset of each
wrapped fragment equals minus the newlines prepended; scanners save the start
position before scanning; fragments that can start on a later line than their
node are parsed with an offset; all construction paths pass filename and
source.  The line value for every layout (it depends on the regexes' matches)
is not decided."""

import ast

from ..core import rule, AnalysisError
from ..engine import flow
from ..engine import pattern as P
from ..engine.facts import dotted, const, src, walk_func, str_value, enclosing_stmt, ancestors
from .common import calls, raise_names, contains, pn, access_paths, assigned_from, branch_paths, keyed_values, resolve, resolve_deep, fragment_completions
from .common import _fold_not as _fold
from . import c12  # line-split-agreement is registered for C11 there
from . import c01  # line-count (line and column bookkeeping of match_reg) is registered for C11 there
from . import c05  # attribute-pieces is registered for C11 there

PARSERS = {"ast.PythonCode", "ast.PythonFragment", "ast.ArgumentList", "ast.FunctionDecl", "ast.FunctionArgs",
           "PythonCode", "PythonFragment", "ArgumentList", "FunctionDecl", "FunctionArgs", "pyparser.parse"}
POS_EXC = {"CompileException", "SyntaxException"}


def _has_kwargs_splat(call, allowed_roots=("self", "node", "kwargs")):
    """call passes **X.exception_kwargs / **exception_kwargs / the four explicit fields"""
    for k in call.keywords:
        if k.arg is None:
            t = src(k.value)
            if "exception_kwargs" in t or t == "kwargs":
                return t
            kv = k.value
            fn_ = getattr(call, "_func", None)
            if isinstance(kv, ast.Name) and fn_ is not None:
                # a local that names the mapping
                kv = resolve(fn_, kv)
                if "exception_kwargs" in src(kv) and not isinstance(kv, ast.Call):
                    return src(kv)
            if isinstance(kv, ast.Dict):
                if any(x is None and "exception_kwargs" in src(v) for x, v in zip(kv.keys, kv.values)):
                    return src(kv)
            if isinstance(kv, ast.Call) and "_adjust_lineno" in src(kv.func):
                return src(kv)
    names = {k.arg for k in call.keywords if k.arg}
    if {"source", "lineno", "pos", "filename"} <= names:
        return "explicit keywords"
    return None


@rule("C11.position-carried", min_instances=40)
def position_carried(ctx):
    """every parse of embedded Python receives the owning node's position, and every raise of CompileException / SyntaxException carries a node's or the lexer's source, line, column and filename"""
    db = ctx.db
    n_parse = 0
    for mn in ("parsetree", "lexer", "ast", "codegen"):
        m = db.mod(mn)
        for c in ast.walk(m.tree):
            if not isinstance(c, ast.Call):
                continue
            nm = dotted(c.func)
            if nm in PARSERS or (nm == "super().__init__" and getattr(getattr(c, "_func", None), "_qual", "").startswith("ast.")):
                f = getattr(c, "_func", None)
                q = getattr(f, "_qual", "<module>")
                if nm == "super().__init__" and not q.startswith(("ast.PythonFragment", "ast.FunctionArgs")):
                    continue
                n_parse += 1
                kw = _has_kwargs_splat(c)
                if q == "codegen._GenerateRenderMethod.write_toplevel" and nm == "ast.PythonCode":
                    # template-level `imports` option: not template text, labelled explicitly
                    names = {k.arg: k.value for k in c.keywords}
                    ctx.check("filename" in names and "lineno" in names, "parse:%s@%s" % (nm, q), db.where(c), "imports are parsed without a label", "labelled 'template defined imports'")
                    continue
                ctx.check(kw is not None, "parse:%s@%s:%d" % (nm.split(".")[-1], q.split(".", 1)[-1], c.lineno - getattr(f, "lineno", 0)), db.where(c),
                          "%s in %s is called without the node's exception_kwargs: a syntax error in this fragment is reported without template name/line" % (nm, q), "carries %s" % kw)
    ctx.require(n_parse >= 18, "expected >=18 embedded-Python parse sites, found %d" % n_parse)
    n_raise = 0
    for mn in ("lexer", "parsetree", "codegen", "pyparser", "ast"):
        m = db.mod(mn)
        for r in ast.walk(m.tree):
            if not isinstance(r, ast.Raise) or not isinstance(r.exc, ast.Call):
                continue
            nm = dotted(r.exc.func) or ""
            if nm.split(".")[-1] not in POS_EXC:
                continue
            n_raise += 1
            c = r.exc
            f = getattr(r, "_func", None)
            q = getattr(f, "_qual", "<module>")
            kw = _has_kwargs_splat(c)
            positional = len(c.args) == 5
            key = "raise:%s@%s:%d" % (nm.split(".")[-1], q.split(".", 1)[-1], r.lineno - getattr(f, "lineno", 0))
            if kw is None and not positional:
                ctx.violation(key, db.where(r), "%s raised in %s without source/line/pos/filename" % (nm, q))
                continue
            # in _Identifiers the position must be that of the offending node
            if q.startswith("codegen._Identifiers") and kw is not None:
                ctx.check(kw.strip() == "node.exception_kwargs", key, db.where(r), "error in %s carries %s instead of the offending node's position" % (q, kw), "offending node's position")
                continue
            if positional:
                a = [src(x) for x in c.args[1:]]
                # the source text handed on derives from the function's own input (a parameter or the lexer's text)
                fparams = {p_.arg for p_ in f.args.args} if f is not None else set()
                r0 = resolve_deep(f, c.args[1], 3) if f is not None else c.args[1]
                from_input = any((isinstance(x_, ast.Name) and x_.id in fparams - {"self", "filename"}) or (isinstance(x_, ast.Attribute) and src(x_) in ("self.text", "self.source")) for x_ in ast.walk(r0))
                ok = from_input and a[3] in ("filename", "self.filename")
                ctx.check(ok, key, db.where(r), "explicit position fields look wrong: %s" % a, "explicit fields %s" % a)
                continue
            ctx.ok(key, db.where(r), "carries %s" % kw)
    ctx.require(n_raise >= 25, "expected >=25 positioned raises, found %d" % n_raise)
    # Node.exception_kwargs / Lexer.exception_kwargs expose the four fields
    for q in ("parsetree.Node.exception_kwargs", "lexer.Lexer.exception_kwargs"):
        fn = db.func(q)
        d = [x for x in walk_func(fn) if isinstance(x, ast.Dict)]
        keys = {const(k) for k in d[0].keys} if d else set()
        ctx.check(keys == {"source", "lineno", "pos", "filename"}, "kwargs:" + q, db.where(fn), "%s exposes %s" % (q, sorted(keys)), "source, lineno, pos, filename")
    lk = db.func("lexer.Lexer.exception_kwargs")
    d = [x for x in walk_func(lk) if isinstance(x, ast.Dict)][0]
    vals = {const(k): src(v) for k, v in zip(d.keys, d.values)}
    ctx.check(vals.get("lineno") == "self.matched_lineno" and vals.get("pos") == "self.matched_charpos" and vals.get("source") == "self.text" and vals.get("filename") == "self.filename", "lexer-kwargs-values", db.where(lk), "lexer position is %s" % vals, "position of the last match")
    an = db.func("lexer.Lexer.append_node")
    t = src(an)
    ctx.check(P.has(an, "$k.setdefault('lineno', self.matched_lineno)") and P.has(an, "$k.setdefault('pos', self.matched_charpos)") and P.has(an, "$k.setdefault('source', self.text)") and P.has(an, "$k['filename'] = self.filename"), "node-position", db.where(an), "nodes are not created with the position of their match", "nodes get source/lineno/pos/filename")


MAKO_EXC_OK = {"exceptions.CompileException", "exceptions.SyntaxException", "exceptions.MakoException", "exceptions.NameConflictError",
               "exceptions.RuntimeException", "exceptions.UnsupportedError"}


@rule("C11.error-discipline", min_instances=20)
def error_discipline(ctx):
    """every raise on the compile path (lexer, parse tree, fragment parsers, code generator, printer) raises a Mako exception class"""
    db = ctx.db
    n = 0
    for mn in ("lexer", "parsetree", "ast", "pyparser", "codegen", "pygen"):
        m = db.mod(mn)
        for r in ast.walk(m.tree):
            if not isinstance(r, ast.Raise):
                continue
            n += 1
            f = getattr(r, "_func", None)
            q = getattr(f, "_qual", "<module>")
            if r.exc is None:
                ctx.ok("reraise@%s" % q, db.where(r), "re-raise")
                continue
            nm = dotted(r.exc.func) if isinstance(r.exc, ast.Call) else dotted(r.exc)
            key = "raise:%s@%s" % (nm, q.split(".", 1)[-1])
            if nm in MAKO_EXC_OK:
                ctx.ok(key, db.where(r), "Mako exception")
            else:
                ctx.violation("raise:%s#%s" % (q, nm), db.where(r), "%s raises %s on the compile path: the error reaches the user without template name or line and is not a SyntaxException/CompileException" % (q, nm))
    ctx.require(n >= 30, "expected >=30 raise statements on the compile path, found %d" % n)
    pp = db.func("pyparser.parse")
    hs = [h for t in walk_func(pp) if isinstance(t, ast.Try) for h in t.handlers]
    ok = bool(hs) and (hs[0].type is None or src(hs[0].type) in ("Exception", "SyntaxError", "(SyntaxError, ValueError)")) and any(isinstance(x, ast.Raise) and isinstance(x.exc, ast.Call) and dotted(x.exc.func) == "exceptions.SyntaxException" for x in ast.walk(hs[0]))
    ctx.check(ok, "python-syntax-translated", db.where(pp), "a Python syntax error in embedded code is not translated to SyntaxException", "Python's SyntaxError -> SyntaxException")


@rule("C11.offset-algebra", min_instances=7)
def offset_algebra(ctx):
    """where code is wrapped as P + code + Q before parsing, the reported line is base + offset + parsed - 1 with offset = -(newlines in P); stripping leading whitespace adds the stripped newlines"""
    db = ctx.db
    pf = db.func("ast.PythonFragment.__init__")
    def _kwtest(t_):
        if isinstance(t_, ast.Compare) and isinstance(t_.left, ast.Name) and len(t_.comparators) == 1:
            c_ = t_.comparators[0]
            if isinstance(c_, ast.Constant) and isinstance(c_.value, str):
                return [c_.value]
            if isinstance(c_, (ast.List, ast.Tuple, ast.Set)) and all(isinstance(const(e_), str) for e_ in c_.elts):
                return [const(e_) for e_ in c_.elts]
        return None
    sup = [c for c in walk_func(pf) if isinstance(c, ast.Call) and dotted(c.func) == "super().__init__"]
    offkw = [k.value for c in sup for k in c.keywords if k.arg == "lineno_offset"]
    offvar = offkw[0].id if offkw and isinstance(offkw[0], ast.Name) else None
    codevar = pn(pf, 1)
    n = 0
    # one case per keyword (group), however the dispatch is spelled (if/elif chain, guard clauses, constant table)
    passed = True
    for kws, prefix, suffix, off, node_ in fragment_completions(db):
        n += len(kws)
        if prefix is None:
            ctx.violation("fragment[%s]" % ",".join(kws), db.where(node_), "the code handed to the parser for %s is not <prefix> + code + <suffix>" % kws)
            continue
        if off == "absent":
            passed = False
            off = None
        want = -prefix.count("\n")
        ctx.check(off == want, "fragment[%s]" % ",".join(kws), db.where(node_), "fragment is prefixed with %r (%d line(s)) but lineno_offset is %s: errors in such control lines are reported %+d line(s) off" % (prefix, prefix.count("\n"), off, (off or 0) - want), "prefix %r <-> offset %s" % (prefix, off))
    ctx.require(n >= 7, "PythonFragment keyword cases found: %d" % n)
    ctx.check(bool(sup) and passed, "fragment.offset-passed", db.where(pf), "the offset is not handed to PythonCode", "lineno_offset forwarded")
    pc = db.func("ast.PythonCode.__init__")
    t = src(pc)
    ctx.check(P.has(pc, "$s = $c.lstrip()\n...\n$o += $c[:len($c) - len($s)].count('\\n')"), "code.strip-offset", db.where(pc), "leading blank lines stripped from a block are not added to the line offset", "offset += newlines stripped")
    ctx.check(P.has(pc, "$s = $c.lstrip()\n...\n$e = pyparser.parse($s, 'exec', lineno_offset=$o, **$k)"), "code.parse-args", db.where(pc), "PythonCode does not parse the stripped code with the offset", "parse(stripped, lineno_offset=...)")
    # the helper that applies the Python error's line (or, where it was folded back, pyparser.parse itself)
    if db.has("pyparser._adjust_lineno"):
        al = db.func("pyparser._adjust_lineno")
        offp, kwp, excp = pn(al, 1), pn(al, 2), pn(al, 0)
    else:
        al = db.func("pyparser.parse")
        offp = "lineno_offset"
        kwp = al.args.kwarg.arg if al.args.kwarg else "exception_kwargs"
        hs_ = [h_ for t_ in walk_func(al) if isinstance(t_, ast.Try) for h_ in t_.handlers if h_.name]
        excp = hs_[0].name if hs_ else "e"
    vals = keyed_values(al, "lineno")
    val = vals[-1] if vals else None
    b_ = "%s.get('lineno')" % kwp
    forms = []
    for x_ in ("getattr(%s, 'lineno', None)" % excp, "%s.lineno" % excp):
        forms += [f_ % dict(b=b_, o=offp, x=x_) for f_ in ("%(b)s + %(o)s + %(x)s - 1", "%(b)s + %(o)s + (%(x)s - 1)", "%(b)s + %(x)s + %(o)s - 1", "%(b)s + %(x)s - 1 + %(o)s", "%(b)s + (%(o)s + %(x)s - 1)")]
    okf = bool(vals) and all(any(P.matches(resolve_deep(al, v_), f_) for f_ in forms) for v_ in vals)
    val = src(val) if val is not None else None
    ctx.check(okf, "adjust.formula", db.where(al), "reported line is %s, expected base + offset + parsed - 1" % val, "base + offset + parsed - 1")
    pp = db.func("pyparser.parse")
    ctx.check(P.has(pp, "_adjust_lineno($e, lineno_offset, exception_kwargs)") or al is pp, "adjust.used", db.where(pp), "pyparser.parse does not adjust the reported line", "adjusted from the Python error's line")


@rule("C11.start-captured", min_instances=6)
def start_captured(ctx):
    """scanners remember where a construct began: parse_until_text raises with the saved start; ${ and <% nodes are created with the position of their opening token"""
    db = ctx.db
    put = db.func("lexer.Lexer.parse_until_text")
    loop = [n for n in walk_func(put) if isinstance(n, ast.While)]
    ctx.require(loop, "parse_until_text: loop not found")
    saves = {src(s.value): src(s.targets[0]) for s in put.body if isinstance(s, ast.Assign) and s.lineno < loop[0].lineno and isinstance(s.targets[0], ast.Name)}
    sl_, sc_ = saves.get("self.matched_lineno"), saves.get("self.matched_charpos")
    # or the keyword arguments of the exception are put together as a whole before the loop
    early_kw = None
    for s in put.body:
        if isinstance(s, ast.Assign) and s.lineno < loop[0].lineno and isinstance(s.targets[0], ast.Name) and isinstance(s.value, ast.Dict):
            kv = {const(k_): src(v_) for k_, v_ in zip(s.value.keys, s.value.values) if k_ is not None}
            if kv.get("lineno") == "self.matched_lineno" and kv.get("pos") == "self.matched_charpos" and any(k_ is None for k_ in s.value.keys):
                early_kw = s.targets[0].id
    if early_kw is not None and sl_ is None and sc_ is None:
        rs = [r for r in walk_func(put) if isinstance(r, ast.Raise)]
        rebound = sum(1 for x in walk_func(put) if isinstance(x, ast.Name) and x.id == early_kw and isinstance(x.ctx, ast.Store)) != 1
        ctx.ok("scan.save-line", db.where(put), "start line stored in the exception's keyword arguments before the loop")
        ctx.ok("scan.save-col", db.where(put), "start column stored in the exception's keyword arguments before the loop")
        ctx.check(bool(rs) and not rebound and isinstance(rs[0].exc, ast.Call) and any(k_.arg is None and isinstance(k_.value, ast.Name) and k_.value.id == early_kw for k_ in rs[0].exc.keywords), "scan.raise-start", db.where(rs[0]) if rs else db.where(put),
                  "an unterminated construct is reported where the scan gave up, not where it began", "raises with the keyword arguments saved at the start")
        sl_ = sc_ = "\0handled"
    if sl_ == "\0handled":
        pass
    else:
        _start_captured_names(ctx, db, put, loop, sl_, sc_)
    _start_captured_rest(ctx, db)


def _start_captured_names(ctx, db, put, loop, sl_, sc_):
    ctx.check(sl_ is not None, "scan.save-line", db.where(put), "the start line is not saved before scanning", "start line saved before the loop")
    ctx.check(sc_ is not None, "scan.save-col", db.where(put), "the start column is not saved before scanning", "start column saved before the loop")
    rs = [r for r in walk_func(put) if isinstance(r, ast.Raise)]
    reassigned = any(isinstance(s, ast.Name) and isinstance(s.ctx, ast.Store) and s.id in (sl_, sc_) for s in ast.walk(loop[0]))
    ctx.check(bool(rs) and sl_ is not None and sc_ is not None and not reassigned and P.has(rs[0], "{**$_, 'lineno': %s, 'pos': %s}" % (sl_, sc_)), "scan.raise-start", db.where(rs[0]) if rs else db.where(put), "an unterminated construct is reported where the scan gave up, not where it began", "raises with the saved start")


def _start_captured_rest(ctx, db):
    for q, opener in (("lexer.Lexer.match_python_block", "<%"), ("lexer.Lexer.match_expression", "${")):
        fn = db.func(q)
        # locals that hold the lexer's position, saved before the scan for the end of the construct starts
        sc = calls(fn, "self.parse_until_text")
        saved = {}
        for s in walk_func(fn):
            if isinstance(s, ast.Assign) and len(s.targets) == 1:
                pairs = list(zip(s.targets[0].elts, s.value.elts)) if isinstance(s.targets[0], ast.Tuple) and isinstance(s.value, ast.Tuple) and len(s.targets[0].elts) == len(s.value.elts) else [(s.targets[0], s.value)]
                for t_, v_ in pairs:
                    if isinstance(t_, ast.Name) and src(v_) in ("self.matched_lineno", "self.matched_charpos") and sc and s.lineno < sc[0].lineno:
                        saved[t_.id] = src(v_)
        restored = {n_.id for n_ in walk_func(fn) if isinstance(n_, ast.Name) and isinstance(n_.ctx, ast.Store) and n_.id in saved}
        n_stores = {k_: sum(1 for n_ in walk_func(fn) if isinstance(n_, ast.Name) and isinstance(n_.ctx, ast.Store) and n_.id == k_) for k_ in saved}
        ok = set(saved.values()) == {"self.matched_lineno", "self.matched_charpos"} and all(v_ == 1 for v_ in n_stores.values())
        ctx.check(ok, "open-position:" + q.split(".")[-1], db.where(fn), "the position of %s is not captured before the scan for its end" % opener, "line/pos of the opening token saved first")
        ap = calls(fn, "self.append_node")
        kw = {k.arg: src(k.value) for k in ap[0].keywords} if ap else {}
        ctx.check(saved.get(kw.get("lineno")) == "self.matched_lineno" and saved.get(kw.get("pos")) == "self.matched_charpos", "node-at-open:" + q.split(".")[-1], db.where(ap[0]) if ap else db.where(fn), "the node is created at %s instead of the opening token's position" % kw, "node created with the saved position")
    ps = db.func("lexer.Lexer.parse")
    t = src(ps)
    ctx.check("self.control_line[-1].lineno" in t and "self.control_line[-1].pos" in t, "unterminated-control", db.where(ps), "an unterminated control keyword is not reported at the line that opened it", "reported at the opening control line")


@rule("C11.sub-span", min_instances=2)
def sub_span(ctx):
    """a fragment that can start on a later line than its node (filter list after `|`, attribute of a multi-line tag) is parsed with a line offset"""
    db = ctx.db
    ex = db.func("parsetree.Expression.__init__")
    c = [x for x in walk_func(ex) if isinstance(x, ast.Call) and dotted(x.func) == "ast.ArgumentList"]
    ctx.require(c, "Expression does not parse its filter list")
    kwt = " ".join(src(k.value) for k in c[0].keywords) + " ".join(k.arg or "" for k in c[0].keywords)
    adjusted = "lineno_offset" in kwt or "_adjust" in kwt or "'lineno'" in kwt
    if adjusted:
        ctx.ok("parse:parsetree.Expression#filter-list-line", db.where(c[0]), "filter list parsed with an adjusted line")
    else:
        ctx.violation("parse:parsetree.Expression#filter-list-line", db.where(c[0]), "the filter list after `|` is parsed with the expression's own position although it can start on a later line (`${ x |\\n f(,) }`): the error is reported on the expression's first line")
    tg = db.func("parsetree.Tag._parse_attributes")
    pcs = [x for x in walk_func(tg) if isinstance(x, ast.Call) and dotted(x.func) == "ast.PythonCode"]
    ctx.require(pcs, "Tag._parse_attributes does not parse attribute expressions")
    kwt = " ".join(src(k.value) for k in pcs[0].keywords) + " ".join(k.arg or "" for k in pcs[0].keywords)
    # PythonCode counts the line terminators it strips in front of the code: an expression that starts on a later line than its
    # `${` must reach it with them
    for pc_ in pcs:
        a0 = resolve_deep(tg, pc_.args[0], 3) if pc_.args else None
        lstripped = a0 is not None and any(isinstance(x_, ast.Call) and isinstance(x_.func, ast.Attribute) and x_.func.attr in ("strip", "lstrip") for x_ in ast.walk(a0))
        ctx.check(not lstripped, "parse:parsetree.Tag#attribute-leading-lines", db.where(pc_), "the attribute expression is stripped on the left (`%s`) before PythonCode sees it: the lines between `${` and the code are not counted and an error in it is reported too early" % (src(a0) if a0 is not None else ""), "expression handed on with its leading line terminators")
    # can a tag span lines?  the tag-start regex allows \s (incl. newline) between attributes
    from .c01 import lexer_match_sites
    from ..engine import rx
    multi = False
    for name, call, pat, fl, dyn in lexer_match_sites(db):
        if name == "match_tag_start" and pat and "<%" in pat.replace("\\", ""):
            sub = rx.parse(pat, fl)
            g2 = rx.find_group(sub, 2)
            if g2 is not None:
                multi = "\n" in rx.chars_in(g2, rx.alphabet([sub]), rx.flags_of(sub))
            break
    if not multi:
        ctx.ok("parse:parsetree.Tag#attribute-line", db.where(pcs[0]), "tags cannot span lines")
    elif "lineno_offset" in kwt or "_adjust" in kwt:
        ctx.ok("parse:parsetree.Tag#attribute-line", db.where(pcs[0]), "attribute expressions parsed with an adjusted line")
    else:
        ctx.violation("parse:parsetree.Tag#attribute-line", db.where(pcs[0]), "a tag may span several lines but its attribute expressions (and name=/args=/filter= code) are parsed with the tag's first line: an error in an attribute on a continuation line is reported on the wrong line (the lexer keeps no attribute positions)")


@rule("C11.same-on-all-paths", min_instances=6)
def same_on_all_paths(ctx):
    """string, file, lookup and module-directory construction all compile with the template's filename and its source text; RichTraceback shows that source and line"""
    db = ctx.db
    ti = db.func("template.Template.__init__")
    c = calls(ti, "_compile_text")
    ctx.check(bool(c) and [src(a) for a in c[0].args] == ["self", "text", "filename"], "string-path", db.where(ti), "string templates are compiled without their filename", "_compile_text(self, text, filename)")
    cf = db.func("template.Template._compile_from_file")
    fnp = pn(cf, 2)
    dvs = assigned_from(cf, "util.read_file(%s)" % fnp)
    for c in calls(cf, "_compile_text"):
        ctx.check(len(c.args) == 3 and src(c.args[0]) == "self" and src(c.args[1]) in dvs and src(c.args[2]) == fnp, "file-path", db.where(c), "file templates compiled as %s" % src(c), "_compile_text(self, data, filename)")
    for i_, c in enumerate(calls(cf, "_compile_module_file")):
        ctx.check(len(c.args) >= 3 and src(c.args[0]) == "self" and src(c.args[1]) in dvs and src(c.args[2]) == fnp, "module-path:%d" % i_, db.where(c), "module-directory templates compiled as %s" % src(c), "_compile_module_file(self, data, filename, ...)")
    cm = db.func("template._compile")
    lx = calls(cm, "template.lexer_cls")
    cg = calls(cm, "codegen.compile")
    ctx.check(bool(lx) and src(lx[0].args[1]) == pn(cm, 2) and bool(cg) and src(cg[0].args[2]) == pn(cm, 2), "filename-threaded", db.where(cm), "filename is not handed to both lexer and code generator", "lexer and generator get filename")
    li = db.func("lexer.Lexer.__init__")
    ctx.check(P.has(li, "self.filename = %s" % pn(li, 2)) and P.has(li, "parsetree.TemplateNode(self.filename)"), "lexer-filename", db.where(li), "the lexer does not keep the filename", "lexer keeps filename")
    ld = db.func("lookup.TemplateLookup._load")
    ctx.check(any(k_.arg == "filename" and P.matches(k_.value, "posixpath.normpath(%s)" % pn(ld, 1)) for c_ in calls(ld, "Template") for k_ in c_.keywords), "lookup-path", db.where(ld), "lookup-loaded templates get no filename", "lookup passes the source file name")
    rt = db.func("exceptions.RichTraceback.__init__")
    t = src(rt)
    ctx.check("isinstance(self.error, (CompileException, SyntaxException))" in t and "self.source = self.error.source" in t and "self.lineno = self.error.lineno" in t, "richtraceback", db.where(rt), "RichTraceback does not take source and line from a compile-time exception", "source/lineno from the exception")
    for cls in ("CompileException", "SyntaxException"):
        fn = db.func("exceptions.%s.__init__" % cls)
        stored = {dotted(s.targets[0])[5:] for s in walk_func(fn) if isinstance(s, ast.Assign) and (dotted(s.targets[0]) or "").startswith("self.")}
        ctx.check({"lineno", "pos", "filename", "source"} <= stored, "exception-fields:" + cls, db.where(fn), "%s stores %s" % (cls, sorted(stored)), "stores lineno, pos, filename, source")
        ctx.check(P.has(fn, "_format_filepos(%s, %s, %s)" % (pn(fn, 3), pn(fn, 4), pn(fn, 5))), "exception-message:" + cls, db.where(fn), "%s message does not name file and line" % cls, "message names file, line, column")


@rule("C11.fragment-unknown-keyword", primary=False, min_instances=1, props=["C01"])
def fragment_unknown_keyword(ctx):
    """a control line whose keyword PythonFragment cannot complete raises CompileException: the 'not found' answer of the keyword dispatch is the one that is tested"""
    db = ctx.db
    pf = db.func("ast.PythonFragment.__init__")
    fns = db.with_helpers(pf)
    gets = []
    for g in fns:
        for a in walk_func(g):
            if isinstance(a, ast.Assign) and len(a.targets) == 1 and isinstance(a.targets[0], ast.Name) and isinstance(a.value, ast.Call) and isinstance(a.value.func, ast.Attribute) and a.value.func.attr == "get" and 1 <= len(a.value.args) <= 2:
                gets.append((g, a))
    raises = [r for g in fns for r in walk_func(g) if isinstance(r, ast.Raise) and isinstance(r.exc, ast.Call) and (dotted(r.exc.func) or "").endswith("CompileException") and "nsupported" in src(r.exc)]
    ctx.require(raises, "PythonFragment.__init__: the 'Unsupported control keyword' exception was not found (anchor)")
    if not gets:
        # an if/elif chain (or a subscript under try/except KeyError): the raise is its last alternative
        ctx.ok("unknown-raises", db.where(raises[0]), "unknown keywords fall to the raising alternative")
        return
    for g, a in gets:
        v = a.targets[0].id
        dflt = a.value.args[1] if len(a.value.args) == 2 else ast.Constant(value=None)
        tests = [i for i in walk_func(g) if isinstance(i, ast.If) and isinstance(i.test, ast.Compare) and len(i.test.ops) == 1 and isinstance(i.test.ops[0], (ast.Is, ast.IsNot, ast.Eq, ast.NotEq))
                 and isinstance(i.test.left, ast.Name) and i.test.left.id == v]
        truthy = [i for i in walk_func(g) if isinstance(i, ast.If) and ((isinstance(i.test, ast.Name) and i.test.id == v) or (isinstance(i.test, ast.UnaryOp) and isinstance(i.test.operand, ast.Name) and i.test.operand.id == v))]
        if not tests and not truthy:
            continue
        for i in tests:
            same = ast.dump(i.test.comparators[0]) == ast.dump(dflt)
            ctx.check(same, "unknown-raises", db.where(i),
                      "the keyword table answers `%s` for an unknown keyword but the result is tested against `%s`: the test never fires, an unsupported control keyword is taken apart like a table row and a raw TypeError / ValueError leaves the lexer instead of CompileException" % (src(dflt), src(i.test.comparators[0])),
                      "the default of the look-up is what the test compares with")
        for i in truthy:
            ctx.ok("unknown-raises", db.where(i), "result tested for truth (rows are non-empty tuples / strings)")
