"""C17 - cached sections run once per key and replay their exact output.

Decided: name agreement between the generator and invalidate_*, the shape of
the cache wrapper for every flag assignment, precedence of cache arguments,
the cache_enabled guard, injectivity of the cache id.  At-most-once execution
over render/invalidate histories and back-end behaviour are not decided."""

import ast

from ..core import rule
from ..engine import emit, cfg as cfgmod
from ..engine import pattern as P
from ..engine.facts import dotted, const, src, walk_func, enclosing_stmt
from . import skeletons as sk
from . import c05  # def-emitter-siblings is registered for C17 there
from . import c08  # identity-key is registered for C17 there
from . import c06  # wiring (`local` is the template's own namespace) is registered for C17 there
from .common import calls, stmt_nodes, pn, access_paths, guards_of, return_leaves, arms, branch_paths, facts_at


def _fmt_left(node):
    """constant format string of a `"..." % x` BinOp"""
    if isinstance(node, ast.BinOp) and isinstance(node.op, ast.Mod) and isinstance(node.left, ast.Constant):
        return node.left.value
    return None


@rule("C17.key-agreement", min_instances=6)
def key_agreement(ctx):
    """cached callables are registered under the names invalidate_body/def/closure use; default key = callable name unless cache_key is given"""
    db = ctx.db
    init = db.func("codegen._GenerateRenderMethod.__init__")
    names = [n for n in walk_func(init) if isinstance(n, ast.Assign) and isinstance(n.targets[0], ast.Name) and ((_fmt_left(n.value) or "").startswith("render_") or str(const(n.value) or "").startswith("render_"))]
    fm = [(_fmt_left(n.value), n) for n in names if _fmt_left(n.value)]
    body = [n for n in names if isinstance(n.value, ast.Constant)]
    ctx.require(fm and body, "codegen.__init__: callable naming not found")
    prefix = fm[0][0]
    bodyname = body[0].value.value
    ctx.check(prefix == "render_%s", "gen.def-name", db.where(fm[0][1]), "top-level defs are named %r" % prefix, "render_%s")
    ctx.check(bodyname == "render_body", "gen.body-name", db.where(body[0]), "body callable is named %r" % bodyname, "render_body")
    inv = db.methods("cache.Cache")
    for meth, expect, what in (("invalidate_body", bodyname, "body"), ("invalidate_def", prefix, "def"), ("invalidate_closure", None, "closure")):
        fn = inv.get(meth)
        ctx.require(fn is not None, "Cache.%s missing" % meth)
        c = [n for n in walk_func(fn) if isinstance(n, ast.Call) and dotted(n.func) == "self.invalidate"]
        ctx.require(c, "Cache.%s does not call self.invalidate" % meth)
        c = c[0]
        key = c.args[0]
        kw = {k.arg: k.value for k in c.keywords}
        dn = kw.get("__M_defname")
        if expect is None:
            ok = src(key) == "name" and dn is not None and src(dn) == "name"
            ctx.check(ok, "invalidate." + what, db.where(c), "invalidate_closure must invalidate (name, __M_defname=name), does %s" % src(c), "key and defname are the bare nested-def name")
        else:
            kv = const(key) if isinstance(key, ast.Constant) else _fmt_left(key)
            dv = const(dn) if isinstance(dn, ast.Constant) else _fmt_left(dn) if dn is not None else None
            ctx.check(kv == expect and dv == expect, "invalidate." + what, db.where(c), "%s invalidates key %r / defname %r, the generator registers %r" % (meth, kv, dv, expect), "key and __M_defname = %r" % expect)
    wc = db.func("codegen._GenerateRenderMethod.write_cache_decorator")
    ck = [n for n in walk_func(wc) if isinstance(n, ast.Assign) and isinstance(n.targets[0], ast.Name) and any(const(x_) == "cache_key" for x_ in ast.walk(n.value))]
    ctx.require(ck, "write_cache_decorator: cachekey not found")
    v = ck[0].value
    ok = isinstance(v, ast.Call) and (dotted(v.func) or "").endswith("parsed_attributes.get") and const(v.args[0]) == "cache_key" and src(v.args[1]) == "repr(%s)" % pn(wc, 2)
    ctx.check(ok, "default-key", db.where(ck[0]), "cache key is %s, not parsed_attributes.get('cache_key', repr(name))" % src(v), "cache_key attribute, else the callable's name")
    # nested defs are cached under their bare name; top-level under render_<name>
    wi = db.func("codegen._GenerateRenderMethod.write_inline_def")
    c = calls(wi, "self.write_cache_decorator")
    ctx.check(bool(c) and src(c[0].args[1]) == "node.funcname", "nested-name", db.where(c[0]) if c else db.where(wi), "nested defs are not cached under node.funcname", "nested: node.funcname")
    wr = db.func("codegen._GenerateRenderMethod.write_render_callable")
    c = calls(wr, "self.write_cache_decorator")
    ctx.check(bool(c) and src(c[0].args[1]) == "name", "toplevel-name", db.where(c[0]) if c else db.where(wr), "top-level callables are not cached under their render_ name", "top-level: name")


@rule("C17.wrapper-skeleton", min_instances=4)
def wrapper_skeleton(ctx):
    """the cache wrapper saves the original before redefining the name and calls _ctx_get_or_create(key, lambda: original(args), context, ..., __M_defname=name) exactly once"""
    db = ctx.db
    S = sk.get(db)
    for s in S.build("write_cache_decorator"):
        a = s.trace.asg
        short = {"buffered": a.get("buffered")}
        for k, v in a.items():
            if "pagetag" in k:
                short["page"] = v
            elif "timeout" in k:
                short["timeout"] = v
        key = "wrapper[%s]" % ",".join("%s=%d" % (k, v) for k, v in sorted(short.items()) if v is not None)
        where = "mako/codegen.py (write_cache_decorator)"
        lines = [e for e in s.trace.events if e[0] in ("LINE", "CALL")]
        if s.tree is None:
            ctx.violation(key + ":wf", where, "wrapper skeleton does not parse:\n" + s.source)
            continue
        first = lines[0]
        ok_save = first[0] == "LINE" and first[1].literal().startswith("__M_") and " = " in first[1].literal() and len(first[1].holes()) == 2 and first[1].holes()[0][1] == first[1].holes()[1][1]
        dline = [e for e in lines if e[0] == "LINE" and e[1].literal().startswith("def ")]
        ok_def = bool(dline) and lines.index(dline[0]) == 1 and dline[0][1].holes()[0][1] == first[1].holes()[0][1]
        useline = [e for e in lines if e[0] == "LINE" and "_ctx_get_or_create" in e[1].literal()]
        probs = []
        if not ok_save:
            probs.append("the original callable is not saved as __M_<name> = <name> before the name is redefined")
        if not ok_def:
            probs.append("the wrapper is not defined under the same name right after saving the original")
        if len(useline) != 1:
            probs.append("_ctx_get_or_create is called %d times" % len(useline))
        else:
            u = useline[0][1]
            lit = u.literal()
            holes = [h[1] for h in u.holes()]
            if "lambda:__M_" not in lit.replace(" ", ""):
                probs.append("the creation function does not call the saved original (__M_<name>)")
            if ", context," not in lit.replace("  ", " "):
                probs.append("the rendering context is not passed")
            if "__M_defname=" not in lit:
                probs.append("__M_defname is not passed")
            if "context.get('local').cache" not in lit:
                probs.append("does not use the local template's cache")
            nm = first[1].holes()[0][1] if first[0] == "LINE" and first[1].holes() else None
            if nm is not None and holes.count(nm) < 2:
                probs.append("saved name / defname differ from the wrapper's name (%s in %s)" % (nm, holes))
            if "cache_key" not in " ".join(holes):
                probs.append("the cache key hole is missing")
        vd = [e for e in lines if e[0] == "CALL" and e[1] == "write_variable_declares"]
        if len(vd) != 1:
            probs.append("the wrapper does not declare its variables (needed for cache_key expressions)")
        elif "limit" not in vd[0][2]:
            probs.append("variable declares are not limited to the names the section reads")
        if probs:
            ctx.violation(key, where, "; ".join(probs) + "\n" + s.source, skeleton=s.source)
        else:
            ctx.ok(key, where, "saves original, redefines, one _ctx_get_or_create(key, lambda: original(...), context, ..., __M_defname=name)")


@rule("C17.arg-precedence", min_instances=5)
def arg_precedence(ctx):
    """page cache_* arguments are overridden by the section's own; Template cache_args by call keywords; timeout -> int; context only when the implementation asks"""
    db = ctx.db
    wc = db.func("codegen._GenerateRenderMethod.write_cache_decorator")
    # every statement that feeds cache_args, in source order, classified by where it reads from
    feeds = []
    cavs = {env_["x"][1].id for _n, env_ in P.find(wc, "$x.items()") if isinstance(env_["x"][1], ast.Name)} & {s_.targets[0].id for s_ in wc.body if isinstance(s_, ast.Assign) and isinstance(s_.targets[0], ast.Name)}
    ctx.require(len(cavs) == 1, "write_cache_decorator: the dictionary of cache arguments was not identified (%s)" % sorted(cavs))
    cav = sorted(cavs)[0]
    own = pn(wc, 1)
    for s_ in walk_func(wc):
        tgt = None
        if isinstance(s_, ast.Assign) and src(s_.targets[0]) == cav:
            tgt = s_.value
        elif isinstance(s_, ast.Expr) and isinstance(s_.value, ast.Call) and dotted(s_.value.func) in (cav + ".update", cav + ".setdefault"):
            tgt = s_.value
        if tgt is None:
            continue
        t_ = src(tgt)
        kind = "page" if "self.compiler.pagetag.parsed_attributes" in t_ else "own" if (own + ".parsed_attributes") in t_ else None
        if kind:
            feeds.append((s_.lineno, kind, s_, "setdefault" in t_))
    feeds.sort(key=lambda f: f[0])
    kinds = [k for _, k, _, _ in feeds]
    ctx.check(kinds == ["page", "own"] and not feeds[1][3], "page-then-own", db.where(feeds[-1][2]) if feeds else db.where(wc),
              "cache arguments are merged in the order %s: the section's own cache_* attributes must be applied last so that they override <%%page>'s" % kinds, "page cache_* first, section's own second")
    ups = [f[2] for f in feeds]
    for u in ups[:2]:
        t = src(u)
        ctx.check("startswith('cache_')" in t and "!= 'cache_key'" in t and "[6:]" in t, "filter:%s" % ("page" if u is ups[0] else "own"), db.where(u), "cache_* attribute selection changed: %s" % t, "cache_* minus cache_key, prefix stripped")
    to = [n for n in walk_func(wc) if isinstance(n, ast.Assign) and src(n.targets[0]) == "%s['timeout']" % cav]
    if to:
        from ..engine.facts import ancestors as _anc
        gd = [a_ for a_ in _anc(to[0]) if isinstance(a_, ast.If)]
        ctx.check(bool(gd) and P.matches(gd[0].test, "'timeout' in %s" % cav) and to[0].lineno > max([f_[0] for f_ in feeds] or [0]), "timeout-int.merged", db.where(to[0]),
                  "the int() conversion of timeout is guarded by `%s`, not by the merged arguments holding a timeout: a timeout inherited from <%%page> reaches the backend as a string" % (src(gd[0].test) if gd else "nothing"), "converted whenever the merged arguments hold a timeout, after both sources were merged")
    ctx.check(bool(to) and isinstance(to[0].value, ast.Call) and dotted(to[0].value.func) == "int", "timeout-int", db.where(to[0]) if to else db.where(wc), "timeout is not converted with int()", "timeout -> int")
    gk = db.func("cache.Cache._get_cache_kw")
    # on every path: what is returned (and what is memoized per section) is a copy of the Template's cache_args updated with the
    # call's keyword arguments, or the memoized result of exactly that
    kwp = pn(gk, 1)
    tca = pn(gk, 0) + ".template.cache_args"
    copies = [n for n in walk_func(gk) if isinstance(n, ast.Call) and src(n) == tca + ".copy()"]
    ctx.require(copies, "_get_cache_kw: template cache_args copy not found")
    paths = branch_paths(gk.body)
    bad, n_merge = [], 0
    for p in paths:
        kind = {}
        for s in p.stmts:
            if isinstance(s, ast.Assign) and len(s.targets) == 1 and isinstance(s.targets[0], ast.Name):
                v, t = s.value, s.targets[0].id
                if src(v) == tca + ".copy()":
                    kind[t] = "template-copy"
                elif isinstance(v, ast.Name):
                    kind[t] = kind.get(v.id)
                elif isinstance(v, ast.Subscript) and src(v.value).endswith("._def_regions"):
                    kind[t] = "memo"
                elif P.matches(v, "$x.copy()") and isinstance(v.func.value, ast.Name):
                    kind[t] = kind.get(v.func.value.id)
                elif P.matches(v, "dict(%s, **%s)" % (tca, kwp)) or P.matches(v, "{**%s, **%s}" % (tca, kwp)):
                    kind[t] = "merged"
                elif P.matches(v, "%s.pop($k, $d)" % kwp) or P.matches(v, "%s.pop($k)" % kwp):
                    pass
                else:
                    kind[t] = None
            elif isinstance(s, ast.Assign) and isinstance(s.targets[0], ast.Subscript) and src(s.targets[0].value).endswith("._def_regions"):
                if not (isinstance(s.value, ast.Name) and kind.get(s.value.id) == "merged"):
                    bad.append((s, "what is memoized for the section is not the merged arguments"))
            elif isinstance(s, ast.Expr) and isinstance(s.value, ast.Call) and isinstance(s.value.func, ast.Attribute) and s.value.func.attr == "update" and isinstance(s.value.func.value, ast.Name):
                t, a = s.value.func.value.id, s.value.args[0] if s.value.args else None
                if kind.get(t) == "template-copy" and a is not None and src(a) == kwp:
                    kind[t] = "merged"
                    n_merge += 1
                elif a is not None and "cache_args" in src(a):
                    bad.append((s, "the Template's cache_args are applied over the call's arguments"))
                    kind[t] = None
            elif isinstance(s, ast.Return):
                if not (isinstance(s.value, ast.Name) and kind.get(s.value.id) in ("merged", "memo")):
                    bad.append((s, "a path returns arguments that are not the Template's cache_args overridden by the call's (%s)" % (kind.get(s.value.id) if isinstance(s.value, ast.Name) else src(s.value))))
    ctx.check(not bad, "template-then-call.all-branches", db.where(bad[0][0]) if bad else db.where(gk), "a branch of _get_cache_kw lets Template cache_args override the call's arguments or drops them: %s" % (bad[0][1] if bad else ""), "on all %d paths: copy of Template cache_args updated with the call's kwargs, or its memo" % len(paths))
    ifs = [n for n in walk_func(gk) if isinstance(n, ast.If) and "pass_context" in src(n.test)]
    # the context is added under `context and impl.pass_context`, to a copy made just before
    okc = False
    for c_ in walk_func(gk):
        if isinstance(c_, ast.Call) and P.matches(c_, "$k.setdefault('context', %s)" % pn(gk, 2)) and isinstance(c_.func.value, ast.Name):
            fa_ = facts_at(c_, gk)
            st_ = enclosing_stmt(c_)
            par_ = getattr(st_, "_parent", None)
            lst_ = next((getattr(par_, f_) for f_ in ("body", "orelse", "finalbody") if isinstance(getattr(par_, f_, None), list) and st_ in getattr(par_, f_)), [])
            prev_ = lst_[lst_.index(st_) - 1] if st_ in lst_ and lst_.index(st_) > 0 else None
            copied = isinstance(prev_, ast.Assign) and isinstance(prev_.targets[0], ast.Name) and prev_.targets[0].id == c_.func.value.id and P.matches(prev_.value, "$x.copy()")
            okc = (pn(gk, 2), True) in fa_ and ("self.impl.pass_context", True) in fa_ and copied
    ctx.check(okc, "context-on-request", db.where(ifs[0]) if ifs else db.where(gk),
              "the context is not passed exactly when the implementation asks (on a private copy of the kwargs)", "context added on a copy iff impl.pass_context")
    pop = [n for n in walk_func(gk) if isinstance(n, ast.Call) and dotted(n.func) == pn(gk, 1) + ".pop" and const(n.args[0]) == "__M_defname"]
    ctx.check(bool(pop), "defname-popped", db.where(gk), "__M_defname is not removed from the keyword arguments handed to the backend", "__M_defname popped")


@rule("C17.enabled-guard", min_instances=2)
def enabled_guard(ctx):
    """cache_enabled=False executes the section every time, before the implementation is touched"""
    db = ctx.db
    fn = db.func("cache.Cache._ctx_get_or_create")
    g = cfgmod.function_cfg(fn)
    impl = calls(fn, "self.impl.get_or_create")
    # the switch is looked at on every call: never through a memoised attribute
    frozen = [m for m in db.cls("cache.Cache").body if isinstance(m, ast.FunctionDef) and any("memoized" in src(d) or "cached_property" in src(d) or "lru_cache" in src(d) for d in m.decorator_list)
              and any(isinstance(a, ast.Attribute) and a.attr == "cache_enabled" for a in walk_func(m))]
    if frozen:
        ctx.violation("switch-read-once", db.where(frozen[0]),
                      "Cache.%s reads template.cache_enabled but is memoised (%s): the switch is looked at the first time a cached section is reached and never again, so cache_enabled=False set afterwards still replays stored entries (and the reverse)" % (frozen[0].name, src(frozen[0].decorator_list[0])))
        return
    ctx.require(impl, "_ctx_get_or_create does not call the implementation")
    en = "self.template.cache_enabled"
    crp = pn(fn, 2)
    leaves = return_leaves(fn)
    direct = [(v_, g_) for v_, g_ in leaves if P.matches(v_, "%s()" % crp)]
    ok = bool(direct) and all((en, False) in g_ for v_, g_ in direct)
    ctx.check(ok, "guard", db.where(direct[0][0]) if direct else db.where(fn), "no `if not cache_enabled: return creation_function()`", "disabled cache calls the creation function directly")
    ctx.check(all((en, True) in guards_of(c_, fn) for c_ in impl), "guard-dominates", db.where(impl[0]), "the implementation is reached without passing the cache_enabled test", "impl.get_or_create only with the cache enabled")
    c = impl[0]
    ctx.check(src(c.args[0]) == "key" and src(c.args[1]) == "creation_function", "impl-args", db.where(c), "backend called with %s" % src(c), "impl.get_or_create(key, creation_function, **kw)")
    goc = db.func("cache.Cache.get_or_create")
    ctx.check(any(dotted(n.func) == "self._ctx_get_or_create" for n in walk_func(goc) if isinstance(n, ast.Call)), "public-delegates", db.where(goc), "get_or_create bypasses the guard", "get_or_create delegates to _ctx_get_or_create")
