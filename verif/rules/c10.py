"""C10 - escaping filters neutralise markup for every input and are invertible.

Decided: agreement of regex character classes with escape tables, coverage
of markup characters and of all non-ASCII by the entity escaper (so the ASCII
encode cannot fail), type flow through the codec error handler, return types
of decode.<enc>, bindings of the small filters.  Behaviour of markupsafe,
urllib and the codecs for every string is trusted; round trips not decided."""

import ast
import re

from ..core import rule, AnalysisError
from ..engine import rx
from ..engine.facts import dotted, const, src, walk_func, str_value
from ..engine import pattern as P
from .common import calls, pn, return_leaves, guards_of, arms, access_paths, resolve, resolve_deep, contains

MARKUP = set("&<>\"'")


def _class_chars(pattern, flags=0):
    """(set of ASCII chars matched by the single-char alternatives, covers_all_non_ascii)"""
    sub = rx.parse(pattern, flags)
    items = list(sub)
    atoms = []

    def collect(seq):
        for op, av in seq:
            if op in rx.CHAR_OPS:
                atoms.append((op, av))
            elif op == rx.OP.BRANCH:
                for a in av[1]:
                    collect(a)
            elif op == rx.OP.SUBPATTERN:
                collect(av[3])
            else:
                raise AnalysisError("pattern %r is not a set of single characters" % pattern)
    collect(items)
    fl = rx.flags_of(sub)
    ascii_hit = {chr(c) for c in range(128) if any(rx.atom_matches(a, chr(c), fl) for a in atoms)}
    nonascii = False
    for op, av in atoms:
        if op == rx.OP.IN and av and av[0][0] == rx.OP.NEGATE:
            rest = av[1:]
            if all(o == rx.OP.RANGE for o, a in rest) and all(a[1] <= 0x7f for o, a in rest):
                nonascii = True
    return ascii_hit, nonascii


@rule("C10.xml-table", min_instances=4, props=["C02"])
def xml_table(ctx):
    """xml_escape's character class equals the key set of xml_escapes, covers & < > \" ', and no replacement contains a raw markup character"""
    db = ctx.db
    tbl = db.module_assign("filters", "xml_escapes")
    ctx.require(isinstance(tbl, ast.Dict), "filters.xml_escapes is not a dict literal")
    keys = {const(k) for k in tbl.keys}
    vals = {const(k): const(v) for k, v in zip(tbl.keys, tbl.values)}
    ctx.check(MARKUP <= keys, "table.covers-markup", db.where(tbl), "xml_escapes lacks %s" % sorted(MARKUP - keys), "keys %s" % sorted(keys))
    fn = db.func("filters.xml_escape")
    subs = [c for c in walk_func(fn) if isinstance(c, ast.Call) and dotted(c.func) == "re.sub"]
    pat = None
    if subs:
        pat = str_value(subs[0].args[0])
        repl_arg, input_arg = subs[0].args[1], subs[0].args[2]
    else:
        # compiled pattern: <name>.sub(repl, string)
        subs = [c for c in walk_func(fn) if isinstance(c, ast.Call) and isinstance(c.func, ast.Attribute) and c.func.attr == "sub" and isinstance(c.func.value, ast.Name)]
        if not subs:
            ctx.violation("substitution", db.where(fn), "xml_escape no longer substitutes through the xml_escapes table (it returns %s): the `x` flag does not denote the documented, invertible five-character escape for every value" % "; ".join(src(r_.value) for r_ in walk_func(fn) if isinstance(r_, ast.Return) and r_.value is not None))
            return
        v = db.module_assign("filters", subs[0].func.value.id)
        if isinstance(v, ast.Call) and dotted(v.func) == "re.compile":
            pat = str_value(v.args[0])
        repl_arg, input_arg = subs[0].args[0], subs[0].args[1]
    ctx.require(pat is not None, "xml_escape pattern not constant")
    try:
        _class_chars(pat)
    except AnalysisError:
        ctx.violation("class-equals-keys", db.where(subs[0]), "xml_escape's pattern %r is no longer one character class: some occurrences of a markup character (e.g. an & that starts something entity-shaped) are left unescaped, so the output is not invertible and can smuggle entities" % pat)
        return
    chars, _ = _class_chars(pat)
    ctx.check(chars == keys, "class-equals-keys", db.where(subs[0]), "regex class %s != table keys %s: a matched character without a replacement raises KeyError, a key not matched is never escaped" % (sorted(chars), sorted(keys)), "class == keys == %s" % sorted(keys))
    for k, v in vals.items():
        ok = isinstance(v, str) and v.startswith("&") and v.endswith(";") and not (set(v[1:-1]) & (MARKUP | {"&"})) and re.fullmatch(r"&(#\d+|#x[0-9a-fA-F]+|\w+);", v)
        ctx.check(bool(ok), "replacement:%s" % k, db.where(tbl), "replacement %r for %r is not a well-formed entity free of raw markup" % (v, k), "%r -> %r" % (k, v))
    lam = repl_arg
    ctx.check(isinstance(lam, ast.Lambda) and (P.matches(lam, "lambda $m: xml_escapes[$m.group()]") or P.matches(lam, "lambda $m: xml_escapes[$m.group(0)]") or P.matches(lam, "lambda $m: xml_escapes[$m.group(1)]")), "lookup", db.where(subs[0]), "replacement callback is %s" % src(lam), "replacement = xml_escapes[matched char]")
    ctx.check(src(input_arg) == pn(fn, 0), "input", db.where(subs[0]), "re.sub is not applied to the whole input", "applied to the input string")
    he = db.module_assign("filters", "html_escape")
    ctx.check(dotted(he) == "markupsafe.escape", "html_escape", db.where(he), "html_escape is %s" % src(he), "html_escape = markupsafe.escape")


@rule("C10.entity-escaper", min_instances=5)
def entity_escaper(ctx):
    """XMLEntityEscaper: the escapable class covers \" & < > and every non-ASCII character (so .encode('ascii') cannot fail); unknown code points get a numeric reference; the unescape regex accepts every entity name shape"""
    db = ctx.db
    cls = db.cls("filters.XMLEntityEscaper")
    esc = None
    refs = None
    for st in cls.body:
        if isinstance(st, ast.Assign) and isinstance(st.value, ast.Call) and dotted(st.value.func) == "re.compile":
            nm = src(st.targets[0])
            if "escapable" in nm:
                esc = st
            elif "characterrefs" in nm:
                refs = st
    ctx.require(esc is not None and refs is not None, "XMLEntityEscaper regexes not found")
    pat = str_value(esc.value.args[0])
    chars, nonascii = _class_chars(pat)
    ctx.check(set('"&<>') <= chars, "escapable.markup", db.where(esc), "escapable class lacks %s" % sorted(set('"&<>') - chars), "covers \" & < >")
    ctx.check(nonascii, "escapable.non-ascii", db.where(esc), "escapable class does not cover all non-ASCII characters: the final .encode('ascii') raises UnicodeEncodeError for them", "covers [^\\x00-\\x7f]")
    fn = db.func("filters.XMLEntityEscaper.escape")
    r = [n for n in walk_func(fn) if isinstance(n, ast.Return)]
    ctx.check(bool(r) and "__escapable.sub(self.__escape, str(%s))" % pn(fn, 1) in src(resolve_deep(fn, r[0].value, 3)).replace("_XMLEntityEscaper", ""), "escape.applies", db.where(fn), "escape() is %s" % (src(r[0].value) if r else None), "substitutes over str(text)")
    ef = [f for n, f in db.methods("filters.XMLEntityEscaper").items() if n.endswith("__escape")]
    ctx.require(ef, "__escape not found")
    e0 = ef[0]
    ok = P.has(e0, "$c = ord(%s.group())\ntry:\n    return self.codepoint2entity[$c]\nexcept $x:\n    return '&#x%%X;' %% $c" % pn(e0, 1)) or P.has(e0, "$c = ord(%s.group())\n...\nreturn self.codepoint2entity.get($c, '&#x%%X;' %% $c)" % pn(e0, 1))
    if not ok:
        # look-up first, numeric reference when there was nothing: the leaves of the returned value
        lv_ = return_leaves(e0)
        num_ = [(v_, g_) for v_, g_ in lv_ if P.matches(v_, "'&#x%X;' % $c")]
        oth_ = [(v_, g_) for v_, g_ in lv_ if not P.matches(v_, "'&#x%X;' % $c")]
        if len(num_) == 1 and len(oth_) == 1:
            look_ = resolve_deep(e0, oth_[0][0], 3)
            cp_ = resolve_deep(e0, num_[0][0].right, 3)
            nm_ = src(oth_[0][0])
            ok = P.matches(look_, "self.codepoint2entity.get($k)") and P.matches(cp_, "ord(%s.group())" % pn(e0, 1)) and (nm_ + " is None", True) in num_[0][1] and (nm_ + " is None", False) in oth_[0][1]
    ctx.check(ok, "escape.numeric-fallback", db.where(ef[0]), "__escape does not fall back to a numeric character reference for code points without a named entity", "named entity else &#x..;")
    # unescape: numeric decimal, hex and names of length >= 2
    pat = str_value(refs.value.args[0])
    fl = 0
    if len(refs.value.args) > 1:
        from .c01 import _flags_value
        fl = _flags_value(refs.value.args[1])
    sub = rx.parse(pat, fl)
    g3 = rx.find_group(sub, 3)
    ctx.require(g3 is not None, "name group of the unescape regex not found")
    alpha = rx.alphabet([sub], "abzAZ09_:-.")
    first = [it for it in g3 if it[0] in rx.CHAR_OPS]
    ok_first = bool(first) and all(rx.atom_matches(first[0], c, rx.flags_of(sub)) for c in "aZ")
    t = rx.describe(g3)
    ctx.check(ok_first and rx.find_group(sub, 1) is not None and rx.find_group(sub, 2) is not None, "unescape.shapes", db.where(refs), "unescape regex lacks one of decimal / hex / name alternatives: %s" % t, "decimal, hex and name references: %s" % t)
    un = [f for n, f in db.methods("filters.XMLEntityEscaper").items() if n.endswith("__unescape")]
    ctx.require(un, "__unescape not found")
    u0 = un[0]
    # every value returned is chr(<code point>), the code point chosen from the three groups of the match in their order
    grp = [s_ for s_ in walk_func(u0) if isinstance(s_, ast.Assign) and isinstance(s_.targets[0], ast.Tuple) and P.matches(s_.value, "%s.groups()" % pn(u0, 1))]
    names3 = [src(t_) for t_ in grp[0].targets[0].elts] if grp else []
    leaves = return_leaves(u0)
    ok = len(names3) == 3 and bool(leaves)
    for v_, g_ in leaves:
        env = {}
        if not (isinstance(v_, ast.Call) and dotted(v_.func) == "chr" and len(v_.args) == 1):
            ok = False
            continue
        cp = resolve_deep(u0, v_.args[0])
        if not P.matches(cp, "int($d) if $d else int($h, 16) if $h else %s.name2codepoint.get($n, $dflt)" % pn(u0, 0), env):
            ok = False
            continue
        ok = ok and [src(env[k][1]) for k in ("d", "h", "n")] == names3
    ctx.check(ok, "unescape.decode", db.where(un[0]), "__unescape does not decode decimal/hex/named references to chr(codepoint)", "int(d) / int(h,16) / name2codepoint -> chr")
    ee = db.func("filters.XMLEntityEscaper.escape_entities")
    ctx.check("translate(self.codepoint2entity)" in src(ee), "entity.translate", db.where(ee), "escape_entities does not translate through codepoint2entity", "str(text).translate(codepoint2entity)")
    init = db.func("filters.XMLEntityEscaper.__init__")
    # codepoint2entity[c] = '&<name>;' for every (c, name) of the table given: a comprehension or a loop over <param>.items()
    okt = False
    its = [n_ for n_ in ast.walk(init) if isinstance(n_, (ast.comprehension, ast.For)) and P.matches(n_.iter, "%s.items()" % pn(init, 1)) and isinstance(n_.target, ast.Tuple) and len(n_.target.elts) == 2]
    for it_ in its:
        kv, nv = src(it_.target.elts[0]), src(it_.target.elts[1])
        fmt = [b_ for b_ in ast.walk(init) if isinstance(b_, ast.BinOp) and isinstance(b_.op, ast.Mod) and const(b_.left) == "&%s;" and src(b_.right) == nv]
        if not fmt:
            continue
        for n_ in ast.walk(init):
            if isinstance(n_, ast.DictComp) and it_ in n_.generators and src(n_.key) == kv and any(f_ is n_.value or contains(n_.value, f_) for f_ in fmt):
                okt = True
            if isinstance(n_, ast.Assign) and isinstance(n_.targets[0], ast.Subscript) and src(n_.targets[0].slice) == kv and any(f_ is n_.value or contains(n_.value, f_) for f_ in fmt) and isinstance(it_, ast.For):
                okt = True
    ctx.check(okt, "entity.table", db.where(init), "codepoint2entity is not built as &name; from codepoint2name", "&name; for every named code point")
    inst = db.module_assign("filters", "_html_entities_escaper")
    ctx.check(src(inst) == "XMLEntityEscaper(codepoint2name, name2codepoint)", "entity.instance", db.where(inst), "escaper built as %s" % src(inst), "built from html.entities tables")


def _ret_type(fn):
    """definite return type of a tiny function: 'bytes' | 'str' | None"""
    types = set()
    for r in walk_func(fn):
        if isinstance(r, ast.Return) and r.value is not None:
            types.add(_expr_type(r.value, {}))
    return types.pop() if len(types) == 1 else None


def _expr_type(e, env):
    if isinstance(e, ast.Constant):
        return "str" if isinstance(e.value, str) else "bytes" if isinstance(e.value, bytes) else type(e.value).__name__
    if isinstance(e, ast.Name):
        return env.get(e.id)
    if isinstance(e, ast.JoinedStr):
        return "str"
    if isinstance(e, ast.BinOp) and isinstance(e.op, ast.Mod) and _expr_type(e.left, env) == "str":
        return "str"
    if isinstance(e, ast.Call):
        f = e.func
        if isinstance(f, ast.Attribute) and f.attr == "encode":
            return "bytes"
        if isinstance(f, ast.Attribute) and f.attr == "decode":
            return "str"
        if isinstance(f, ast.Attribute) and f.attr in ("sub", "translate", "strip", "join", "replace", "lower", "format"):
            return "str"
        nm = dotted(f)
        if nm == "str":
            if len(e.args) == 1 and not e.keywords:
                inner = _expr_type(e.args[0], env)
                return "str(bytes)" if inner == "bytes" else "str"
            return "str"
        if nm == "bytes":
            return "bytes"
    return None


@rule("C10.handler-type", min_instances=3)
def handler_type(ctx):
    """the htmlentityreplace error handler returns (str, int) built from the escaped text - never the repr of a bytes object - and is registered under the name the HTML error template uses"""
    db = ctx.db
    fn = db.func("filters.htmlentityreplace_errors")
    esc_t = _ret_type(db.func("filters.XMLEntityEscaper.escape"))
    env = {}
    for s in walk_func(fn):
        if isinstance(s, ast.Assign) and isinstance(s.targets[0], ast.Name):
            v = s.value
            t = _expr_type(v, env)
            if t is None and isinstance(v, ast.Call) and (dotted(v.func) or "").endswith("_html_entities_escaper.escape"):
                t = esc_t
            env[s.targets[0].id] = t
    rets = [r for r in walk_func(fn) if isinstance(r, ast.Return)]
    ctx.require(rets and isinstance(rets[0].value, ast.Tuple) and len(rets[0].value.elts) == 2, "handler does not return a 2-tuple")
    first, second = rets[0].value.elts
    t = _expr_type(first, env)
    ctx.note("escape_return_type", esc_t)
    if t == "str(bytes)":
        ctx.violation("type:filters.htmlentityreplace_errors#str-of-bytes", db.where(first),
                      "replacement is `%s` where the argument is bytes (XMLEntityEscaper.escape returns %s): str() of bytes yields its repr, so '\\u20ac'.encode('latin1', 'htmlentityreplace') == b\"b'&euro;'\"" % (src(first), esc_t))
    elif t == "str":
        ctx.ok("type:filters.htmlentityreplace_errors#str-of-bytes", db.where(first), "replacement `%s` has type str" % src(first))
    elif t == "bytes":
        ctx.violation("type:filters.htmlentityreplace_errors#bytes", db.where(first), "replacement has type bytes; a codec error handler for encoding must return str")
    else:
        ctx.undecided("type:filters.htmlentityreplace_errors", db.where(first), "type of `%s` not determined" % src(first))
    exn = pn(fn, 0)
    ctx.check(src(resolve_deep(fn, second, 2)) == exn + ".end", "resume-position", db.where(second), "handler resumes at %s instead of ex.end" % src(second), "resumes at ex.end")
    slices = [src(resolve_deep(fn, x_, 2)) for x_ in walk_func(fn) if isinstance(x_, ast.Subscript) and src(x_.value) == exn + ".object"]
    ctx.check(slices == ["%s.object[%s.start:%s.end]" % (exn, exn, exn)], "bad-text", db.where(fn), "the unencodable slice is not ex.object[ex.start:ex.end]", "escapes exactly the unencodable slice")
    ctx.check(any(isinstance(r, ast.Raise) for r in walk_func(fn)), "other-errors-reraised", db.where(fn), "non-encode errors are not re-raised", "other errors re-raised")
    reg = [c for c in db.all_calls(lambda nm: nm == "codecs.register_error", modules=["filters"])]
    ctx.require(reg, "handler not registered")
    name = const(reg[0].args[0])
    ctx.check(src(reg[0].args[1]) == "htmlentityreplace_errors", "registered-function", db.where(reg[0]), "registered %s" % src(reg[0].args[1]), "registers the handler")
    het = db.func("exceptions.html_error_template")
    used = [const(k.value) for c in walk_func(het) if isinstance(c, ast.Call) for k in c.keywords if k.arg == "encoding_errors"]
    ctx.check(used == [name], "name-agreement", db.where(het), "HTML error template asks for encoding_errors=%s, handler registered as %r" % (used, name), "both use %r" % name)


@rule("C10.decode-type", min_instances=3, props=["C02"])
def decode_type(ctx):
    """decode.<enc> returns str for str, bytes and any other object"""
    db = ctx.db
    ga = db.func("filters.Decode.__getattr__")
    keyp = pn(ga, 1)
    # filters.decode is one module-level instance shared by every template and thread: looking an encoding up must not write to it
    writes = [n for n in ast.walk(ga) if (isinstance(n, (ast.Assign, ast.AugAssign)) and any((dotted(t) or "").startswith("self.") for t in (n.targets if isinstance(n, ast.Assign) else [n.target])))
              or (isinstance(n, ast.Call) and dotted(n.func) in ("setattr", "self.__dict__.__setitem__", "self.__dict__.update"))]
    ctx.check(not writes, "no-shared-state", db.where(writes[0]) if writes else db.where(ga), "Decode.__getattr__ stores the requested encoding on the shared Decode instance (`%s`): two decode.<enc> filters evaluated before either is called (or used from two threads) decode with the encoding asked for last" % (src(writes[0]) if writes else ""), "the encoding is captured per look-up, nothing is written to the shared instance")
    rets_ga = [r for r in walk_func(ga) if isinstance(r, ast.Return)]
    fn = None
    if len(rets_ga) == 1 and isinstance(rets_ga[0].value, ast.Name):
        cands = [f for f in ga.body if isinstance(f, ast.FunctionDef) and f.name == rets_ga[0].value.id]
        fn = cands[0] if cands else None
    if fn is None:
        ctx.violation("closure", db.where(ga), "Decode.__getattr__ does not return a function defined for the requested encoding (returns %s): the decoding rules cannot be followed" % [src(r.value) for r in rets_ga])
        return
    # a closure that only hands its argument and the encoding on to a module-level function: that function is the decoder
    if len(fn.body) == 1 and isinstance(fn.body[0], ast.Return) and isinstance(fn.body[0].value, ast.Call) and isinstance(fn.body[0].value.func, ast.Name) and db.has("filters." + fn.body[0].value.func.id) \
            and [src(a_) for a_ in fn.body[0].value.args] == [pn(fn, 0), keyp] and not fn.body[0].value.keywords:
        fn = db.func("filters." + fn.body[0].value.func.id)
        keyp = pn(fn, 1)
    x = pn(fn, 0)
    leaves = return_leaves(fn)
    ctx.require(len(leaves) >= 3, "decode has %d alternatives" % len(leaves))
    kinds = []
    isstr = "isinstance(%s, str)" % x
    isbytes = "isinstance(%s, bytes)" % x
    for v, g in leaves:
        t = src(v)
        if t == x:
            kinds.append("str-passthrough")
            ctx.check((isstr, True) in g, "branch:str", db.where(v), "x returned unchanged outside the isinstance(x, str) branch", "str returned as is")
        elif P.matches(v, "%s(str(%s))" % (fn.name, x)) or P.matches(v, "%s(str(%s), %s)" % (fn.name, x, keyp)) or P.matches(v, "str(%s)" % x):
            kinds.append("other")
            ctx.check((isstr, False) in g and (isbytes, False) in g, "branch:other", db.where(v), "decode(str(x)) is not limited to objects that are neither str nor bytes", "other objects: decode(str(x))")
        elif P.matches(v, "str(%s, encoding=%s)" % (x, keyp)) or P.matches(v, "str(%s, %s)" % (x, keyp)) or P.matches(v, "%s.decode(%s)" % (x, keyp)):
            kinds.append("bytes")
            ctx.check((isstr, False) in g and ((isbytes, True) in g or (isbytes, False) not in g), "branch:bytes", db.where(v), "bytes decoding is reached for objects that are not bytes", "bytes decoded with the attribute name as encoding")
        else:
            ctx.violation("branch:%s" % t[:20], db.where(v), "decode returns `%s`, which is not known to be str" % t)
    ctx.check(set(kinds) == {"str-passthrough", "other", "bytes"}, "branches", db.where(fn), "decode lacks one of the str/bytes/other branches (%s)" % kinds, "three branches")
    inst = db.module_assign("filters", "decode")
    ctx.check(src(inst) == "Decode()", "instance", db.where(inst), "filters.decode is %s" % src(inst), "decode = Decode()")


@rule("C10.small", min_instances=4)
def small(ctx):
    """trim strips only surrounding whitespace; url_escape encodes UTF-8 then quote_plus; flags map to the documented functions"""
    db = ctx.db
    tr = db.func("filters.trim")
    r = [n for n in walk_func(tr) if isinstance(n, ast.Return)]
    ctx.check(bool(r) and src(r[0].value) == "string.strip()", "trim", db.where(tr), "trim is %s" % (src(r[0].value) if r else None), "string.strip() (no arguments)")
    ue = db.func("filters.url_escape")
    t = src(ue)
    enc = [c for c in walk_func(ue) if isinstance(c, ast.Call) and isinstance(c.func, ast.Attribute) and c.func.attr == "encode"]
    rets = [r for r in walk_func(ue) if isinstance(r, ast.Return)]
    all_quoted = bool(rets) and all(isinstance(r.value, ast.Call) and dotted(r.value.func) in ("quote_plus", "urllib.parse.quote_plus") for r in rets)
    ctx.check(all_quoted, "url_escape.every-return-quoted", db.where(ue), "url_escape has a return that bypasses quote_plus (%s): for some input the output contains characters that are not URL-safe" % [src(r.value) for r in rets if not (isinstance(r.value, ast.Call) and dotted(r.value.func) in ("quote_plus", "urllib.parse.quote_plus"))], "every return is quote_plus(...)")
    ok = bool(enc) and const(enc[0].args[0]) in ("utf8", "utf-8", "UTF-8") and bool(rets)
    for r_ in rets:
        a_ = r_.value.args[0] if isinstance(r_.value, ast.Call) and r_.value.args else None
        fed = False
        if isinstance(a_, ast.Name):
            ds = [s_ for s_ in walk_func(ue) if isinstance(s_, ast.Assign) and isinstance(s_.targets[0], ast.Name) and s_.targets[0].id == a_.id]
            fed = len(ds) == 1 and ds[0].value is enc[0] and src(enc[0].func.value) == pn(ue, 0)
        elif a_ is not None and enc:
            fed = a_ is enc[0] and src(enc[0].func.value) == pn(ue, 0)
        ok = ok and fed
    ctx.check(ok, "url_escape", db.where(ue), "url_escape does not UTF-8 encode and quote_plus", "encode('utf8') then quote_plus")
    imp = db.mod("filters").imports.get("quote_plus")
    ctx.check(imp == "urllib.parse.quote_plus", "quote_plus", "mako/filters.py", "quote_plus is %s" % imp, "urllib.parse.quote_plus")
    de = db.module_assign("filters", "DEFAULT_ESCAPES")
    m = {const(k): const(v) for k, v in zip(de.keys, de.values)}
    want = {"x": "filters.xml_escape", "h": "filters.html_escape", "u": "filters.url_escape", "trim": "filters.trim", "entity": "filters.html_entities_escape", "str": "str", "unicode": "str", "n": "n"}
    for k, v in want.items():
        ctx.check(m.get(k) == v, "flag:" + k, db.where(de), "flag %r maps to %r, documented %r" % (k, m.get(k), v), "%s -> %s" % (k, v))
    mod = db.mod("filters")
    bound = {t.id for st in mod.tree.body if isinstance(st, ast.Assign) for t in st.targets if isinstance(t, ast.Name)} | {st.name for st in mod.tree.body if isinstance(st, (ast.FunctionDef, ast.ClassDef))}
    for k, v in m.items():
        if isinstance(v, str) and v.startswith("filters."):
            ctx.check(v[8:] in bound, "bound:" + v, db.where(de), "%s is not defined in filters.py" % v, "defined")
    hee = db.module_assign("filters", "html_entities_escape")
    ctx.check(src(hee) == "_html_entities_escaper.escape_entities", "entity-binding", db.where(hee), "html_entities_escape is %s" % src(hee), "bound to escape_entities")
    heu = db.module_assign("filters", "html_entities_unescape")
    ctx.check(src(heu) == "_html_entities_escaper.unescape", "unescape-binding", db.where(heu), "html_entities_unescape is %s" % src(heu), "bound to unescape")


@rule("C10.table-ownership", min_instances=3)
def table_ownership(ctx):
    """the escape tables (xml_escapes, DEFAULT_ESCAPES, the entity translate table) are written only where they are built: a filter must not change what another filter replaces"""
    db = ctx.db
    m = db.mod("filters")
    tables = {"xml_escapes": "module", "DEFAULT_ESCAPES": "module", "self.codepoint2entity": "filters.XMLEntityEscaper.__init__", "self.name2codepoint": "filters.XMLEntityEscaper.__init__"}
    n = 0
    for node in ast.walk(m.tree):
        tgt = None
        if isinstance(node, ast.Subscript) and isinstance(node.ctx, (ast.Store, ast.Del)):
            tgt = dotted(node.value)
        elif isinstance(node, ast.Call) and isinstance(node.func, ast.Attribute) and node.func.attr in ("update", "setdefault", "pop", "clear", "popitem", "__setitem__"):
            tgt = dotted(node.func.value)
        elif isinstance(node, ast.Attribute) and isinstance(node.ctx, ast.Store):
            tgt = dotted(node)
            if tgt not in tables:
                continue
            f = getattr(node, "_func", None)
            q = getattr(f, "_qual", "module")
            n += 1
            ctx.check(q == tables[tgt], "assign:%s@%s" % (tgt, q), db.where(node), "%s is re-bound in %s" % (tgt, q), "built in its constructor")
            continue
        if tgt in tables:
            n += 1
            f = getattr(node, "_func", None)
            q = getattr(f, "_qual", "module")
            ctx.violation("mutate:%s@%s" % (tgt, q), db.where(node), "%s mutates the shared table %s: after one input has been processed the filters replace a different set of characters (e.g. the `entity` filter starts emitting numeric references that html_entities_unescape does not invert)" % (q, tgt))
    ctx.ok("scan", "mako/filters.py", "%d writes to the escape tables, all in their constructors" % n)
    for name in ("xml_escapes", "DEFAULT_ESCAPES"):
        v = db.module_assign("filters", name)
        ctx.check(isinstance(v, ast.Dict), "literal:" + name, db.where(v), "%s is not a dict literal" % name, "dict literal")
