"""C20 - message extraction finds every translatable string at its template line.

Decided: extract_nodes covers the Python-bearing fields parsetree parses for
the constructs of the statement (expressions *and their filters*, control
lines, code blocks, def/block/page signatures, call expressions), descends
into every tag that can contain such constructs, yields nothing for text /
<%text> / comments, and compensates the prepended newline in the reported
line.  Babel/Lingua behaviour and the translator-comment window over all
layouts are not decided."""

import ast

from ..core import rule, AnalysisError
from ..engine.facts import dotted, const, src, walk_func
from ..engine import pattern as P
from .common import calls, pn, access_paths, assigned_from, canon
from . import c18  # precedence (coding comment > input_encoding > utf-8) is registered for C20 there
from . import c05  # attribute-pieces (attribute expressions are re-emitted unstripped, so their lines stay put) is registered for C20 there

# construct -> (parsetree class, expression(s) the scanned code must include)
REQUIRED = {
    "Expression": ["node.code.code", "node.escapes"],
    "ControlLine": ["node.text"],
    "Code": ["node.code.code"],
    "DefTag": ["node.function_decl.code"],
    "BlockTag": ["node.body_decl.code"],
    "PageTag": ["node.body_decl.code"],
    "CallTag": ["node.code.code"],
    "CallNamespaceTag": ["node.expression"],
}
ALT = {"node.code.code": ["node.code.code", "node.text", "node.expression"], "node.escapes": ["node.escapes", "node.escapes_code"], "node.text": ["node.text"],
       "node.function_decl.code": ["node.function_decl.code", "node.attributes['name']"], "node.body_decl.code": ["node.body_decl.code", "node.attributes.get('args'", "node.attributes['args']"],
       "node.expression": ["node.expression", "node.code.code"]}


# ways of splitting the configured tag string that never yield an empty tag (an empty tag is a prefix of every comment)
NONEMPTY_TAGS = ["$tags = list(filter(None, re.split($rx, self.config['comment-tags'])))", "$tags = [$t for $t in re.split($rx, self.config['comment-tags']) if $t]",
                 "$tags = self.config['comment-tags'].split()", "$tags = list(filter(None, self.config['comment-tags'].split($_)))"]


def _names(fn):
    """the locals of extract_nodes by role -> canonical name (node, code, child_nodes,
    translator_comments, in_translator_comments, used_translator_comments, input_encoding, comment_tags)"""
    m = {}
    loops = [n for n in walk_func(fn) if isinstance(n, ast.For) and src(n.iter) == pn(fn, 1) and isinstance(n.target, ast.Name)]
    if loops:
        m[loops[0].target.id] = "node"
    nodev = loops[0].target.id if loops else "node"

    def first(pat, var):
        for _n, env in P.find(fn, pat):
            x = env[var][1]
            if isinstance(x, ast.Name):
                return x.id
        return None
    for role, pat, var in (("code", "BytesIO(b'\\n' + $c)", "c"), ("code", "StringIO('\\n' + $c)", "c"), ("child_nodes", "if $k:\n    yield from self.extract_nodes($k)", "k"),
                           ("translator_comments", "$t[-1][0] < %s.lineno - 1" % nodev, "t"), ("used_translator_comments", "if $u:\n    $t = []", "u"),
                           ("input_encoding", "$c.encode($e, 'backslashreplace')", "e"), ("comment_tags", "for $x in $tags:\n    if $v.startswith($x):\n        ...", "tags"),
                           ("comment_tag", "for $x in $tags:\n    if $v.startswith($x):\n        ...", "x")):
        v = first(pat, var)
        if v is not None and v not in m:
            m[v] = role
    # the collection flag: set True where a tagged comment starts, tested together with blank Text
    for _n, env in P.find(fn, "if $v.startswith($x):\n    $f = True\n    ..."):
        if isinstance(env["f"][1], ast.Name):
            m.setdefault(env["f"][1].id, "in_translator_comments")
    return m


def _branches(fn):
    """(class name(s), body) of the isinstance chain in extract_nodes"""
    out = []
    nodev = {v: k for k, v in _names(fn).items()}.get("node", "node")
    for n in ast.walk(fn):
        if isinstance(n, ast.If) and isinstance(n.test, ast.Call) and dotted(n.test.func) == "isinstance" and src(n.test.args[0]) == nodev:
            t = n.test.args[1]
            names = [dotted(x).split(".")[-1] for x in (t.elts if isinstance(t, ast.Tuple) else [t])]
            out.append((names, n))
    return out


@rule("C20.dispatch-exhaustive", min_instances=9)
def dispatch_exhaustive(ctx):
    """for every construct of the statement, the code string the extractor scans includes each Python-bearing field parsetree parses for it; Text / <%text> / comments yield nothing"""
    db = ctx.db
    fn = db.func("ext.extract.MessageExtractor.extract_nodes")
    br = _branches(fn)
    nm_ = _names(fn)
    codev = {v: k for k, v in nm_.items()}.get("code", "code")
    by = {}
    for names, n in br:
        for nm in names:
            by.setdefault(nm, n)
    # the fields exist in parsetree (anchor: REQUIRED mirrors what the constructors parse)
    for cls, fields in REQUIRED.items():
        init = db.func("parsetree.%s.__init__" % cls)
        for f in fields:
            attr = f.split(".")[1]
            has = any(isinstance(s, ast.Assign) and dotted(s.targets[0]) == "self." + attr for s in walk_func(init))
            ctx.require(has, "parsetree.%s no longer has attribute %s (rule table out of date)" % (cls, attr))
        n = by.get(cls)
        if n is None:
            ctx.violation("dispatch:ext.extract#no-branch:" + cls, db.where(fn), "extract_nodes has no branch for %s: gettext calls inside it are never reported" % cls)
            continue
        body_t = canon(" ".join(src(s) for s in n.body), nm_)
        for f in fields:
            ok = any(a in body_t for a in ALT[f])
            key = "dispatch:ext.extract#%s:%s" % (cls, f.replace("node.", ""))
            if ok:
                ctx.ok(key, db.where(n), "scanned")
            else:
                what = "the filter list after `|`" if f == "node.escapes" else f
                ctx.violation(key, db.where(n), "the code scanned for %s does not include %s: gettext calls there (e.g. `${x | f(_('msg'))}`) are never extracted" % (cls, what))
    # classes that must yield nothing
    for cls in ("Text", "TextTag"):
        ctx.check(cls not in by, "silent:" + cls, db.where(fn), "extract_nodes has a code path for %s: plain text would be scanned for gettext calls" % cls, "no code path (falls to `continue`)")
    cm = by.get("Comment")
    ctx.check(cm is not None and codev not in {t.id for s in cm.body for x in ast.walk(s) if isinstance(x, ast.Assign) for t in x.targets if isinstance(t, ast.Name)}, "silent:Comment", db.where(cm) if cm is not None else db.where(fn), "## comments are scanned as code", "comments only feed translator comments")
    # the chain ends in `else: continue`
    last = br[-1][1] if br else None
    chain_end = None
    for names, n in br:
        cur = n
        while len(cur.orelse) == 1 and isinstance(cur.orelse[0], ast.If):
            cur = cur.orelse[0]
        if cur.orelse and any(isinstance(x, ast.Continue) for x in cur.orelse) and not any(isinstance(x, ast.Assign) and src(x.targets[0]) == codev for x in cur.orelse):
            chain_end = cur
    ctx.check(chain_end is not None, "else-continue", db.where(fn), "unknown node kinds are not skipped", "anything else is skipped")
    # ControlLine end lines carry no code
    cl = by.get("ControlLine")
    ctx.check(cl is not None and "node.isend" in canon(src(cl), nm_), "control-end-skipped", db.where(cl) if cl is not None else db.where(fn), "`% end...` lines are scanned", "end lines skipped")


@rule("C20.descent", min_instances=5)
def descent(ctx):
    """every tag class whose body can contain Python-bearing nodes is descended into"""
    db = ctx.db
    fn = db.func("ext.extract.MessageExtractor.extract_nodes")
    br = _branches(fn)
    by = {}
    for names, n in br:
        for nm in names:
            by.setdefault(nm, n)
    containers = ["DefTag", "BlockTag", "CallTag", "CallNamespaceTag", "NamespaceTag"]
    for cls in containers:
        n = by.get(cls)
        ok = False
        if n is not None:
            t = canon(" ".join(src(s) for s in n.body), _names(fn))
            ok = "child_nodes = node.nodes" in t or "self.extract_nodes(node.nodes)" in t
        key = "descent:ext.extract#" + cls
        if ok:
            ctx.ok(key, db.where(n), "children scanned")
        else:
            ctx.violation(key, db.where(n) if n is not None else db.where(fn), "extract_nodes does not descend into %s: gettext calls in the defs / expressions inside it are never extracted" % cls)
    rec = [c for c in calls(fn, "self.extract_nodes")]
    ctx.check(bool(rec), "recursion", db.where(fn), "extract_nodes never recurses", "recurses into child nodes")
    pf = db.func("ext.extract.MessageExtractor.process_file")
    ok = P.has(pf, "$t = lexer.Lexer(%s.read(), input_encoding=self.config['encoding']).parse()\nyield from self.extract_nodes($t.get_children())" % pn(pf, 1))
    ctx.check(ok, "entry", db.where(pf), "process_file does not lex the whole file with the configured encoding", "lexes the file and scans all top-level nodes")


@rule("C20.offset-algebra", min_instances=4)
def offset_algebra(ctx):
    """the scanned code is prefixed with one newline and the line handed to the Python extractor is node.lineno - 1; Babel's path reports code_lineno + (lineno - 1)"""
    db = ctx.db
    fn = db.func("ext.extract.MessageExtractor.extract_nodes")
    nm_ = _names(fn)
    inv = {v: k for k, v in nm_.items()}
    pre = [c for c in walk_func(fn) if isinstance(c, ast.Call) and dotted(c.func) in ("BytesIO", "StringIO")]
    ctx.require(len(pre) >= 2, "prefix sites not found")
    npre = set()
    for c in pre:
        a = c.args[0]
        ok = isinstance(a, ast.BinOp) and isinstance(a.op, ast.Add) and const(a.left) in ("\n", b"\n") and src(a.right) == inv.get("code")
        npre.add(const(a.left).count("\n" if isinstance(const(a.left), str) else b"\n") if ok else -1)
        ctx.check(ok, "prefix:" + dotted(c.func), db.where(c), "code is wrapped as %s" % src(a), "one newline prepended")
    pp = [c for c in calls(fn, "self.process_python")]
    ctx.require(pp, "process_python call not found")
    a = canon(src(pp[0].args[1]), nm_).replace(" ", "")
    want = "node.lineno-%d" % (list(npre)[0] if len(npre) == 1 else 1)
    ctx.check(a == want, "compensation", db.where(pp[0]), "the Python extractor is given line `%s` although %s newline(s) were prepended (expected %s): every message is reported on a neighbouring line" % (a, npre, want), "%s compensates the prepended newline" % a)
    bp = db.func("ext.babelplugin.BabelMakoExtractor.process_python")
    y = [n for n in walk_func(bp) if isinstance(n, ast.Yield)]
    first = src(y[0].value.elts[0]).replace(" ", "") if y and isinstance(y[0].value, ast.Tuple) else None
    yl = None
    for _n, env_ in P.find(bp, "for ($l, $f, $m, $c) in extract_python(...):\n    yield ($cl + ($l - 1), $f, $m, $tc)"):
        yl = env_
    ctx.check(yl is not None and src(yl["cl"][1]) == pn(bp, 2), "babel.lineno", db.where(bp), "Babel path reports line `%s`, expected code_lineno + (lineno - 1)" % first, "code_lineno + (lineno - 1)")
    ctx.check(y and len(y[0].value.elts) == 4 and yl is not None, "babel.tuple", db.where(bp), "Babel path does not yield (lineno, funcname, messages, comments)", "(lineno, funcname, messages, comments)")
    ctx.check(yl is not None and P.matches(yl["tc"][1], "%s + %s" % (pn(bp, 3), src(yl["c"][1]))), "babel.comments", db.where(bp), "translator comments are not attached", "template translator comments + python ones")
    t = canon(src(fn), nm_)
    ctx.check(P.has(fn, "if $t and $t[-1][0] < %s.lineno - 1:\n    $t = []" % inv.get("node", "node")), "comment-adjacency", db.where(fn), "translator comments are attached regardless of distance", "comments only when they immediately precede the construct")
    ctx.check(P.has(fn, "$e = self.config['encoding'] or 'ascii'\n...") and any(P.has(fn, "$c = $c.encode(%s, 'backslashreplace')" % e_) for e_ in assigned_from(fn, "self.config['encoding'] or 'ascii'")), "encoding", db.where(fn), "code is not encoded with the configured input encoding", "encoded with input_encoding")


@rule("C20.sub-span", min_instances=1)
def sub_span(ctx):
    """code taken from an attribute of a tag that may span lines is reported with the line of the attribute"""
    db = ctx.db
    fn = db.func("ext.extract.MessageExtractor.extract_nodes")
    br = _branches(fn)
    pp = [c for c in calls(fn, "self.process_python")]
    a = src(pp[0].args[1]) if pp else ""
    # does any tag-attribute based branch adjust the line?
    uses_attr_line = "attr" in a or "offset" in a
    from .c11 import sub_span as _  # same structural fact: tags may span lines (checked there)
    if uses_attr_line:
        ctx.ok("span:ext.extract#tag-attribute-line", db.where(fn), "attribute line used")
    else:
        ctx.violation("span:ext.extract#tag-attribute-line", db.where(pp[0]) if pp else db.where(fn),
                      "messages in the name=/args=/expr= attribute of a tag that spans several lines are reported on the tag's first line (the parse tree keeps no attribute positions)")


@rule("C20.comment-window", min_instances=2)
def comment_window(ctx):
    """translator comments are attached only to the construct they immediately precede: every node other than a ## comment (or blank text between comments) ends comment collection, on every path through the scan loop"""
    db = ctx.db
    from ..engine import cfg as cfgmod
    fn = db.func("ext.extract.MessageExtractor.extract_nodes")
    nm_ = _names(fn)
    inv = {v: k for k, v in nm_.items()}
    loops = [n for n in walk_func(fn) if isinstance(n, ast.For) and src(n.iter) == pn(fn, 1)]
    ctx.require(loops, "extract_nodes: scan loop not found")
    lp = loops[0]
    wh = ast.While(test=ast.Constant(value=True), body=lp.body, orelse=[])
    ast.fix_missing_locations(wh)
    g = cfgmod.CFG([wh], "extract-loop")
    head = [n for n in g.nodes if n.stmt is wh][0]
    resets = [n for n in g.nodes if isinstance(n.stmt, ast.Assign) and src(n.stmt.targets[0]) == inv.get("in_translator_comments") and const(n.stmt.value) is False]
    # entry points of the dispatch that handles everything except comments / blank text
    chain = [s for s in lp.body if isinstance(s, ast.If) and isinstance(s.test, ast.Call) and dotted(s.test.func) == "isinstance" and "Comment" not in src(s.test)]
    ctx.require(chain, "extract_nodes: node dispatch not found")
    start = g.nodes_of(chain[0])
    ctx.require(start, "dispatch not in CFG")
    bad = g.path_avoiding(start[0], [head], resets, kinds=("n",))
    if bad:
        last = [n for n in bad if n.stmt is not None and n.stmt is not wh]
        ctx.violation("window:ext.extract#no-reset:%s" % (type(last[-1].stmt).__name__ + "@" + _branch_of(last, lp)), db.where(last[-1].stmt) if hasattr(last[-1].stmt, "_mod") else db.where(fn),
                      "a node that is neither a comment nor blank text can be passed over without ending translator-comment collection (path %s): a later untagged ## remark and the stale tagged comment are then attached to a message they do not immediately precede" % g.fmt_path(bad))
    else:
        ctx.ok("window:ext.extract#reset-on-every-path", db.where(lp), "every non-comment node ends comment collection")
    cm = [s for s in lp.body if isinstance(s, ast.If) and "parsetree.Comment" in src(s.test)]
    ctx.check(bool(cm) and "startswith(comment_tag)" in canon(src(cm[0]), nm_) and "in_translator_comments = True" in canon(src(cm[0]), nm_) and any(P.has(fn, p_) for p_ in NONEMPTY_TAGS), "window.starts-with-tag", db.where(cm[0]) if cm else db.where(lp), "comment collection does not start at a comment beginning with a configured tag", "starts at a tagged ## comment")
    ctx.check(P.has(lp, "for $m in self.process_python(...):\n    yield $m\n    $u = True\nif $u:\n    $t = []"), "window.consumed", db.where(lp), "comments are not cleared once attached", "cleared after use")


def _branch_of(path_nodes, lp):
    for n in reversed(path_nodes):
        st = n.stmt
        if isinstance(st, ast.If) and isinstance(st.test, ast.Call) and dotted(st.test.func) == "isinstance":
            return src(st.test.args[1]).split(".")[-1]
    return "else"


@rule("C20.code-unmodified", min_instances=4)
def code_unmodified(ctx):
    """the text handed to the Python extractor is the fragment exactly as written (leading newlines included), so that line numbers inside multi-line constructs are right"""
    db = ctx.db
    pc = db.func("ast.PythonCode.__init__")
    first = [s for s in pc.body if isinstance(s, ast.Assign) and dotted(s.targets[0]) == "self.code"]
    ctx.check(bool(first) and isinstance(first[0].value, ast.Name) and first[0].value.id == pc.args.args[1].arg, "PythonCode.code", db.where(pc), "PythonCode.code is not the code as given", "self.code = code (unmodified)")
    for cls, param in (("Expression", "text"), ("Code", "text")):
        init = db.func("parsetree.%s.__init__" % cls)
        c = [x for x in walk_func(init) if isinstance(x, ast.Call) and dotted(x.func) == "ast.PythonCode"]
        ok = bool(c) and isinstance(c[0].args[0], ast.Name) and c[0].args[0].id == param
        ctx.check(ok, "fragment:" + cls, db.where(c[0]) if c else db.where(init), "%s parses `%s` instead of its text as written: stripped leading newlines shift every reported line of a multi-line construct" % (cls, src(c[0].args[0]) if c else None), "PythonCode(%s) unmodified" % param)
    fd = db.func("ast.FunctionDecl.__init__")
    ctx.check(any(isinstance(s, ast.Assign) and dotted(s.targets[0]) == "self.code" and src(s.value) == "code" for s in fd.body), "FunctionDecl.code", db.where(fd), "FunctionDecl.code is not the declaration as given", "self.code = code")
    me = db.func("lexer.Lexer.match_expression")
    ap = [c for c in walk_func(me) if isinstance(c, ast.Call) and dotted(c.func) == "self.append_node"]
    ok = False
    if ap and isinstance(ap[0].args[1], ast.Name):
        v_ = ap[0].args[1].id
        ok = P.has(me, "(%s, $e) = self.parse_until_text(...)" % v_) and all(isinstance(d.value, ast.Call) and dotted(d.value.func) in ("self.parse_until_text", v_ + ".replace") for d in walk_func(me) if isinstance(d, ast.Assign) and any(isinstance(t_, ast.Name) and t_.id == v_ for t_ in ast.walk(d.targets[0])))
    ctx.check(ok, "lexer.expression-text", db.where(me), "the lexer does not hand the expression text as scanned to the Expression node", "Expression(text as scanned)")
