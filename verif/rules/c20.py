"""C20 - message extraction finds every translatable string at its template line.

Decided: extract_nodes covers the Python-bearing fields parsetree parses for
the constructs of the statement (expressions *and their filters*, control
lines, code blocks, def/block/page signatures, call expressions), descends
into every tag that can contain such constructs, yields nothing for text /
<%text> / comments, and compensates the prepended newline in the reported
line.  Babel/Lingua behaviour and the translator-comment window over all
layouts are not decided."""

import ast

from ..core import rule, AnalysisError
from ..engine.facts import dotted, const, src, walk_func
from ..engine import pattern as P
from .common import calls, pn, access_paths, assigned_from, canon, branch_paths, sym_cases, resolve, resolve_deep, guards_of, keyed_values
from .common import _fold_not as _fold
from . import c18  # precedence (coding comment > input_encoding > utf-8) is registered for C20 there
from . import c05  # attribute-pieces (attribute expressions are re-emitted unstripped, so their lines stay put) is registered for C20 there

# construct -> (parsetree class, expression(s) the scanned code must include)
REQUIRED = {
    "Expression": ["node.code.code", "node.escapes"],
    "ControlLine": ["node.text"],
    "Code": ["node.code.code"],
    "DefTag": ["node.function_decl.code"],
    "BlockTag": ["node.body_decl.code"],
    "PageTag": ["node.body_decl.code"],
    "CallTag": ["node.code.code"],
    "CallNamespaceTag": ["node.expression"],
}
ALT = {"node.code.code": ["node.code.code", "node.text", "node.expression"], "node.escapes": ["node.escapes", "node.escapes_code"], "node.text": ["node.text"],
       "node.function_decl.code": ["node.function_decl.code", "node.attributes['name']"], "node.body_decl.code": ["node.body_decl.code", "node.attributes.get('args'", "node.attributes['args']"],
       "node.expression": ["node.expression", "node.code.code"]}


# ways of splitting the configured tag string that never yield an empty tag (an empty tag is a prefix of every comment)
NONEMPTY_TAGS = ["$tags = list(filter(None, re.split($rx, self.config['comment-tags'])))", "$tags = [$t for $t in re.split($rx, self.config['comment-tags']) if $t]",
                 "$tags = self.config['comment-tags'].split()", "$tags = list(filter(None, self.config['comment-tags'].split($_)))"]


def _names(fn):
    """the locals of extract_nodes by role -> canonical name (node, code, child_nodes,
    translator_comments, in_translator_comments, used_translator_comments, input_encoding, comment_tags)"""
    m = {}
    loops = [n for n in walk_func(fn) if isinstance(n, ast.For) and src(n.iter) == pn(fn, 1) and isinstance(n.target, ast.Name)]
    if loops:
        m[loops[0].target.id] = "node"
    nodev = loops[0].target.id if loops else "node"

    def first(pat, var):
        for _n, env in P.find(fn, pat):
            x = env[var][1]
            if isinstance(x, ast.Name):
                return x.id
        return None
    for role, pat, var in (("code", "BytesIO(b'\\n' + $c)", "c"), ("code", "StringIO('\\n' + $c)", "c"), ("child_nodes", "if $k:\n    yield from self.extract_nodes($k)", "k"),
                           ("translator_comments", "$t[-1][0] < %s.lineno - 1" % nodev, "t"), ("used_translator_comments", "if $u:\n    $t = []", "u"),
                           ("input_encoding", "$c.encode($e, 'backslashreplace')", "e"), ("comment_tags", "for $x in $tags:\n    if $v.startswith($x):\n        ...", "tags"),
                           ("comment_tag", "for $x in $tags:\n    if $v.startswith($x):\n        ...", "x")):
        v = first(pat, var)
        if v is not None and v not in m:
            m[v] = role
    # the collection flag: set True where a tagged comment starts, tested together with blank Text
    for _n, env in P.find(fn, "if $v.startswith($x):\n    $f = True\n    ..."):
        if isinstance(env["f"][1], ast.Name):
            m.setdefault(env["f"][1].id, "in_translator_comments")
    return m


class _Branch:
    """what extract_nodes does for nodes of one class: the statements of the scan-loop path(s) on which
    `isinstance(node, <class>)` is the test that holds (however the dispatch is spelled)"""

    def __init__(self, names, test, body, paths):
        self.names, self.test, self.body, self.paths = names, test, body, paths
        for a in ("lineno", "col_offset", "_mod", "_func", "_parent"):
            if hasattr(test, a):
                setattr(self, a, getattr(test, a))


def _scan_loop(fn):
    nodev = {v: k for k, v in _names(fn).items()}.get("node", "node")
    loops = [n for n in walk_func(fn) if isinstance(n, ast.For) and isinstance(n.target, ast.Name) and n.target.id == nodev]
    return nodev, (loops[0] if loops else None)


def _branches(fn):
    """(class name(s), _Branch) for every isinstance test on the scanned node"""
    out = []
    nodev, lp = _scan_loop(fn)
    if lp is None:
        return out
    paths = branch_paths(lp.body)
    tests = {}
    for p in paths:
        for t, v in p.conds:
            tt, vv = _fold(t, v)
            if isinstance(tt, ast.Call) and dotted(tt.func) == "isinstance" and src(tt.args[0]) == nodev and len(tt.args) == 2:
                tests.setdefault(src(tt), tt)
    for key, tt in tests.items():
        t = tt.args[1]
        names = [dotted(x).split(".")[-1] for x in (t.elts if isinstance(t, ast.Tuple) else [t])]
        mine = [p for p in paths if p.holds(key, True)]
        body = []
        seen = set()
        for p in mine:
            # statements executed once the class test has held
            idx = [i for i, (c, v) in enumerate(p.conds) if src(_fold(c, v)[0]) == key][0]
            for st in p.stmts:
                if id(st) not in seen and st.lineno >= getattr(p.conds[idx][0], "lineno", 0):
                    seen.add(id(st))
                    body.append(st)
        out.append((names, _Branch(names, tt, body, mine)))
    return out


def _unknown_kind_paths(fn):
    """paths of the scan loop on which every class test failed"""
    nodev, lp = _scan_loop(fn)
    if lp is None:
        return []
    out = []
    for p in branch_paths(lp.body):
        cls_tests = [(c, v) for c, v in p.conds if isinstance(_fold(c, v)[0], ast.Call) and dotted(_fold(c, v)[0].func) == "isinstance" and src(_fold(c, v)[0].args[0]) == nodev]
        if cls_tests and all(not _fold(c, v)[1] for c, v in cls_tests):
            out.append(p)
    return out


@rule("C20.dispatch-exhaustive", min_instances=9)
def dispatch_exhaustive(ctx):
    """for every construct of the statement, the code string the extractor scans includes each Python-bearing field parsetree parses for it; Text / <%text> / comments yield nothing"""
    db = ctx.db
    fn = db.func("ext.extract.MessageExtractor.extract_nodes")
    br = _branches(fn)
    nm_ = _names(fn)
    codev = {v: k for k, v in nm_.items()}.get("code", "code")
    by = {}
    for names, n in br:
        for nm in names:
            by.setdefault(nm, n)
    # the fields exist in parsetree (anchor: REQUIRED mirrors what the constructors parse)
    for cls, fields in REQUIRED.items():
        init = db.func("parsetree.%s.__init__" % cls)
        for f in fields:
            attr = f.split(".")[1]
            has = any(isinstance(s, ast.Assign) and dotted(s.targets[0]) == "self." + attr for s in walk_func(init))
            ctx.require(has, "parsetree.%s no longer has attribute %s (rule table out of date)" % (cls, attr))
        n = by.get(cls)
        if n is None:
            ctx.violation("dispatch:ext.extract#no-branch:" + cls, db.where(fn), "extract_nodes has no branch for %s: gettext calls inside it are never reported" % cls)
            continue
        body_t = canon(" ".join(src(s) for s in n.body), nm_)
        for f in fields:
            ok = any(a in body_t for a in ALT[f])
            key = "dispatch:ext.extract#%s:%s" % (cls, f.replace("node.", ""))
            if ok:
                ctx.ok(key, db.where(n), "scanned")
            else:
                what = "the filter list after `|`" if f == "node.escapes" else f
                ctx.violation(key, db.where(n), "the code scanned for %s does not include %s: gettext calls there (e.g. `${x | f(_('msg'))}`) are never extracted" % (cls, what))
    # classes that must yield nothing
    for cls in ("Text", "TextTag"):
        ctx.check(cls not in by, "silent:" + cls, db.where(fn), "extract_nodes has a code path for %s: plain text would be scanned for gettext calls" % cls, "no code path (falls to `continue`)")
    cm = by.get("Comment")
    ctx.check(cm is not None and codev not in {t.id for s in cm.body for x in ast.walk(s) if isinstance(x, ast.Assign) for t in x.targets if isinstance(t, ast.Name)}, "silent:Comment", db.where(cm) if cm is not None else db.where(fn), "## comments are scanned as code", "comments only feed translator comments")
    # nodes of every other kind are skipped: no code is scanned on a path where all class tests failed
    unk = _unknown_kind_paths(fn)
    ok_unk = bool(unk) and all(isinstance(p.exit, ast.Continue) and not any(isinstance(x, ast.Assign) and src(x.targets[0]) == codev for x in p.stmts) for p in unk)
    ctx.check(ok_unk, "else-continue", db.where(fn), "unknown node kinds are not skipped", "anything else is skipped")
    # ControlLine end lines carry no code
    cl = by.get("ControlLine")
    ctx.check(cl is not None and any(isinstance(p.exit, ast.Continue) and p.holds(canon("node.isend", {v_: k_ for k_, v_ in nm_.items()}), True) for p in cl.paths), "control-end-skipped", db.where(cl) if cl is not None else db.where(fn), "`% end...` lines are scanned", "end lines skipped")


@rule("C20.descent", min_instances=5)
def descent(ctx):
    """every tag class whose body can contain Python-bearing nodes is descended into"""
    db = ctx.db
    fn = db.func("ext.extract.MessageExtractor.extract_nodes")
    br = _branches(fn)
    by = {}
    for names, n in br:
        for nm in names:
            by.setdefault(nm, n)
    containers = ["DefTag", "BlockTag", "CallTag", "CallNamespaceTag", "NamespaceTag"]
    for cls in containers:
        n = by.get(cls)
        ok = False
        if n is not None:
            t = canon(" ".join(src(s) for s in n.body), _names(fn))
            ok = "child_nodes = node.nodes" in t or "self.extract_nodes(node.nodes)" in t
        key = "descent:ext.extract#" + cls
        if ok:
            ctx.ok(key, db.where(n), "children scanned")
        else:
            ctx.violation(key, db.where(n) if n is not None else db.where(fn), "extract_nodes does not descend into %s: gettext calls in the defs / expressions inside it are never extracted" % cls)
    rec = [c for c in calls(fn, "self.extract_nodes")]
    ctx.check(bool(rec), "recursion", db.where(fn), "extract_nodes never recurses", "recurses into child nodes")
    pf = db.func("ext.extract.MessageExtractor.process_file")
    yf = [y for y in walk_func(pf) if isinstance(y, ast.YieldFrom) and P.matches(y.value, "self.extract_nodes($a)")]
    ok = len(yf) == 1 and P.matches(resolve_deep(pf, yf[0].value.args[0], 5), "lexer.Lexer(%s.read(), input_encoding=self.config['encoding']).parse().get_children()" % pn(pf, 1))
    ctx.check(ok, "entry", db.where(pf), "process_file does not lex the whole file with the configured encoding", "lexes the file and scans all top-level nodes")
    # the extractor's configuration (its encoding is the codec the code fragments are written in for the Python extractor, which is
    # told about the options only) is fixed when the extractor is set up: the shared machinery never changes it
    writers = []
    for q_, f_ in db.functions_in("ext.extract"):
        for n_ in walk_func(f_):
            tgt = None
            if isinstance(n_, (ast.Subscript, ast.Attribute)) and isinstance(n_.ctx, (ast.Store, ast.Del)):
                tgt = n_.value if isinstance(n_, ast.Subscript) else n_
            elif isinstance(n_, ast.Call) and isinstance(n_.func, ast.Attribute) and n_.func.attr in ("update", "setdefault", "pop", "clear", "__setitem__"):
                tgt = n_.func.value
            if tgt is not None and src(tgt).endswith(".config"):
                writers.append(n_)
    # Babel: without an encoding option the lexer is left to find the encoding itself (coding comment, BOM, utf-8): the configured
    # encoding falls back to None, never to a codec name
    bi = db.func("ext.babelplugin.BabelMakoExtractor.__init__")
    encs = keyed_values(bi, "encoding")
    ctx.require(encs, "BabelMakoExtractor.__init__: config['encoding'] not found (anchor)")
    optp = pn(bi, 3)
    cands, todo_ = [], list(encs)
    seen_ = set()
    while todo_:
        e_ = todo_.pop()
        if id(e_) in seen_:
            continue
        seen_.add(id(e_))
        if isinstance(e_, ast.Name):
            todo_ += [s_.value for s_ in walk_func(bi) if isinstance(s_, ast.Assign) and any(isinstance(t_, ast.Name) and t_.id == e_.id for t_ in s_.targets)]
        elif isinstance(e_, ast.IfExp):
            todo_ += [e_.body, e_.orelse]
        elif isinstance(e_, ast.BoolOp):
            todo_ += list(e_.values)
        elif isinstance(e_, ast.Call) and isinstance(e_.func, ast.Attribute) and e_.func.attr == "get" and src(e_.func.value) in (optp, "self.options"):
            todo_ += [e_.args[1]] if len(e_.args) > 1 else [ast.Constant(value=None)]
        elif isinstance(e_, ast.Subscript) and src(e_.value) in (optp, "self.options"):
            continue
        elif isinstance(e_, ast.Attribute) and isinstance(e_.value, ast.Name) and e_.value.id in ("self", "cls"):
            cv_ = [s_.value for c_ in ast.walk(db.mod("ext.babelplugin").tree) if isinstance(c_, ast.ClassDef) for s_ in c_.body if isinstance(s_, ast.Assign) and any(isinstance(t_, ast.Name) and t_.id == e_.attr for t_ in s_.targets)]
            if cv_:
                todo_ += cv_
            else:
                cands.append(e_)
        else:
            cands.append(e_)
    badfb = [c_ for c_ in cands if not (isinstance(c_, ast.Constant) and c_.value is None)]
    ctx.check(not badfb, "babel.encoding-fallback", db.where(badfb[0]) if badfb else db.where(bi), "without an encoding option Babel's extractor configures the encoding `%s` instead of None: the lexer is told that codec (it no longer falls back to utf-8 / the coding comment is the only way out) and a UTF-8 template with non-ASCII text fails to compile, so nothing is extracted" % (src(badfb[0]) if badfb else ""), "no option -> None (the lexer decides)")
    ctx.check(not writers, "config-fixed", db.where(writers[0]) if writers else db.where(pf), "the extractor's configuration is changed while a file is processed (%s): code fragments are then encoded with a codec the Python extractor was not configured with" % (src(writers[0]) if writers else ""), "configuration only read in ext/extract.py")


@rule("C20.offset-algebra", min_instances=4)
def offset_algebra(ctx):
    """the scanned code is prefixed with one newline and the line handed to the Python extractor is node.lineno - 1; Babel's path reports code_lineno + (lineno - 1)"""
    db = ctx.db
    fn = db.func("ext.extract.MessageExtractor.extract_nodes")
    nm_ = _names(fn)
    inv = {v: k for k, v in nm_.items()}
    pre = [c for c in walk_func(fn) if isinstance(c, ast.Call) and dotted(c.func) in ("BytesIO", "StringIO")]
    ctx.require(len(pre) >= 2, "prefix sites not found")
    npre = set()
    for c in pre:
        a = c.args[0]
        ok = isinstance(a, ast.BinOp) and isinstance(a.op, ast.Add) and const(a.left) in ("\n", b"\n") and src(a.right) == inv.get("code")
        npre.add(const(a.left).count("\n" if isinstance(const(a.left), str) else b"\n") if ok else -1)
        ctx.check(ok, "prefix:" + dotted(c.func), db.where(c), "code is wrapped as %s" % src(a), "one newline prepended")
    pp = [c for c in calls(fn, "self.process_python")]
    ctx.require(pp, "process_python call not found")
    a = canon(src(pp[0].args[1]), nm_).replace(" ", "")
    want = "node.lineno-%d" % (list(npre)[0] if len(npre) == 1 else 1)
    ctx.check(a == want, "compensation", db.where(pp[0]), "the Python extractor is given line `%s` although %s newline(s) were prepended (expected %s): every message is reported on a neighbouring line" % (a, npre, want), "%s compensates the prepended newline" % a)
    bp = db.func("ext.babelplugin.BabelMakoExtractor.process_python")
    y = [n for n in walk_func(bp) if isinstance(n, ast.Yield)]
    first = src(y[0].value.elts[0]).replace(" ", "") if y and isinstance(y[0].value, ast.Tuple) else None
    yl = None
    from .common import linear_form
    for _n, env_ in P.find(bp, "for ($l, $f, $m, $c) in extract_python(...):\n    yield ($line, $f, $m, $tc)"):
        # the reported line, as a linear form: code_lineno + lineno - 1 in any spelling
        lf = linear_form(env_["line"][1])
        if lf is not None and lf == {pn(bp, 2): 1, src(env_["l"][1]): 1, "": -1}:
            yl = dict(env_, cl=(None, ast.Name(id=pn(bp, 2), ctx=ast.Load())))
    ctx.check(yl is not None and src(yl["cl"][1]) == pn(bp, 2), "babel.lineno", db.where(bp), "Babel path reports line `%s`, expected code_lineno + (lineno - 1)" % first, "code_lineno + (lineno - 1)")
    ctx.check(y and len(y[0].value.elts) == 4 and yl is not None, "babel.tuple", db.where(bp), "Babel path does not yield (lineno, funcname, messages, comments)", "(lineno, funcname, messages, comments)")
    ctx.check(yl is not None and P.matches(yl["tc"][1], "%s + %s" % (pn(bp, 3), src(yl["c"][1]))), "babel.comments", db.where(bp), "translator comments are not attached", "template translator comments + python ones")
    t = canon(src(fn), nm_)
    ctx.check(P.has(fn, "if $t and $t[-1][0] < %s.lineno - 1:\n    $t = []" % inv.get("node", "node")), "comment-adjacency", db.where(fn), "translator comments are attached regardless of distance", "comments only when they immediately precede the construct")
    ctx.check(P.has(fn, "$e = self.config['encoding'] or 'ascii'\n...") and any(P.has(fn, "$c = $c.encode(%s, 'backslashreplace')" % e_) for e_ in assigned_from(fn, "self.config['encoding'] or 'ascii'")), "encoding", db.where(fn), "code is not encoded with the configured input encoding", "encoded with input_encoding")


@rule("C20.sub-span", min_instances=1)
def sub_span(ctx):
    """code taken from an attribute of a tag that may span lines is reported with the line of the attribute"""
    db = ctx.db
    fn = db.func("ext.extract.MessageExtractor.extract_nodes")
    br = _branches(fn)
    pp = [c for c in calls(fn, "self.process_python")]
    a = src(pp[0].args[1]) if pp else ""
    # does any tag-attribute based branch adjust the line?
    uses_attr_line = "attr" in a or "offset" in a
    from .c11 import sub_span as _  # same structural fact: tags may span lines (checked there)
    if uses_attr_line:
        ctx.ok("span:ext.extract#tag-attribute-line", db.where(fn), "attribute line used")
    else:
        ctx.violation("span:ext.extract#tag-attribute-line", db.where(pp[0]) if pp else db.where(fn),
                      "messages in the name=/args=/expr= attribute of a tag that spans several lines are reported on the tag's first line (the parse tree keeps no attribute positions)")


@rule("C20.comment-window", min_instances=2)
def comment_window(ctx):
    """translator comments are attached only to the construct they immediately precede: every node other than a ## comment (or blank text between comments) ends comment collection, on every path through the scan loop"""
    db = ctx.db
    from ..engine import cfg as cfgmod
    fn = db.func("ext.extract.MessageExtractor.extract_nodes")
    nm_ = _names(fn)
    inv = {v: k for k, v in nm_.items()}
    loops = [n for n in walk_func(fn) if isinstance(n, ast.For) and src(n.iter) == pn(fn, 1)]
    ctx.require(loops, "extract_nodes: scan loop not found")
    lp = loops[0]
    wh = ast.While(test=ast.Constant(value=True), body=lp.body, orelse=[])
    ast.fix_missing_locations(wh)
    g = cfgmod.CFG([wh], "extract-loop")
    head = [n for n in g.nodes if n.stmt is wh][0]
    resets = [n for n in g.nodes if isinstance(n.stmt, ast.Assign) and src(n.stmt.targets[0]) == inv.get("in_translator_comments") and const(n.stmt.value) is False]
    # entry points of the dispatch that handles everything except comments / blank text
    def _ifs(stmts):
        # If statements of the loop body in source order, the arms of the comment branch included (a `continue` may have been
        # written as an else)
        for s_ in stmts:
            if isinstance(s_, ast.If):
                yield s_
                yield from _ifs(s_.body)
                yield from _ifs(s_.orelse)
    chain = [s for s in _ifs(lp.body) if isinstance(s.test, ast.Call) and dotted(s.test.func) == "isinstance" and "Comment" not in src(s.test)]
    ctx.require(chain, "extract_nodes: node dispatch not found")
    start = g.nodes_of(chain[0])
    ctx.require(start, "dispatch not in CFG")
    bad = g.path_avoiding(start[0], [head], resets, kinds=("n",))
    if bad:
        last = [n for n in bad if n.stmt is not None and n.stmt is not wh]
        ctx.violation("window:ext.extract#no-reset:%s" % (type(last[-1].stmt).__name__ + "@" + _branch_of(last, lp)), db.where(last[-1].stmt) if hasattr(last[-1].stmt, "_mod") else db.where(fn),
                      "a node that is neither a comment nor blank text can be passed over without ending translator-comment collection (path %s): a later untagged ## remark and the stale tagged comment are then attached to a message they do not immediately precede" % g.fmt_path(bad))
    else:
        ctx.ok("window:ext.extract#reset-on-every-path", db.where(lp), "every non-comment node ends comment collection")
    cm = [s for s in _ifs(lp.body) if "parsetree.Comment" in src(s.test)]
    ctx.check(bool(cm) and "startswith(comment_tag)" in canon(src(cm[0]), nm_) and "in_translator_comments = True" in canon(src(cm[0]), nm_) and any(P.has(fn, p_) for p_ in NONEMPTY_TAGS), "window.starts-with-tag", db.where(cm[0]) if cm else db.where(lp), "comment collection does not start at a comment beginning with a configured tag", "starts at a tagged ## comment")
    # every configured tag is tried: the loop over the tags is left only from inside the branch of a tag that matched
    tl = [l_ for l_ in ast.walk(lp) if isinstance(l_, ast.For) and isinstance(l_.target, ast.Name) and nm_.get(l_.target.id) == "comment_tag"]
    early = [b_ for l_ in tl for b_ in ast.walk(l_) if isinstance(b_, (ast.Break, ast.Return)) and not any(isinstance(a_, ast.If) and "startswith" in src(a_.test) for a_ in _anc_until(b_, l_))]
    ctx.check(bool(tl) and not early, "window.every-tag", db.where(early[0]) if early else db.where(lp), "the loop over the configured comment tags is left after the first tag whether it matched or not: comments starting with a later tag are never attached", "every configured tag is tried")
    ctx.check(P.has(lp, "for $m in self.process_python(...):\n    yield $m\n    $u = True\nif $u:\n    $t = []"), "window.consumed", db.where(lp), "comments are not cleared once attached", "cleared after use")


def _anc_until(node, stop):
    out = []
    x = getattr(node, "_parent", None)
    while x is not None and x is not stop:
        out.append(x)
        x = getattr(x, "_parent", None)
    return out


def _branch_of(path_nodes, lp):
    for n in reversed(path_nodes):
        st = n.stmt
        if isinstance(st, ast.If) and isinstance(st.test, ast.Call) and dotted(st.test.func) == "isinstance":
            return src(st.test.args[1]).split(".")[-1]
    return "else"


@rule("C20.code-unmodified", min_instances=4)
def code_unmodified(ctx):
    """the text handed to the Python extractor is the fragment exactly as written (leading newlines included), so that line numbers inside multi-line constructs are right"""
    db = ctx.db
    pc = db.func("ast.PythonCode.__init__")
    first = [s for s in pc.body if isinstance(s, ast.Assign) and dotted(s.targets[0]) == "self.code"]
    ctx.check(bool(first) and isinstance(first[0].value, ast.Name) and first[0].value.id == pc.args.args[1].arg, "PythonCode.code", db.where(pc), "PythonCode.code is not the code as given", "self.code = code (unmodified)")
    for cls, param in (("Expression", "text"), ("Code", "text")):
        init = db.func("parsetree.%s.__init__" % cls)
        c = [x for x in walk_func(init) if isinstance(x, ast.Call) and dotted(x.func) == "ast.PythonCode"]
        ok = bool(c) and isinstance(c[0].args[0], ast.Name) and c[0].args[0].id == param
        ctx.check(ok, "fragment:" + cls, db.where(c[0]) if c else db.where(init), "%s parses `%s` instead of its text as written: stripped leading newlines shift every reported line of a multi-line construct" % (cls, src(c[0].args[0]) if c else None), "PythonCode(%s) unmodified" % param)
    fd = db.func("ast.FunctionDecl.__init__")
    ctx.check(any(isinstance(s, ast.Assign) and dotted(s.targets[0]) == "self.code" and src(s.value) == "code" for s in fd.body), "FunctionDecl.code", db.where(fd), "FunctionDecl.code is not the declaration as given", "self.code = code")
    me = db.func("lexer.Lexer.match_expression")
    ap = [c for c in walk_func(me) if isinstance(c, ast.Call) and dotted(c.func) == "self.append_node"]
    ok = False
    if ap and isinstance(ap[0].args[1], ast.Name):
        v_ = ap[0].args[1].id
        ok = P.has(me, "(%s, $e) = self.parse_until_text(...)" % v_) and all(isinstance(d.value, ast.Call) and dotted(d.value.func) in ("self.parse_until_text", v_ + ".replace") for d in walk_func(me) if isinstance(d, ast.Assign) and any(isinstance(t_, ast.Name) and t_.id == v_ for t_ in ast.walk(d.targets[0])))
    ctx.check(ok, "lexer.expression-text", db.where(me), "the lexer does not hand the expression text as scanned to the Expression node", "Expression(text as scanned)")


@rule("C20.lingua-path", min_instances=5)
def lingua_path(ctx):
    """the Lingua extractor scans the same code as Babel's: leading lines it strips are added to the reported line, `elif` lines are scanned as `if`, only clauses without an expression are blanked"""
    db = ctx.db
    fn = db.func("ext.linguaplugin.LinguaMakoExtractor.process_python")
    codep, linep = pn(fn, 1), pn(fn, 2)
    srcv = assigned_from(fn, "%s.getvalue()" % codep) | assigned_from(fn, "%s.getvalue().strip()" % codep) | assigned_from(fn, "%s.getvalue().lstrip()" % codep)
    ctx.require(srcv, "process_python: the code text is not taken from the stream (anchor)")
    # stripping in front of the code must be compensated in the line number
    strips = [c for c in walk_func(fn) if isinstance(c, ast.Call) and isinstance(c.func, ast.Attribute) and c.func.attr in ("strip", "lstrip") and not c.args]
    call = [c for c in walk_func(fn) if isinstance(c, ast.Call) and dotted(c.func) == "self.python_extractor"]
    ctx.require(call and len(call[0].args) == 4, "process_python: call of the Python extractor with four arguments not found (anchor)")
    # the line handed on, case by case, in terms of the parameters: code_lineno + <line terminators in the stripped prefix> - 1
    lcases = sym_cases(fn, call[0].args[3])
    ctx.require(lcases, "process_python: line argument of the Python extractor not resolved (anchor)")
    G = "%s.getvalue()" % codep
    comp = all(P.matches(v_, "%s + $g[:len($g) - len($g.lstrip())].count('\\n') - 1" % linep) and ("%s[:len(%s)" % (G, G)) in " ".join(src(v_).split()) for _c, v_ in lcases)
    base = all(P.matches(v_, "%s + $g[:len($g) - len($g.lstrip())].count('\\n') - 1" % linep) or P.matches(v_, "%s - 1" % linep) for _c, v_ in lcases)
    ctx.check(bool(strips) and comp, "leading-lines-counted", db.where(strips[0]) if strips else db.where(fn), "the code is stripped of its leading white space (which holds the newline extract_nodes prepends and the first newline of a block) without adding the removed line terminators to the reported line (line handed on: %s): every message is reported too early" % sorted({" ".join(src(v_).split())[:80] for _c, v_ in lcases}), "removed leading line terminators are added to the line")
    ctx.check(base, "base-line", db.where(call[0]), "the Python extractor is not given code_lineno - 1 as the line before the code", "line before the code = code_lineno - 1")
    # clause handling
    # clause handling: the text handed to the Python extractor, case by case, in terms of the code read from the stream
    sio = [c for c in walk_func(fn) if isinstance(c, ast.Call) and dotted(c.func) in ("io.StringIO", "StringIO") and c.args]
    ctx.require(sio, "process_python: the text given to the Python extractor not found (anchor)")
    cases = sym_cases(fn, sio[0].args[0])
    ctl = [(c_, v_) for c_, v_ in cases if any(P.matches(t_, "$s.endswith(':')") for t_, _ in c_)]
    ctx.require(ctl, "process_python: handling of control-line clauses not found (anchor)")
    o = sio[0]
    words, blanked, elif_ok, completed, plain_ok = set(), 0, False, True, True
    n_ctl = 0
    for c_, v_ in cases:
        e_ = [(t_, tv_) for t_, tv_ in c_ if P.matches(t_, "$s.endswith(':')")]
        if not e_:
            continue
        X = src(e_[0][0].func.value)
        if not e_[0][1]:
            plain_ok = plain_ok and src(v_) == X  # not a control line: scanned as it is
            continue
        n_ctl += 1
        others = [(t_, tv_) for t_, tv_ in c_ if t_ is not e_[0][0]]
        taken = [t_ for t_, tv_ in others if tv_]
        if isinstance(v_, ast.Constant) and v_.value == "pass":
            # the line is replaced by a bare `pass`: which clauses?
            blanked += 1
            for t_ in taken:
                for k_ in ast.walk(t_):
                    if isinstance(k_, ast.Constant) and isinstance(k_.value, str):
                        words.add(k_.value.rstrip(":"))
                    elif isinstance(k_, (ast.Tuple, ast.List, ast.Set)):
                        pass
        elif any(P.matches(t_, "%s.startswith('elif')" % X) for t_ in taken):
            elif_ok = src(v_) == "%s[2:] + 'pass'" % X
        else:
            completed = completed and src(v_) == "%s + 'pass'" % X
    ctx.check(blanked > 0 and words <= {"try", "else", "except", "finally"}, "blanked-clauses", db.where(o), "clauses %s are blanked before scanning: a gettext call in the condition of such a line is never reported" % sorted(words - {"try", "else", "except", "finally"}), "only clauses without a condition are blanked: %s" % sorted(words))
    ctx.check(elif_ok, "elif-as-if", db.where(o), "`% elif cond:` lines are not turned into `if cond:` before scanning: gettext calls in elif conditions are not reported by Lingua", "elif -> if")
    ctx.check(completed and plain_ok and n_ctl >= 2, "completed", db.where(o), "the control line is not completed with a body before scanning (or other code is altered)", "`pass` appended to control lines, other code scanned as it is (%d cases)" % len(cases))
