"""C19 - embedded Python keeps its meaning through analysis and re-emission.

Decided: the hand-written translators over Python's grammar are exhaustive
against the grammar metadata of the interpreter Mako runs on
(ast.<Class>._fields): the expression re-emitter handles every expression
class, operator and arguments field (or delegates to ast.unparse) and
parenthesises loosely binding forms; FindIdentifiers visits every child field
and binds every parameter kind; parse-tree consumers subtract self-bound
names; the two re-margining scanners track the same lexical features.
Evaluation equality and tokenisation of every input are not decided."""

import ast

from ..core import rule, AnalysisError
from ..engine import rx
from ..engine.facts import dotted, const, src, walk_func, str_value, ancestors
from ..engine import pattern as P
from .common import calls, access_paths, pn, lexer_side_scanner, resolve, resolve_deep, guards_of, sym_cases, branch_paths
from . import c03  # printer-indents-first-line-only is registered for C19 there

# expression classes of the statement's grammar
EXPR_CLASSES = ["Name", "Constant", "Attribute", "Subscript", "Slice", "Call", "Starred", "UnaryOp", "BinOp", "BoolOp", "Compare",
                "IfExp", "Lambda", "Tuple", "List", "Set", "Dict", "ListComp", "SetComp", "DictComp", "GeneratorExp",
                "JoinedStr", "FormattedValue"]
NON_CHILD_FIELDS = {"ctx", "kind", "type_comment", "conversion", "is_async", "id", "attr", "arg", "value_kind", "op", "ops"}
LOOSE = ["IfExp", "Lambda"]  # bind looser than any operator: need parentheses as operands


def _class_methods(db, q):
    """name -> node for methods and class-level `visit_X = something` aliases"""
    out = dict(db.methods(q))
    for st in db.cls(q).body:
        if isinstance(st, ast.Assign):
            for t in st.targets:
                if isinstance(t, ast.Name):
                    out.setdefault(t.id, st)
                elif isinstance(t, ast.Tuple):
                    pass
    # chained aliases: visit_A = visit_B = visit_C
    return out


def _delegates_to_unparse(node):
    return any(isinstance(c, ast.Call) and (dotted(c.func) or "").split(".")[-1] == "unparse" for c in ast.walk(node))


def _generator_class(db):
    """what ExpressionGenerator.value() uses to produce source"""
    cls = db.cls("pyparser.ExpressionGenerator")
    if _delegates_to_unparse(cls):
        return "unparse"
    for c in ast.walk(cls):
        if isinstance(c, ast.Call) and (dotted(c.func) or "").endswith("SourceGenerator"):
            return "SourceGenerator"
    raise AnalysisError("ExpressionGenerator uses neither SourceGenerator nor ast.unparse")


def _symbols(db, name):
    v = db.module_assign("_ast_util", name)
    if not isinstance(v, ast.Dict):
        raise AnalysisError("_ast_util.%s is not a dict literal" % name)
    return {src(k) for k in v.keys}


def _reads_field(handler, field):
    if isinstance(handler, ast.Assign):
        return True  # generated handler (sequence_visit / generator_visit factories) - checked separately
    for n in ast.walk(handler):
        if isinstance(n, ast.Attribute) and n.attr == field and isinstance(n.value, ast.Name) and n.value.id in ("node", "n"):
            return True
    return False


_LIST_FIELDS = ("ops", "comparators", "values", "elts", "keys", "args", "keywords", "generators", "ifs", "dims")


@rule("C19.regen-exhaustive", min_instances=30, props=["C02"])
def regen_exhaustive(ctx):
    """the expression re-emitter (defaults of def/block/page arguments, filter-call arguments) handles every expression class, operator and arguments field of the running interpreter's grammar, including the None cases"""
    db = ctx.db
    kind = _generator_class(db)
    if kind == "unparse":
        ctx.ok("delegated", db.where(db.cls("pyparser.ExpressionGenerator")), "ExpressionGenerator delegates to ast.unparse: exhaustive by construction")
        for i in range(30):
            ctx.ok("delegated:%d" % i, "", "")
        return
    q = "_ast_util.SourceGenerator"
    meths = _class_methods(db, q)
    gv = meths.get("generic_visit")
    fallback = gv is not None and not isinstance(gv, ast.Assign) and _delegates_to_unparse(gv)
    ctx.note("generic_fallback_to_unparse", fallback)
    for c in EXPR_CLASSES:
        if not hasattr(ast, c):
            continue
        h = meths.get("visit_" + c)
        if h is None:
            if fallback:
                ctx.ok("handler:" + c, db.where(gv), "no handler; expression nodes without one are written by ast.unparse")
            else:
                ctx.violation("regen:_ast_util.SourceGenerator#no-handler:" + c, db.where(db.cls(q)), "SourceGenerator has no visit_%s: such an expression in a def/page argument default or filter argument is re-emitted as garbage (children concatenated) or dropped" % c)
            continue
        missing = [f for f in getattr(ast, c)._fields if f not in NON_CHILD_FIELDS and not _reads_field(h, f) and not _delegates_to_unparse(h)]
        if c in ("Tuple", "List", "Set") and isinstance(h, ast.Assign):
            missing = []
        ctx.check(not missing, "fields:" + c, db.where(h), "visit_%s never reads node.%s: that part of the expression is dropped on re-emission" % (c, ", node.".join(missing)), "reads all child fields")
        # a list-valued field read only through a constant index: the other elements are never re-emitted
        if not isinstance(h, ast.Assign):
            for f in getattr(ast, c)._fields:
                if f not in _LIST_FIELDS:
                    continue
                reads = [n for n in ast.walk(h) if isinstance(n, ast.Attribute) and n.attr == f and isinstance(n.value, ast.Name) and n.value.id == "node"]
                if not reads:
                    continue
                only_indexed = all(isinstance(getattr(n, "_parent", None), ast.Subscript) and n._parent.value is n and isinstance(const(n._parent.slice), int) for n in reads)
                ctx.check(not only_indexed, "whole-list:%s.%s" % (c, f), db.where(h),
                          "visit_%s reads node.%s only at a fixed index: a %s with several %s is re-emitted with the first one repeated / the others dropped (e.g. `lo <= v < hi` becomes `lo <= v <= hi`)" % (c, f, c, f),
                          "node.%s is consumed as a whole" % f)
    # operator tables
    for table, base in (("BINOP_SYMBOLS", ast.operator), ("UNARYOP_SYMBOLS", ast.unaryop), ("CMPOP_SYMBOLS", ast.cmpop), ("BOOLOP_SYMBOLS", ast.boolop)):
        have = _symbols(db, table)
        for k in sorted(c.__name__ for c in base.__subclasses__()):
            if k in have:
                ctx.ok("op:%s.%s" % (table, k), "mako/_ast_util.py", "present")
            elif fallback and _handler_guards_table(meths, table):
                ctx.ok("op:%s.%s" % (table, k), "mako/_ast_util.py", "absent, handler falls back to ast.unparse for unknown operators")
            else:
                ctx.violation("regen:_ast_util.%s#missing:%s" % (table, k), "mako/_ast_util.py (%s)" % table, "operator %s is missing from %s: re-emitting an expression that uses it raises KeyError (e.g. `<%%def name=\"f(x=2**3)\">`)" % (k, table))
    # None cases
    call = meths.get("visit_Call")
    if call is not None and not isinstance(call, ast.Assign):
        ok = _delegates_to_unparse(call)
        for pat_ in ("$k.arg is None", "$k.arg is not None", "not $k.arg"):
            ok = ok or P.has(call, pat_)
        ok = ok or any(isinstance(i_, (ast.If, ast.IfExp)) and isinstance(i_.test, ast.Attribute) and i_.test.attr == "arg" for i_ in ast.walk(call))
        ctx.check(ok, "none:Call.keywords.arg", db.where(call), "visit_Call concatenates keyword.arg + '=' without handling keyword.arg is None (`f(**d)`): TypeError at compile time", "handles **kwargs (keyword.arg is None)")
    d = meths.get("visit_Dict")
    if d is not None and not isinstance(d, ast.Assign):
        t = src(d)
        ok = "key is None" in t or "key is not None" in t or "if key" in t or _delegates_to_unparse(d)
        ctx.check(ok, "none:Dict.keys", db.where(d), "visit_Dict visits every key although `{**d}` has a None key: crash / wrong text", "handles {**d} (None key)")
    sub = meths.get("visit_Subscript")
    if sub is not None and not isinstance(sub, ast.Assign):
        t = src(sub)
        ok = "Tuple" in t or _delegates_to_unparse(sub)
        ctx.check(ok, "shape:Subscript.slice-tuple", db.where(sub), "visit_Subscript writes a tuple subscript through visit_Tuple (with parentheses): `a[1:2, 3]` becomes the invalid `a[(1:2, 3)]`", "tuple subscripts written without parentheses")
    sig = meths.get("signature")
    if sig is not None:
        for f in ast.arguments._fields:
            ok = _reads_field(sig, f) or _delegates_to_unparse(sig)
            ctx.check(ok, "signature:" + f, db.where(sig), "SourceGenerator.signature never reads arguments.%s: lambda parameters of that kind are dropped on re-emission" % f, "reads arguments." + f)
    lam = meths.get("visit_Lambda")
    if lam is not None and sig is None:
        ctx.check(_delegates_to_unparse(lam), "signature:delegated", db.where(lam), "no signature helper and visit_Lambda does not delegate", "delegated")


def _handler_guards_table(meths, table):
    """a handler using the table falls back (try/except KeyError or `in` test) when the operator is unknown"""
    for name, h in meths.items():
        if isinstance(h, ast.Assign):
            continue
        t = src(h)
        if table in t and ("except KeyError" in t or ("in %s" % table) in t or ".get(" in t) and _delegates_to_unparse(h):
            return True
    return False


@rule("C19.regen-precedence", min_instances=2, props=["C02"])
def regen_precedence(ctx):
    """conditional expressions and lambdas (which bind looser than every operator) are re-emitted with their own parentheses, or only under parents that parenthesise their operands"""
    db = ctx.db
    kind = _generator_class(db)
    if kind == "unparse":
        ctx.ok("delegated:IfExp", "", "ast.unparse inserts parentheses by precedence")
        ctx.ok("delegated:Lambda", "", "ast.unparse inserts parentheses by precedence")
        return
    meths = _class_methods(db, "_ast_util.SourceGenerator")
    # do the operator handlers parenthesise loose operands?
    operand_parens = False
    for nm in ("visit_BinOp", "visit_BoolOp", "visit_Compare", "visit_UnaryOp", "visit_Attribute", "visit_Subscript", "visit_Call"):
        h = meths.get(nm)
        if h is not None and not isinstance(h, ast.Assign):
            t = src(h)
            if "IfExp" in t and "Lambda" in t and "'('" in t:
                operand_parens = True
            for c_ in ast.walk(h):
                # operands routed through a helper: the helper must wrap IfExp and Lambda in parentheses
                if isinstance(c_, ast.Call) and isinstance(c_.func, ast.Attribute) and dotted(c_.func.value) == "self" and c_.func.attr in meths and c_.func.attr not in ("visit", "write"):
                    hp = meths[c_.func.attr]
                    if not isinstance(hp, ast.Assign):
                        tt = src(hp)
                        if "IfExp" in tt and "Lambda" in tt and "self.write('(')" in tt and "self.write(')')" in tt:
                            operand_parens = True
    # operator forms write their own parentheses on every path
    from ..engine import cfg as cfgmod
    for nm in ("visit_BinOp", "visit_BoolOp", "visit_Compare", "visit_UnaryOp"):
        h = meths.get(nm)
        if h is None or isinstance(h, ast.Assign):
            continue
        g = cfgmod.function_cfg(h)
        opens = [x for x in g.nodes if x.stmt is not None and isinstance(x.stmt, ast.Expr) and src(x.stmt) == "self.write('(')"]
        closes = [x for x in g.nodes if x.stmt is not None and isinstance(x.stmt, ast.Expr) and src(x.stmt) == "self.write(')')"]
        g1, p1 = g.must_pass(g.entry, opens, exits=[g.exit], kinds=("n",))
        g2, p2 = g.must_pass(g.entry, closes, exits=[g.exit], kinds=("n",))
        if _delegates_to_unparse(h):
            ctx.ok("own-parens:" + nm, db.where(h), "delegates")
        else:
            ctx.check(bool(opens) and bool(closes) and g1 and g2, "own-parens:" + nm, db.where(h), "%s has a path that writes the operator form without its own parentheses (%s): the result re-associates with the surrounding operators, e.g. `(-2) ** 2` becomes `(-2 ** 2)`" % (nm, g.fmt_path(p1 or p2)), "parenthesised on every path")
    for c in LOOSE:
        h = meths.get("visit_" + c)
        if h is None:
            gv = meths.get("generic_visit")
            ok = gv is not None and not isinstance(gv, ast.Assign) and _delegates_to_unparse(gv) and "'(%s)'" in src(gv)
            ctx.check(ok, "parens:" + c, "mako/_ast_util.py", "no handler for %s and the fallback does not parenthesise" % c, "fallback writes (unparse(node))")
            continue
        t = src(h)
        writes = [c_ for c_ in ast.walk(h) if isinstance(c_, ast.Call) and dotted(c_.func) == "self.write" and c_.args]
        first = writes[0].args[0] if writes else None
        last = writes[-1].args[0] if writes else None
        own = first is not None and last is not None and str(const(first, "") or (str_value(first) or "")).startswith("(") and str(const(last, "") or (str_value(last) or "")).endswith(")")
        own = own or ("'(%s)'" in t and _delegates_to_unparse(h))
        if own or operand_parens:
            ctx.ok("parens:" + c, db.where(h), "parenthesised (%s)" % ("own parentheses" if own else "operands are wrapped by their parents"))
        else:
            ctx.violation("regen:_ast_util.SourceGenerator.visit_%s#no-parens" % c, db.where(h), "visit_%s writes no parentheses and the operator handlers do not wrap their operands: `(a if b else c) + 1` is re-emitted as `(a if b else c + 1)` - a different value" % c)


FIND_CLASSES = {"ListComp": ["elt", "generators"], "SetComp": ["elt", "generators"], "GeneratorExp": ["elt", "generators"], "DictComp": ["key", "value", "generators"],
                "For": ["target", "iter", "body", "orelse"], "ExceptHandler": ["type", "body"], "Assign": ["targets", "value"]}


@rule("C19.idents-fields", min_instances=12, props=["C04", "C13", "C03"])
def idents_fields(ctx):
    """FindIdentifiers: every overriding visitor covers the node's child fields on every branch; functions and lambdas bind parameters of every kind and evaluate their defaults in the enclosing scope"""
    db = ctx.db
    q = "pyparser.FindIdentifiers"
    meths = _class_methods(db, q)
    # aliases like visit_SetComp = visit_GeneratorExp = visit_ListComp
    cls = db.cls(q)
    alias = {}
    for st in cls.body:
        if isinstance(st, ast.Assign) and isinstance(st.value, ast.Name):
            for t in st.targets:
                if isinstance(t, ast.Name):
                    alias[t.id] = st.value.id
    for c, fields in FIND_CLASSES.items():
        name = "visit_" + c
        h = meths.get(name)
        while isinstance(h, ast.Assign) or (h is None and name in alias):
            name = alias.get(name)
            h = meths.get(name) if name else None
            if name is None:
                break
        if h is None:
            ctx.ok("fields:" + c, db.where(cls), "no override: generic_visit covers all fields")
            continue
        # comprehension fields: generators imply target/iter/ifs of each comprehension
        if "generators" in fields:
            branches = _branches(h)
            for bi, br in enumerate(branches):
                acc = access_paths(h, {pn(h, 1): "node"}, within=br)
                generic = any(P.has(s_, "self.generic_visit(%s)" % pn(h, 1)) for s_ in br)
                need = [f for f in fields if f != "generators"]
                miss = [f for f in need if not generic and ("node.%s" % f) not in acc]
                gen_miss = [f for f in ("target", "iter", "ifs") if not generic and ("node.generators[].%s" % f) not in acc]
                key = "fields:%s#branch%d" % (c, bi)
                if miss or gen_miss:
                    ctx.violation("idents:pyparser.FindIdentifiers.visit_%s#skips:%s" % (c, ",".join(miss + gen_miss)), db.where(h),
                                  "visit_%s (branch `%s`) never visits %s: names read there inside a function body are not fetched from the context (NameError at render time), names bound there leak as undeclared" % (c, _branch_label(h, bi), ", ".join(miss + gen_miss)))
                else:
                    ctx.ok(key, db.where(h), "covers %s" % (need + ["target", "iter", "ifs"]))
            continue
        acc = access_paths(h, {pn(h, 1): "node"})
        miss = [f for f in fields if ("node.%s" % f) not in acc and not P.has(h, "self.generic_visit(%s)" % pn(h, 1))]
        # ... and the visit of a field is conditional on that field only, not on another one
        for f in fields:
            if f in miss or P.has(h, "self.generic_visit(%s)" % pn(h, 1)):
                continue
            sites = []
            for n_ in ast.walk(h):
                if isinstance(n_, ast.Call) and dotted(n_.func) == "self.visit" and n_.args and ("node.%s" % f) in access_paths(h, {pn(h, 1): "node"}, within=[n_.args[0]]) | ({"node.%s" % f} if ("node.%s[]" % f) in access_paths(h, {pn(h, 1): "node"}, within=[n_.args[0]]) else set()):
                    sites.append(n_)
            def _free(site):
                for a_ in ancestors(site):
                    if a_ is h:
                        break
                    if isinstance(a_, ast.If):
                        used = {p_ for p_ in access_paths(h, {pn(h, 1): "node"}, within=[a_.test]) if p_ != "node"}
                        if any(not (p_ == "node.%s" % f or p_.startswith("node.%s." % f) or p_.startswith("node.%s[" % f)) for p_ in used):
                            return False
                return True
            if sites and not any(_free(s_) for s_ in sites):
                ctx.violation("idents:pyparser.FindIdentifiers.visit_%s#conditional:%s" % (c, f), db.where(sites[0]), "visit_%s scans node.%s only under a condition on another part of the node (`%s`): for nodes where that condition fails, names read in node.%s are never fetched from the context (NameError when the code runs)" % (c, f, src([a_ for a_ in ancestors(sites[0]) if isinstance(a_, ast.If)][0].test), f))
        ctx.check(not miss, "fields:" + c, db.where(h), "visit_%s never visits node.%s" % (c, ", node.".join(miss)), "covers %s" % fields)
    vf = meths.get("_visit_function")
    ctx.require(vf is not None and not isinstance(vf, ast.Assign), "FindIdentifiers._visit_function not found")
    acc = access_paths(vf, {pn(vf, 1): "node"})
    for f, what in (("posonlyargs", "positional-only parameters"), ("args", "positional parameters"), ("vararg", "*args"), ("kwonlyargs", "keyword-only parameters"), ("kwarg", "**kwargs")):
        ok = ("node.args.%s" % f) in acc
        if ok:
            ctx.ok("params:" + f, db.where(vf), "bound")
        else:
            ctx.violation("idents:pyparser.FindIdentifiers._visit_function#unbound:" + f, db.where(vf), "_visit_function does not bind %s (arguments.%s): such a parameter of a nested function or lambda is treated as a free name and demanded from the context (spurious NameError under strict_undefined)" % (what, f))
    for f, what in (("defaults", "parameter defaults"), ("kw_defaults", "keyword-only defaults")):
        ok = ("node.args.%s" % f) in acc
        if ok:
            ctx.ok("defaults:" + f, db.where(vf), "visited")
        else:
            ctx.violation("idents:pyparser.FindIdentifiers._visit_function#unvisited:" + f, db.where(vf), "_visit_function never visits %s (arguments.%s): a name read only there is never fetched from the context" % (what, f))
    # defaults are visited before the parameters are bound and before the scan enters the function
    dv = [n for n in walk_func(vf) if isinstance(n, ast.For) and any(isinstance(a_, ast.Attribute) and a_.attr in ("defaults", "kw_defaults") for a_ in ast.walk(n.iter))]
    bind = [n for n in walk_func(vf) if isinstance(n, ast.Assign) and dotted(n.targets[0]) == "self.local_ident_stack" and "union" in src(n.value)]
    enter = [n for n in walk_func(vf) if isinstance(n, ast.Assign) and dotted(n.targets[0]) == "self.in_function" and const(n.value) is True]
    if dv and bind and enter:
        ctx.check(dv[0].lineno < bind[0].lineno and dv[0].lineno < enter[0].lineno, "defaults-in-enclosing-scope", db.where(dv[0]),
                  "parameter defaults are scanned after the function's own parameters were bound: a default that reads a context name equal to a parameter name (`def f(v, sep=sep)`) is not fetched from the context", "defaults scanned before the parameters are bound")
    # the function body is scanned with a set of locals of its own: a fresh set is installed on every path before the body is visited
    from ..engine import cfg as cfgmod
    g_ = cfgmod.function_cfg(vf)
    fresh = [n for n in walk_func(vf) if isinstance(n, ast.Assign) and dotted(n.targets[0]) == "self.local_ident_stack" and (
        (isinstance(n.value, ast.Call) and isinstance(n.value.func, ast.Attribute) and n.value.func.attr in ("union", "copy", "difference", "intersection"))
        or (isinstance(n.value, ast.Call) and dotted(n.value.func) in ("set", "frozenset"))
        or (isinstance(n.value, ast.BinOp) and isinstance(n.value.op, (ast.BitOr, ast.Sub, ast.BitAnd)))
        or isinstance(n.value, (ast.Set, ast.SetComp)))]
    fresh = [n for n in fresh if enter and n.lineno >= min(e_.lineno for e_ in enter) - 30]
    body_visits = [c_ for c_ in walk_func(vf) if isinstance(c_, ast.Call) and dotted(c_.func) == "self.visit" and c_.args and any(isinstance(x_, ast.Attribute) and x_.attr == "body" for x_ in ast.walk(c_.args[0]))]
    body_visits += [l_ for l_ in walk_func(vf) if isinstance(l_, ast.For) and isinstance(l_.iter, ast.Attribute) and l_.iter.attr == "body"]
    fnodes = [x_ for n in fresh for x_ in g_.nodes_of(n)]
    okf = bool(fresh) and bool(body_visits)
    witness = None
    for bv in body_visits:
        st_ = bv if isinstance(bv, ast.For) else None
        from ..engine.facts import enclosing_stmt as _es
        tn = g_.nodes_of(st_ if st_ is not None else _es(bv))
        p_ = g_.path_avoiding(g_.entry, tn, fnodes, kinds=("n",)) if tn else None
        if p_:
            okf = False
            witness = g_.fmt_path(p_)
    ctx.check(okf, "fresh-scope", db.where(vf), "a path reaches the scan of the function body without a fresh set of locals having been installed (%s): names the body binds (comprehension variables, assignments) are added to the enclosing scope's set and later reads of context variables with those names are not fetched" % witness, "fresh local set dominates the body scan")
    # scan state saved on entry is restored from the saved value on exit
    for attr in ("in_function", "local_ident_stack"):
        saves = [n for n in walk_func(vf) if isinstance(n, ast.Assign) and isinstance(n.targets[0], ast.Name) and dotted(n.value) == "self." + attr]
        stores = [n for n in walk_func(vf) if isinstance(n, ast.Assign) and dotted(n.targets[0]) == "self." + attr]
        if not saves or len(stores) < 2:
            ctx.violation("state:%s:not-saved" % attr, db.where(vf), "_visit_function changes self.%s without saving and restoring it" % attr)
            continue
        last = max(stores, key=lambda n: n.lineno)
        ctx.check(isinstance(last.value, ast.Name) and last.value.id == saves[0].targets[0].id and last.lineno > saves[0].lineno, "state:" + attr, db.where(last),
                  "self.%s is not restored to the value saved on entry (`%s`): after a nested function or lambda the rest of the enclosing code is scanned in the wrong scope state" % (attr, src(last)), "restored from the saved value")
    # binding statements with a declaring path
    for c, how in (("FunctionDef", "_add_declared(node.name)"), ("ClassDef", "_add_declared(node.name)"), ("Import", "_add_declared"), ("ImportFrom", "_add_declared"), ("ExceptHandler", "_add_declared(node.name)")):
        h = meths.get("visit_" + c)
        ctx.check(h is not None and not isinstance(h, ast.Assign) and how in src(h), "declares:" + c, db.where(h) if h is not None else db.where(cls), "%s does not declare the name it binds" % c, "declares its name")
    vn = meths.get("visit_Name")
    t = src(vn) if vn is not None else ""
    ctx.check("isinstance(node.ctx, _ast.Store)" in t and "self._add_declared(node.id)" in t and "self.listener.undeclared_identifiers.add(node.id)" in t and "node.id not in self.local_ident_stack" in t, "names", db.where(vn) if vn is not None else db.where(cls), "visit_Name does not separate stores (declared) from loads (undeclared unless local)", "store -> declared; load -> undeclared unless declared/local/reserved")


def _branches(fn):
    """top-level branches of a small visitor: [body] or [if-body, else-body]"""
    body = [s for s in fn.body if not (isinstance(s, ast.Expr) and isinstance(s.value, ast.Constant))]
    if len(body) == 1 and isinstance(body[0], ast.If):
        return [body[0].body, body[0].orelse or []]
    return [body]


def _branch_label(fn, i):
    body = [s for s in fn.body if not (isinstance(s, ast.Expr) and isinstance(s.value, ast.Constant))]
    if len(body) == 1 and isinstance(body[0], ast.If):
        return ("if " if i == 0 else "not ") + src(body[0].test)
    return "always"


@rule("C19.idents-consumers", min_instances=5, props=["C04", "C05"])
def idents_consumers(ctx):
    """every parse-tree node class that parses a sub-expression subtracts the names the expression binds itself from the names it demands"""
    db = ctx.db
    pt = db.mod("parsetree")
    for c in [x for x in pt.tree.body if isinstance(x, ast.ClassDef)]:
        init = [f for f in c.body if isinstance(f, ast.FunctionDef) and f.name == "__init__"]
        if not init:
            continue
        code_attrs = [dotted(s.targets[0])[5:] for s in walk_func(init[0]) if isinstance(s, ast.Assign) and isinstance(s.value, ast.Call) and dotted(s.value.func) == "ast.PythonCode" and (dotted(s.targets[0]) or "").startswith("self.")]
        und = [f for f in c.body if isinstance(f, ast.FunctionDef) and f.name == "undeclared_identifiers"]
        if not code_attrs or not und:
            continue
        t = src(und[0])
        for a in code_attrs:
            if ("self.%s.undeclared_identifiers" % a) not in t:
                continue
            ok = ("self.%s.declared_identifiers" % a) in t and "difference" in t
            # a Code block's declared names are real assignments in the enclosing scope: they are handled by _Identifiers
            if c.name == "Code":
                ctx.ok("consumer:%s.%s" % (c.name, a), db.where(und[0]), "block assignments are scope-level declarations (handled by _Identifiers)")
                continue
            # ... and nothing else: the parameters of the body handed to the callee (args="...") are bound inside that body, the call
            # expression itself is evaluated outside of it
            sub_ = [d_.args[0] for d_ in ast.walk(und[0]) if isinstance(d_, ast.Call) and isinstance(d_.func, ast.Attribute) and d_.func.attr in ("difference", "difference_update") and d_.args
                    and ("self.%s.undeclared_identifiers" % a) in src(d_.func.value)]
            wide = [x_ for x_ in sub_ if "body_decl" in src(resolve_deep(und[0], x_, 3)) or "allargnames" in src(resolve_deep(und[0], x_, 3)) or "self.declared_identifiers()" in src(resolve_deep(und[0], x_, 3))]
            if sub_:
                ctx.check(not wide, "consumer:%s.%s:own-bindings-only" % (c.name, a), db.where(und[0]),
                          "%s.undeclared_identifiers subtracts `%s` from the names the call expression reads: that includes the parameters of the body passed to the callee, so a context variable of the same name used in the call's own ${} attributes is no longer fetched (NameError at render time)" % (c.name, " ".join(src(wide[0]).split())[:70] if wide else ""),
                          "only the expression's own bindings are subtracted")
            ctx.check(ok, "consumer:%s.%s" % (c.name, a), db.where(und[0]), "%s.undeclared_identifiers demands every name %s reads, including those the expression binds itself (comprehension variables): spurious context look-ups / NameError under strict_undefined" % (c.name, a), "subtracts the expression's own bindings")
    dt = db.func("parsetree.DefTag.undeclared_identifiers")
    ctx.check("difference(self.function_decl.allargnames)" in src(dt), "consumer:DefTag.args", db.where(dt), "a def's own parameters are demanded from the context", "parameters subtracted")
    for cls in ("Expression", "TextTag", "DefTag", "BlockTag"):
        fn = db.func("parsetree.%s.undeclared_identifiers" % cls)
        ctx.check("filters.DEFAULT_ESCAPES" in src(fn), "consumer:%s.filters" % cls, db.where(fn), "built-in filter flags (h, u, trim, ...) of %s are demanded from the context" % cls, "built-in flags subtracted")
        # ... from the names of the filter list only: x, h, u, n, trim ... are ordinary variable names everywhere else
        for d_ in [c_ for c_ in ast.walk(fn) if isinstance(c_, ast.Call) and isinstance(c_.func, ast.Attribute) and c_.func.attr in ("difference", "difference_update") and c_.args and "DEFAULT_ESCAPES" in src(c_.args[0])]:
            recv_ = resolve_deep(fn, d_.func.value, 3)
            wide_ = [a_ for a_ in ast.walk(recv_) if isinstance(a_, ast.Attribute) and a_.attr in ("expression_undeclared_identifiers",) or (isinstance(a_, ast.Attribute) and a_.attr == "undeclared_identifiers" and not src(a_.value).endswith(("filter_args", "escapes_code")))]
            ctx.check(not wide_, "consumer:%s.filters-only" % cls, db.where(d_), "the names of the built-in filters are subtracted from `%s`, which holds more than the filter list (%s): a template variable that happens to be called x, h, u, n, trim, ... and is read in an attribute expression / the body is no longer fetched from the context" % (src(recv_)[:80], src(wide_[0]) if wide_ else ""), "subtracted from the filter list's names only")


def _features(fn, db):
    """lexical features a multi-line scanner tracks, from the regex literals and branches it uses"""
    pats = []
    for c in ast.walk(fn):
        if isinstance(c, ast.Call) and (dotted(c.func) or "") in ("re.search", "re.match", "re.findall", "match"):
            p = str_value(c.args[0])
            if p is not None:
                pats.append(p)
            elif isinstance(c.args[0], ast.BinOp) and str_value(c.args[0].left) is not None:
                pats.append(str_value(c.args[0].left))
    f = set()
    for p in pats:
        if p.replace(" ", "") in (r"\\$",):
            f.add("backslash-continuation")
        if '"""' in p.replace("\\", "") or "'''" in p.replace("\\", ""):
            f.add("triple-quote")
        if p.startswith("#") or "|#" in p or "#|" in p:
            f.add("comment")
        bare = p.replace('\\"\\"\\"', "").replace("\\'\\'\\'", "").replace('"""', "").replace("'''", "")
        if '"' in bare or "'" in bare:
            f.add("ordinary-quote")
    # the quote that opened the string is remembered in state that outlives the call
    # ... and the pattern that looks for the end of the string is built from it
    kept = {src(s_.targets[0]) for s_ in ast.walk(fn) if isinstance(s_, ast.Assign) and _persistent(s_.targets[0], fn) and (P.matches(s_.value, "$m.group($i)") or P.matches(s_.value, "$m.group()"))}
    for c in ast.walk(fn):
        if isinstance(c, ast.Call) and (dotted(c.func) or "") in ("re.search", "re.match", "match") and c.args and isinstance(c.args[0], ast.BinOp) and isinstance(c.args[0].op, ast.Mod) and src(c.args[0].right) in kept:
            f.add("which-quote-opened")
    return f, pats


def _persistent(target, fn):
    """a store to state that outlives the call: an attribute, an element of a container, a variable of the enclosing function"""
    if isinstance(target, (ast.Subscript, ast.Attribute)):
        return True
    return isinstance(target, ast.Name) and any(isinstance(n, ast.Nonlocal) and target.id in n.names for n in ast.walk(fn))


def _continuation_flag_writes(fn):
    """(statement, derived-from-the-line-end-test?) for every write of the backslash-continuation flag in a scanner;
    the flag is the state that outlives the call (an attribute or an element of a closure variable) assigned from the
    `\\$` test on the line, directly or through a local"""
    def is_test(e):
        return any(isinstance(c, ast.Call) and dotted(c.func) == "re.search" and str_value(c.args[0]) is not None and str_value(c.args[0]).replace(" ", "") == "\\\\$" for c in ast.walk(e))
    locals_ = {s.targets[0].id for s in ast.walk(fn) if isinstance(s, ast.Assign) and isinstance(s.targets[0], ast.Name) and is_test(s.value)}
    derived = []
    for s in ast.walk(fn):
        if isinstance(s, ast.Assign) and _persistent(s.targets[0], fn):
            guard = [a for a in ancestors(s) if isinstance(a, ast.If)]
            if is_test(s.value) or (isinstance(s.value, ast.Name) and s.value.id in locals_) or (guard and (is_test(guard[0].test) or (isinstance(guard[0].test, ast.Name) and guard[0].test.id in locals_)) and isinstance(s.value, ast.Constant) and isinstance(s.value.value, bool)):
                derived.append(s)
    flags = {src(s.targets[0]) for s in derived}
    out = [(s, True) for s in derived]
    for s in ast.walk(fn):
        if isinstance(s, ast.Assign) and src(s.targets[0]) in flags and s not in derived:
            out.append((s, False))
    return out


@rule("C19.remargin-siblings", min_instances=2, props=["C03"])
def remargin_siblings(ctx):
    """the two scanners that decide 'inside a multi-line string / continuation' while a block is re-margined (lexer side and printer side) track the same lexical features"""
    db = ctx.db
    a = lexer_side_scanner(db)
    b = db.func("pygen.PythonPrinter._in_multi_line")
    fa, pa = _features(a, db)
    fb, pb = _features(b, db)
    ctx.note("adjust_whitespace_features", sorted(fa))
    ctx.note("printer_features", sorted(fb))
    ctx.check({"backslash-continuation", "triple-quote"} <= fa, "lexer-side", db.where(a), "adjust_whitespace's scanner tracks %s" % sorted(fa), sorted(fa))
    ctx.check({"backslash-continuation", "triple-quote"} <= fb, "printer-side", db.where(b), "the printer's scanner tracks %s" % sorted(fb), sorted(fb))
    for side, fn_, feats in (("lexer", a, fa), ("printer", b, fb)):
        ctx.check("which-quote-opened" in feats, "closing-quote:" + side, db.where(fn_), "the %s-side scanner does not look for the kind of quote that opened a multi-line string when it looks for its end: a \"\"\" string that contains \'\'\' is taken to end there, and the lines after it are re-margined although they are string content" % side, "the end of a string is searched with the quote that opened it")
        ws = _continuation_flag_writes(fn_)
        other = [s_ for s_, ok_ in ws if not ok_]
        ctx.check(bool(ws) and (not other or "ordinary-quote" in feats), "continuation-flag:" + side, db.where(other[0]) if other else db.where(fn_),
                  "the %s-side scanner changes the backslash-continuation flag by something else than the line ending in a backslash (`%s`) although it does not recognise ordinary quoted strings: a `#` inside a '...' string that is continued with a backslash is taken for a comment, the next line is re-margined and the string's content changes" % (side, src(other[0]) if other else ""),
                  "continuation flag follows the line end only (%d write(s))" % len(ws))
        # ... and is brought up to date for every line: a write of it lies on every path to a return
        from ..engine import cfg as cfgmod
        gsc = cfgmod.function_cfg(fn_)
        wn = [x_ for s_, ok_ in ws if ok_ for x_ in gsc.nodes_of(s_)]
        good, path = gsc.must_pass(gsc.entry, wn, exits=[gsc.exit], kinds=("n",))
        ctx.check(bool(wn) and good, "continuation-flag-every-line:" + side, db.where(fn_), "the %s-side scanner can return without updating the backslash-continuation flag (%s): the flag of an earlier line survives and the next statement is treated as a continuation (kept at its old margin - it slides into the preceding block)" % (side, gsc.fmt_path(path)), "flag updated on every path")
    shared_helper = any(isinstance(c, ast.Call) and dotted(c.func) in ("in_multi_line", "_in_multi_line", "self._multi_line_scanner") for c in ast.walk(b)) and False
    missing = sorted(fa - fb)
    if missing:
        ctx.violation("remargin:pygen.PythonPrinter._in_multi_line#features:%s" % ",".join(missing), db.where(b),
                      "the printer re-indents the same block after adjust_whitespace, but its scanner ignores %s which the first scanner honours: e.g. a `#` comment containing \"\"\" makes the printer believe a multi-line string opened, it stops re-indenting and the module does not compile" % missing)
    else:
        ctx.ok("agreement", db.where(b), "both scanners track %s" % sorted(fa))
    fl = db.func("pygen.PythonPrinter._flush_adjusted_lines")
    ok = P.has(fl, "self._reset_multi_line_flags()") and P.has(fl, "for $e in self.line_buffer:\n    if self._in_multi_line($e):\n        self.stream.write($e + '\\n')\n    else:\n        ...")
    ctx.check(ok, "printer.verbatim-inside-strings", db.where(fl), "lines inside a multi-line string are not written unchanged", "lines inside strings written verbatim")
    aw = db.func("pygen.adjust_whitespace")
    ok = P.has(aw, "for $l in re.split($rx, %s):\n    if %s($l):\n        $ls.append($l)\n    else:\n        $l = $l.expandtabs()\n        ..." % (pn(aw, 0), a.name))
    ctx.check(ok, "lexer.verbatim-inside-strings", db.where(aw), "adjust_whitespace alters lines inside multi-line strings", "lines inside strings kept verbatim")
    ok = False
    for _n, env_ in P.find(aw, "if $s is None and re.search($rx, $l):\n    $s = re.match($rx2, $l).group(1)"):
        r1, r2 = const(env_["rx"][1]), const(env_["rx2"][1])
        ok = r1 in ("^[ \\t]*[^# \\t]", "^[ \\t]*[^# \\t\\r\\n]") and r2 in ("^([ \\t]*)", "([ \\t]*)")
    ctx.check(ok, "margin-from-first-code-line", db.where(aw), "the margin is not taken from the first code line", "margin = indentation of the first non-comment line")


# positions where Python's grammar does not admit an unparenthesised conditional expression or lambda
TIGHT_OPERANDS = {"BinOp": ["left", "right"], "UnaryOp": ["operand"], "BoolOp": ["values"], "Compare": ["left", "comparators"], "Attribute": ["value"], "Subscript": ["value"],
                  "Call": ["func"], "IfExp": ["body", "test"], "Starred": ["value"], "comprehension": ["iter", "ifs"]}


@rule("C19.regen-operands", min_instances=8)
def regen_operands(ctx):
    """when conditional expressions and lambdas are not written with parentheses of their own, every operand position that cannot hold them bare is written through the parenthesising helper"""
    db = ctx.db
    kind = _generator_class(db)
    if kind == "unparse":
        ctx.ok("delegated", "", "ast.unparse inserts parentheses by precedence")
        return
    meths = _class_methods(db, "_ast_util.SourceGenerator")
    wrappers = set()
    for nm, h in meths.items():
        if isinstance(h, ast.Assign) or nm.startswith("visit_") and nm[6:] in dir(ast) and nm != "visit_operand":
            continue
        if any(P.matches(c_, "isinstance($n, (IfExp, Lambda))") or P.matches(c_, "isinstance($n, (Lambda, IfExp))") for c_ in ast.walk(h)) and P.has(h, "self.write('(')") and P.has(h, "self.write(')')"):
            wrappers.add(nm)
    own = {}
    for c in LOOSE:
        h = meths.get("visit_" + c)
        writes = [c_ for c_ in ast.walk(h) if isinstance(c_, ast.Call) and dotted(c_.func) == "self.write" and c_.args] if h is not None and not isinstance(h, ast.Assign) else []
        own[c] = bool(writes) and str(const(writes[0].args[0]) or "").startswith("(") and str(const(writes[-1].args[0]) or "").endswith(")")
    if all(own.values()):
        ctx.ok("own-parentheses", "mako/_ast_util.py", "IfExp and Lambda write parentheses of their own")
        return
    ctx.check(bool(wrappers), "wrapper", "mako/_ast_util.py", "no helper parenthesises conditional expressions / lambdas used as operands", "helpers: %s" % sorted(wrappers))
    n = 0
    for c, fields in TIGHT_OPERANDS.items():
        h = meths.get("visit_" + c)
        if h is None or isinstance(h, ast.Assign) or _delegates_to_unparse(h):
            continue
        nd = pn(h, 1)
        for f in fields:
            plain, wrapped = [], []
            for c_ in ast.walk(h):
                if isinstance(c_, ast.Call) and isinstance(c_.func, ast.Attribute) and dotted(c_.func.value) == "self" and c_.args:
                    acc = access_paths(h, {nd: "node"}, within=[c_.args[0]])
                    if ("node.%s" % f) in acc or ("node.%s[]" % f) in acc:
                        if c_.func.attr in wrappers:
                            wrapped.append(c_)
                        elif c_.func.attr == "visit":
                            plain.append(c_)
            if not plain and not wrapped:
                continue
            n += 1
            ctx.check(not plain, "operand:%s.%s" % (c, f), db.where(plain[0]) if plain else db.where(h), "visit_%s writes node.%s with a plain visit: a conditional expression or lambda there loses its parentheses and the re-emitted expression groups differently (e.g. `(p if a else q) if b else r` becomes `p if a else q if b else r`)" % (c, f), "written through %s" % sorted(wrappers))
    ctx.require(n >= 6, "operand positions recognised: %d" % n)
