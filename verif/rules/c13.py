"""C13 - an exception at any point leaves the render state consistent.

Primary use of the emission model: for every construct skeleton and every
feasible flag assignment a typestate dataflow over the skeleton's CFG (with
exceptional and return edges out of every user region) shows that every stack
push the generator can emit is released LIFO on every exit."""

import ast

from ..core import rule, AnalysisError
from ..engine import cfg as cfgmod, typestate
from ..engine.facts import dotted, const, src, walk_func, enclosing_stmt, ancestors
from . import skeletons as sk
from ..engine import pattern as P
from .common import calls, stmt_nodes, norm_successors, contains, raise_names, pn, access_paths, assigned_from, arms, branch_paths, guards_of, atomic_facts, facts_at, resolve, resolve_deep
from . import c16  # render-isolation is registered there for C13 as well

DEF_CONSTRUCTS = ["write_render_callable", "write_inline_def"]
OTHER_CONSTRUCTS = ["visitCallTag", "visitTextTag", "write_cache_decorator", "write_variable_declares", "write_def_decl",
                    "write_namespaces", "write_inherit", "visitExpression", "visitText", "visitCode", "visitIncludeTag",
                    "visitBlockTag"]


def check_skeleton(ctx, S, s, key, allow_write_in_finally=False, where=None, entry_bound=True):
    """EMIT-WF + typestate of one skeleton; returns number of violations"""
    db = ctx.db
    where = where or "mako/codegen.py (%s)" % s.construct
    n0 = len([i for i in ctx.items if i["status"] == "violation"])
    if s.tree is None or s.res.error or s.res.final_indent != 0:
        ctx.violation(key + ":wf", where, "emitted code is not well-formed (%s; final indent %+d):\n%s" % (s.res.error or "does not parse", s.res.final_indent, s.source), skeleton=s.source, atoms=s.trace.asg)
        return 1
    ch = S.checker()
    problems = []
    fns = sk.functions_of(s.tree)
    for fn in fns:
        top = fn is s.tree.body[0]
        g, viol, exits = ch.check_function(fn.body, s.tag + ":" + fn.name, entry_writer_bound=(top and entry_bound))
        for v in viol:
            problems.append("%s in %s line %d: %s" % (v.kind, fn.name, v.line, v.msg))
        for st, wd in exits["normal"]:
            if st != ():
                problems.append("leak in %s: normal exit with %s still held" % (fn.name, list(st)))
            if top and entry_bound and wd != 0:
                problems.append("writer in %s: construct ends with __M_writer bound at depth %s instead of the current depth" % (fn.name, wd))
        for st, wd in exits["exc"]:
            if st != ():
                problems.append("leak in %s: exceptional exit with %s still held" % (fn.name, list(st)))
    for ln, msg in sk.finally_order_problems(ch, s.tree):
        problems.append("finally-order line %d: %s" % (ln, msg))
    if not allow_write_in_finally:
        for st in sk.writes_in_finally(ch, s.tree):
            problems.append("write-in-finally: `%s` writes a partial buffer on the exceptional path" % src(st))
    problems = sorted(set(problems))
    if problems:
        kinds = sorted({p.split(" ")[0] for p in problems})
        ctx.violation(key + ":" + "+".join(kinds), where, "; ".join(problems[:4]) + "\n" + s.source, skeleton=s.source, atoms=s.trace.asg, problems=problems)
    else:
        ctx.ok(key, where, "%d callables, well-formed, all exits balanced" % len(fns))
    return len([i for i in ctx.items if i["status"] == "violation"]) - n0


def loop_construct_traces(S):
    """(start trace, end trace) pairs of the `% for` construct linked through has_loop_context"""
    trs = S.model.method_traces("visitControlLine")
    starts = [t for t in trs if t.asg.get("node.isend") is False and t.outcome != "raise"]
    ends = [t for t in trs if t.asg.get("node.isend") is True]
    out = []
    for st in starts:
        flag = any(d.endswith("has_loop_context") and isinstance(v, sk.emit.Const) and v.v is True for d, v, _ in st.sets)
        for en in ends:
            hk = [k for k in en.asg if "has_loop_context" in k]
            if not hk:
                continue
            if en.asg[hk[0]] == flag:
                out.append((st, en, flag))
    return starts, ends, out


def compose(S, parts, user_header=None):
    """layout a sequence of event lists as one skeleton"""
    events = []
    for p in parts:
        events.extend(p)
    res = S.layout.run(events, user_header=user_header, star_unroll=S.star)
    tree = sk.emit.parse_skeleton(res)
    return res, tree


class _T:
    def __init__(self, asg):
        self.asg = asg


@rule("C13.skeleton-typestate", min_instances=60, props=["C05"])
def skeleton_typestate(ctx):
    """typestate of every emitted construct x flag assignment: buffers, caller frames, loop stack, nextcaller and writer binding are released LIFO on every exit (normal, return, exception)"""
    db = ctx.db
    S = sk.get(db, 2 if ctx.tier == "thorough" else 1)
    summ = S.summaries()
    ctx.note("summaries", summ)
    for nm, s in summ.items():
        ctx.check(s["neutral"], "summary:" + nm, "mako/codegen.py (%s)" % nm, "self-contained emitter %s is not typestate-neutral on its own" % nm, "neutral over %d traces (binds writer: %s)" % (s["n"], s["binds_writer"]))
    ctx.check(summ.get("write_variable_declares", {}).get("binds_writer"), "writer-bound-by-declares", "mako/codegen.py (write_variable_declares)",
              "write_variable_declares does not bind __M_writer to the current writer on every path: callables write through an unbound/stale writer", "every trace ends with __M_writer bound at the current depth")
    n = 0
    for c in DEF_CONSTRUCTS + OTHER_CONSTRUCTS:
        sks = S.build(c)
        ctx.require(sks, "no traces for construct %s" % c)
        seen = set()
        for s in sks:
            key = "%s[%s]" % (c, s.flagtag())
            sig = (key, tuple(s.trace.brief()))
            if sig in seen:
                continue
            seen.add(sig)
            n += 1
            check_skeleton(ctx, S, s, key, allow_write_in_finally=(c == "visitTextTag"))
    # the loop construct and the generic control line
    starts, ends, pairs = loop_construct_traces(S)
    ctx.require(pairs, "loop construct: no start/end traces of visitControlLine could be paired")
    seen = set()
    nl = 0
    for st, en, flag in pairs:
        hdr = sk.HEADERS["for"] if (flag or st.asg.get("node.keyword == 'for'")) else sk.HEADERS["while"]
        res, tree = compose(S, [st.events, [("CHILDREN", "body")], en.events], user_header=hdr)
        sig = tuple(l for _, l, _ in res.lines)
        if sig in seen:
            continue
        seen.add(sig)
        s = sk.Skel("control-line", _T(dict(loop_context=flag)), res, tree, "control-line")
        s.trace.brief = lambda: []
        key = "loop-construct[loop_context=%d]#%d" % (flag, len(seen))
        check_skeleton(ctx, S, s, key)
        nl += flag
    ctx.check(nl >= 1, "loop-construct.present", "mako/codegen.py (visitControlLine)", "no skeleton with a loop context was produced: the loop push/pop is never emitted", "%d loop-context skeletons" % nl)
    if ctx.tier == "thorough":
        _compositions(ctx, S)
    ctx.note("emit_stats", {k: (sorted(v) if isinstance(v, set) else v) for k, v in S.model.stats.items()})
    ctx.note("layout_regexes", S.layout.re_src)
    # the only write inside a finally is <%text filter>: its children cannot raise (Text only)
    lx = db.func("lexer.Lexer.match_tag_start")
    ok = False
    for n_ in walk_func(lx):
        if isinstance(n_, ast.If) or isinstance(n_, ast.IfExp):
            pass
    for n_ in ast.walk(lx):
        if isinstance(n_, ast.If) and P.has(n_.test, "$k == 'text'"):
            app = [c for c in ast.walk(n_) if isinstance(c, ast.Call) and dotted(c.func) == "self.append_node"]
            rets = [r for r in ast.walk(n_) if isinstance(r, ast.Return)]
            closes = any("match_tag_end" in src(r.value) for r in rets if r.value is not None) or any(isinstance(c, ast.Call) and dotted(c.func) == "self.tag.pop" for c in ast.walk(n_))
            ok = bool(app) and all(src(c.args[0]) == "parsetree.Text" for c in app) and closes
    ctx.check(ok, "texttag-children-text-only", db.where(lx), "the body of <%text> is no longer lexed as a single Text node followed by its end tag: the write in visitTextTag's finally could emit a partial buffer", "<%text> body is one Text node (cannot raise)")


@rule("C13.runtime-pairing", min_instances=3, props=["C05"])
def runtime_pairing(ctx):
    """runtime helpers (capture, supports_caller, warnings hook) release what they push on every exit"""
    db = ctx.db
    rt = typestate.RuntimeEffects(db)
    acq, rel = {}, {}
    for clsq in rt.STACKS:
        for m in db.methods(clsq):
            if m.startswith("__"):
                continue
            try:
                e = rt.effect(clsq, m)
            except AnalysisError:
                continue
            if e.net() == 1:
                acq[m] = clsq
            elif e.net() == -1:
                rel[m] = clsq
    ctx.note("acquire_methods", acq)
    ctx.note("release_methods", rel)
    ctx.require({"_push_buffer", "_push_writer", "_push_frame"} <= set(acq) and {"_pop_buffer", "_pop_buffer_and_writer", "_pop_frame"} <= set(rel),
                "effect summaries of runtime.py no longer show the push/pop primitives (acquire=%s release=%s)" % (sorted(acq), sorted(rel)))
    n = 0
    for q, fn in list(db.functions_in("runtime")) + list(db.functions_in("template")) + list(db.functions_in("exceptions")):
        cls = q.rsplit(".", 1)[0]
        if cls in rt.STACKS and (fn.name in acq or fn.name in rel or fn.name.startswith("__")):
            continue  # the primitives themselves
        a_sites = [c for c in calls_any(fn) if isinstance(c.func, ast.Attribute) and c.func.attr in acq and (cls in rt.STACKS or not dotted(c.func.value) == "self")]
        if not a_sites:
            continue
        g = cfgmod.function_cfg(fn)
        for a in a_sites:
            n += 1
            res = acq[a.func.attr]
            rels = [x for c in calls_any(fn) if isinstance(c.func, ast.Attribute) and c.func.attr in rel and rel[c.func.attr] == res for x in stmt_nodes(g, c)]
            ok = True
            wit = None
            for node in stmt_nodes(g, a):
                for s in norm_successors(node):
                    good, path = g.must_pass(s, rels)
                    if not good:
                        ok, wit = False, g.fmt_path(path)
            ctx.check(ok, "%s:%s" % (q, a.func.attr), db.where(a), "%s pushes (%s) but a path leaves without the matching pop: %s" % (q, a.func.attr, wit), "pop on every exit")
    ctx.require(n >= 2, "expected push sites in runtime.capture and supports_caller, found %d" % n)
    # warnings hook swap restored in finally
    fn = db.func("template._show_warnings_as")
    g = cfgmod.function_cfg(fn)
    sets = [s for s in walk_func(fn) if isinstance(s, ast.Assign) and any(dotted(t) == "warnings.showwarning" for t in s.targets)]
    ctx.require(len(sets) >= 2, "_show_warnings_as: hook swap/restore not found")
    swap, restore = sets[0], sets[-1]
    saved = [s for s in walk_func(fn) if isinstance(s, ast.Assign) and src(s.value) == "warnings.showwarning"]
    ctx.check(bool(saved) and src(restore.value) == src(saved[0].targets[0]), "warnings-hook.restore-value", db.where(restore), "the hook is not restored to the saved original", "restores the saved hook")
    rn = g.nodes_of(restore)
    ok = True
    for node in g.nodes_of(swap):
        for s in norm_successors(node):
            good, path = g.must_pass(s, rn)
            ok = ok and good
    ctx.check(ok, "warnings-hook.pairing", db.where(swap), "warnings.showwarning is replaced but not restored on every exit", "restored in finally on every exit")


def calls_any(fn):
    return [n for n in walk_func(fn) if isinstance(n, ast.Call)]


@rule("C13.handlers", min_instances=6)
def handlers(ctx):
    """error handlers: a falsy result re-raises the original exception; format_exceptions replaces the whole buffer stack; nothing else in runtime.py swallows exceptions"""
    db = ctx.db
    inc = db.func("runtime._include_file")
    hs = [h for n in walk_func(inc) if isinstance(n, ast.Try) for h in n.handlers]
    ctx.require(hs, "_include_file has no except clause (anchor)")
    h = hs[0]
    # the handler's verdict: a local holding it, or the call itself
    verdicts = {src(s.targets[0]) for s in ast.walk(h) if isinstance(s, ast.Assign) and "include_error_handler" in src(resolve_deep(inc, s.value, 2))}
    verdicts |= {src(c_) for c_ in ast.walk(h) if isinstance(c_, ast.Call) and (dotted(resolve_deep(inc, c_.func, 2)) or "").endswith(".include_error_handler")}
    bare = [r for r in ast.walk(h) if isinstance(r, ast.Raise) and r.exc is None]
    # every way through the handler that does not end in a bare `raise` has seen the handler's verdict come out true
    ok = bool(bare) and bool(verdicts)
    for p_ in branch_paths(h.body):
        if isinstance(p_.exit, ast.Raise) and p_.exit.exc is None:
            continue
        fa = atomic_facts(p_.conds)
        if not any((v_, True) in fa for v_ in verdicts):
            ok = False
    ctx.check(ok, "include.reraise", db.where(h), "include_error_handler returning a falsy value does not re-raise the original exception with a bare `raise`", "`if not result: raise`")
    ctx.check(h.type is not None and src(h.type) == "Exception", "include.catches", db.where(h), "include handler catches %s" % (src(h.type) if h.type else "everything"), "catches Exception only")
    ex = db.func("runtime._exec_template")
    hs = [h for n in walk_func(ex) if isinstance(n, ast.Try) for h in n.handlers]
    ctx.require(hs, "_exec_template has no except clause (anchor)")
    etv = assigned_from(ex, "%s._with_template" % pn(ex, 1))
    for h in hs:
        cs = [c for c in ast.walk(h) if isinstance(c, ast.Call) and dotted(c.func) == "_render_error"]
        ctx.check(bool(cs) and len(cs[0].args) == 3 and src(cs[0].args[0]) in etv and src(cs[0].args[1]) == pn(ex, 1), "exec.delegates:%s" % (src(h.type) if h.type else "bare"), db.where(h), "except clause does not delegate to _render_error(template, context, error)", "delegates to _render_error")
    gtest = [n for n in walk_func(ex) if isinstance(n, ast.If)]
    ctx.check(any("format_exceptions" in src(i.test) and "error_handler" in src(i.test) for i in gtest), "exec.guard", db.where(ex), "handling is not limited to templates with format_exceptions/error_handler", "only when format_exceptions or error_handler")
    re_ = db.func("runtime._render_error")
    top = [s for s in re_.body if isinstance(s, ast.If)]
    ctx.require(top and "error_handler" in src(top[0].test), "_render_error: handler branch not found")
    hb = top[0]
    rs = [r for r in ast.walk(ast.Module(body=hb.body, type_ignores=[])) if isinstance(r, ast.Raise)]
    under_not = [i for i in ast.walk(ast.Module(body=hb.body, type_ignores=[])) if isinstance(i, ast.If) and isinstance(i.test, ast.UnaryOp) and isinstance(i.test.op, ast.Not)]
    errp = pn(re_, 2)
    infov = assigned_from(re_, "sys.exc_info()#1")
    from_info = [r for r in rs if r.exc is None or any(P.matches(r.exc, "%s.with_traceback($tb)" % v_) or src(r.exc) == v_ for v_ in infov)]
    from_param = [r for r in rs if r.exc is not None and src(r.exc) == errp]
    orig = bool(from_info)
    if not from_info and from_param:
        # re-raising the argument is the original object only if every caller passes the exception instance
        sites = [c for c in ast.walk(db.mod("runtime").tree) if isinstance(c, ast.Call) and dotted(c.func) == "_render_error" and len(c.args) >= 3]
        def _instance(c):
            a = c.args[2]
            f = getattr(c, "_func", None)
            if P.matches(a, "compat.exception_as()") or P.matches(a, "sys.exc_info()[1]"):
                return True
            if isinstance(a, ast.Name) and f is not None:
                if a.id in assigned_from(f, "sys.exc_info()[1]") | assigned_from(f, "compat.exception_as()"):
                    return True
                return any(isinstance(h, ast.ExceptHandler) and h.name == a.id for h in ancestors(c))
            return False
        classes = [c for c in sites if not _instance(c)]
        orig = bool(sites) and not classes
        if classes:
            ctx.violation("render_error.reraise-argument", db.where(from_param[0]), "a falsy error_handler result re-raises the `%s` argument, but %s passes `%s`, which is not the exception instance (for exceptions that are not Exception subclasses it is the class): a new object is raised instead of the original" % (errp, getattr(getattr(classes[0], "_func", None), "_qual", "?"), src(classes[0].args[2])))
    ctx.check(bool(under_not) and bool(rs) and orig and all(contains(under_not[0], r) for r in rs), "render_error.reraise", db.where(hb), "a falsy error_handler result does not re-raise the original exception object", "`if not result:` re-raises the original value with its traceback")
    eb = hb.orelse
    repl = [s for s in ast.walk(ast.Module(body=eb, type_ignores=[])) if isinstance(s, ast.Assign) and any(isinstance(t, ast.Subscript) and dotted(t.value) == "context._buffer_stack" and isinstance(t.slice, ast.Slice) and t.slice.lower is None and t.slice.upper is None for t in s.targets)]
    rc = [c for c in ast.walk(ast.Module(body=eb, type_ignores=[])) if isinstance(c, ast.Call) and (dotted(c.func) or "").endswith(".render_context")]
    # the replacement buffer is configured from the error template that is rendered into it
    ets = {src(c.func.value) for c in rc}
    bufs = [c for r_ in repl for c in ast.walk(r_.value) if isinstance(c, ast.Call) and (dotted(c.func) or "").endswith("FastEncodingBuffer") and (c.args or c.keywords)]
    for b_ in bufs:
        vals = [src(a_) for a_ in b_.args] + [src(k_.value) for k_ in b_.keywords]
        owners = {v_.rsplit(".", 1)[0] for v_ in vals if "." in v_}
        ctx.check(len(ets) == 1 and owners == ets, "render_error.buffer-config", db.where(b_), "the buffer the error page is rendered into is configured from %s, the page is rendered by %s: the page's own encoding_errors ('htmlentityreplace') is not in force and an unencodable character in the error message makes render() raise instead of showing the page" % (sorted(owners), sorted(ets)), "encoding and errors of the error template")
    g = cfgmod.function_cfg(re_)
    rcn = [x for c in rc for x in stmt_nodes(g, c)]
    rpn = [x for r in repl for x in g.nodes_of(r)]
    path = g.path_avoiding(g.entry, rcn, rpn) if rcn else None
    ctx.check(bool(repl) and bool(rc) and path is None and all(isinstance(a_, ast.List) and len(a_.elts) == 1 for r in repl for a_ in arms(r.value)), "render_error.buffer-reset", db.where(re_),
              "format_exceptions does not replace the whole buffer stack with one fresh buffer before rendering the error page: partial output of abandoned buffers leaks into it", "buffer stack replaced by one fresh buffer on both branches")
    # every other except clause in runtime.py re-raises or translates
    allowed = {("runtime._include_file", "Exception"), ("runtime._exec_template", "Exception"), ("runtime._exec_template", None),
               ("runtime._decorate_toplevel.decorate_render.go", "TypeError")}
    m = db.mod("runtime")
    for n in ast.walk(m.tree):
        if isinstance(n, ast.ExceptHandler):
            f = getattr(n, "_func", None)
            q = getattr(f, "_qual", "<module>")
            t = src(n.type) if n.type is not None else None
            if (q, t) in allowed:
                ctx.ok("except:%s:%s" % (q, t), db.where(n), "handler site")
                continue
            from ..engine.flow import always_raises
            ctx.check(always_raises(n.body), "except:%s:%s" % (q, t), db.where(n), "except clause in %s catches %s without re-raising: an exception is silently dropped during rendering" % (q, t), "re-raises / translates")
    # _lookup_template translation keeps the cause
    lt = db.func("runtime._lookup_template")
    rs = [r for r in walk_func(lt) if isinstance(r, ast.Raise) and r.cause is not None]
    ctx.check(bool(rs), "lookup.translate", db.where(lt), "TopLevelLookupException is not translated with `from e`", "raise TemplateLookupException(...) from e")


def _compositions(ctx, S):
    """thorough tier: every def skeleton with each resource-using construct placed inside its body,
    and those constructs inside one another (depth 2), checked as one program"""
    starts, ends, pairs = loop_construct_traces(S)
    loop = [(st.events, en.events) for st, en, flag in pairs if flag][:1]
    inner_constructs = []
    for t in S.model.method_traces("visitTextTag"):
        if any(e[0] == "LINE" and "_push_writer" in e[1].literal() for e in t.events):
            inner_constructs.append(("texttag", [(t.events, None)]))
    for t in S.model.method_traces("visitCallTag")[:1]:
        inner_constructs.append(("calltag", [(t.events, None)]))
    if loop:
        st_ev, en_ev = loop[0]
        inner_constructs.append(("loop", [(st_ev, sk.HEADERS["for"]), ([("CHILDREN", "body")], None), (en_ev, None)]))
        inner_constructs.append(("loop+texttag", [(st_ev, sk.HEADERS["for"])] + inner_constructs[0][1] + [(en_ev, None)]))
        inner_constructs.append(("loop+calltag", [(st_ev, sk.HEADERS["for"])] + [x for n_, c_ in inner_constructs if n_ == "calltag" for x in c_] + [(en_ev, None)]))
    n = 0
    for c in DEF_CONSTRUCTS:
        seen = set()
        for t in S.model.method_traces(c):
            if t.outcome == "raise":
                continue
            sig = tuple(t.brief())
            if sig in seen:
                continue
            seen.add(sig)
            for iname, inner in inner_constructs:
                S.layout.inner = inner
                try:
                    res = S.layout.run(t.events, star_unroll=1)
                finally:
                    S.layout.inner = None
                tree = sk.emit.parse_skeleton(res)
                s = sk.Skel(c, t, res, tree, "%s+%s" % (c, iname))
                n += 1
                check_skeleton(ctx, S, s, "compose:%s[%s]<%s>#%d" % (c, s.flagtag(), iname, len(seen)), allow_write_in_finally=("texttag" in iname))
    ctx.note("compositions_checked", n)


_EXIT_EXAMPLE = '''
class Bad:
    def __exit__(self, a, b, c):
        return self.pop()
class Good:
    def __exit__(self, a, b, c):
        self.pop()
        return False
'''


def _swallowing_exits(tree):
    """__exit__ methods that can return something other than None / a false constant: a `with` block over such an object
    discards the exception raised inside it"""
    out = []
    for c in ast.walk(tree):
        if isinstance(c, ast.ClassDef):
            for m in c.body:
                if isinstance(m, ast.FunctionDef) and m.name == "__exit__":
                    bad = [r for r in walk_func(m) if isinstance(r, ast.Return) and not (r.value is None or (isinstance(r.value, ast.Constant) and not r.value.value))]
                    # an __exit__ that looks at the exception it is given decides about that exception on purpose (an error
                    # handler written as a context manager); one that returns a value without looking cannot have meant to
                    exc = {a.arg for a in m.args.args[1:]}
                    if any(isinstance(n, ast.Name) and n.id in exc for n in walk_func(m)):
                        bad = []
                    out.append((c, m, bad))
    return out


@rule("C13.exit-never-swallows", min_instances=1, props=["C05"])
def exit_never_swallows(ctx):
    """no context manager defined in the package swallows an exception by accident: an __exit__ that does not look at the exception it is given returns None / False, so an exception raised inside `with` (user code of a def, a caller body) propagates unchanged"""
    db = ctx.db
    ex = _swallowing_exits(ast.parse(_EXIT_EXAMPLE))
    ctx.require(len(ex) == 2 and len(ex[0][2]) == 1 and not ex[1][2], "self-example of the __exit__ matcher no longer matches")
    ctx.ok("self-example", "", "matcher flags `return self.pop()` and accepts `return False` in the embedded example")
    n = 0
    for name in sorted(db.modules):
        if name.startswith("testing"):
            continue
        for c, m, bad in _swallowing_exits(db.modules[name].tree):
            n += 1
            ctx.check(not bad, "exit:%s.%s" % (name, c.name), db.where(m),
                      "%s.__exit__ returns `%s`: when that value is true the with statement suppresses the exception raised in its block - the exception no longer propagates to the caller of render / to the template's own try block" % (c.name, src(bad[0].value) if bad else ""),
                      "__exit__ returns nothing / False")
    ctx.note("exit_methods_in_package", n)
