"""C03 - control lines and Python blocks execute with Python semantics.

Decided: keyword tables of lexer / parse tree / fragment parser / printer
agree on the statement's keywords; every control-line sequence and block
placement the generator can emit is well-formed under the printer's own
indentation tables; the loop context is pushed/popped/rebound on every exit;
loop emission is guarded by enable_loop; the `for` header re-parser covers
Python's target grammar (alphabet projection); LoopContext's members are
mutually consistent.  Equivalence with Python semantics of user code, the
auto-`pass` rule and STOP_RENDERING are not decided."""

import ast
import re

from ..core import rule, AnalysisError
from ..engine import emit, rx
from ..engine import pattern as P
from ..engine.facts import dotted, const, src, walk_func, str_value
from ..engine.facts import ancestors as facts_ancestors
from . import skeletons as sk
from .common import pn, access_paths, assigned_from, resolve, fragment_completions
from .c13 import check_skeleton, loop_construct_traces, _T
from . import c01  # text-stops-cover is registered for C03 there

PRIMARY = ["if", "for", "while", "try", "with"]
TERNARY = {"if": {"elif", "else"}, "for": {"else"}, "try": {"except"}}
ALL_KW = ["if", "elif", "else", "for", "while", "try", "except", "with"]


def _words(pattern):
    """alternation words of the first group of a keyword regex"""
    m = re.search(r"\(([a-z|]+)\)", pattern)
    return set(m.group(1).split("|")) if m else set()


@rule("C03.keyword-tables", min_instances=8)
def keyword_tables(ctx):
    """lexer, ControlLine, PythonFragment and the printer's regex tables all know the control keywords of the statement"""
    db = ctx.db
    cl = db.func("parsetree.ControlLine.__init__")
    prim = [n for n in walk_func(cl) if isinstance(n, ast.Assign) and dotted(n.targets[0]) == "self.is_primary"]
    ctx.require(prim and isinstance(prim[0].value, ast.Compare), "ControlLine.is_primary assignment not found")
    lst = prim[0].value.comparators[0]
    words = {const(e) for e in lst.elts} if isinstance(lst, (ast.List, ast.Tuple, ast.Set)) else set()
    ctx.check(set(PRIMARY) <= words, "parsetree.primary", db.where(prim[0]), "primary keywords %s lack %s" % (sorted(words), sorted(set(PRIMARY) - words)), "primary: %s" % sorted(words))
    it = db.func("parsetree.ControlLine.is_ternary")
    cases = [n for n in walk_func(it) if isinstance(n, ast.Dict)]
    ctx.require(cases, "ControlLine.is_ternary table not found")
    tbl = {}
    for k, v in zip(cases[0].keys, cases[0].values):
        if isinstance(v, ast.Call) and dotted(v.func) in ("frozenset", "set") and len(v.args) == 1:
            v = v.args[0]
        tbl[const(k)] = {const(e) for e in v.elts} if isinstance(v, (ast.Set, ast.List, ast.Tuple)) else set()
    for k, v in TERNARY.items():
        ctx.check(v <= tbl.get(k, set()), "parsetree.ternary:" + k, db.where(cases[0]), "ternary keywords of %r are %s, need %s" % (k, sorted(tbl.get(k, ())), sorted(v)), "%s: %s" % (k, sorted(tbl.get(k, ()))))
    ret = [n for n in walk_func(it) if isinstance(n, ast.Return)]
    ctx.check(bool(ret) and "self.keyword" in src(ret[0].value) and "keyword in" in src(ret[0].value), "parsetree.ternary-lookup", db.where(it), "is_ternary does not look the keyword up under the line's own keyword", "keyword in cases.get(self.keyword, ...)")
    # PythonFragment
    pf = db.func("ast.PythonFragment.__init__")
    handled = {k_ for kws_, pre_, suf_, off_, n_ in fragment_completions(db) for k_ in kws_}
    for k in ALL_KW:
        ctx.check(k in handled, "fragment:" + k, db.where(pf), "PythonFragment has no branch for control keyword %r: `%% %s` raises 'Unsupported control keyword'" % (k, k), "handled")
    extra = {k for ks in tbl.values() for k in ks} - handled
    ctx.note("ternary_keywords_without_fragment_branch", sorted(extra))
    # printer tables
    S = sk.get(db)
    R = S.layout.re_src
    comp, kw, un = _words(R["_re_compound"]), _words(R["_re_indent_keyword"]), _words(R["_re_unindentor"])
    ctx.check({"if", "try", "elif", "while", "for", "with"} <= comp, "printer.compound", "mako/pygen.py (_re_compound)", "compound keywords %s" % sorted(comp), sorted(comp))
    ctx.check({"else", "elif", "except", "finally", "def"} <= kw, "printer.indent-keyword", "mako/pygen.py (_re_indent_keyword)", "indent keywords %s" % sorted(kw), sorted(kw))
    ctx.check({"else", "elif", "except", "finally"} <= un, "printer.unindentor", "mako/pygen.py (_re_unindentor)", "unindentor keywords %s" % sorted(un), sorted(un))
    # lexer: end keyword must match the open one; ternaries validated
    lx = db.func("lexer.Lexer.match_control_line")
    t = src(lx)
    okm = P.has(lx, "self.control_line[-1].keyword != $k")
    if not okm:
        for c_ in walk_func(lx):
            if isinstance(c_, ast.Compare) and len(c_.ops) == 1 and isinstance(c_.ops[0], ast.NotEq) and any(P.matches(resolve(lx, x_), "self.control_line[-1].keyword") for x_ in (c_.left, c_.comparators[0])):
                okm = True
    ctx.check(okm and (P.has(lx, "not len(self.control_line)") or P.has(lx, "not self.control_line")), "lexer.end-match", db.where(lx), "an `end<kw>` line is not checked against the open control keyword", "end keyword checked against the innermost open control line")
    an = db.func("lexer.Lexer.append_node")
    t = src(an)
    ctx.check(P.has(an, "self.control_line[-1].is_ternary($n.keyword)") and any("SyntaxException" in n_ for n_, _ in __import__("verif.rules.common", fromlist=["x"]).raise_names(an)), "lexer.ternary-check", db.where(an), "illegal ternary keywords are not rejected", "ternary keywords validated against the open primary")


def _segments(S, starts, end, seq):
    """compose header/children segments for a keyword sequence"""
    res = emit.LayoutResult()
    st = dict(indent=0, detail=[])
    for i, (kw, tr) in enumerate(seq):
        S.layout._run(tr.events, res, st, sk.HEADERS[kw], S.star, None)
        S.layout._run([("CHILDREN", "body")], res, st, None, S.star, None)
    S.layout._run(end.events, res, st, None, S.star, None)
    res.final_indent = st["indent"]
    return res


@rule("C03.skeletons", min_instances=20)
def skeletons(ctx):
    """every control-line sequence (primary, ternaries, end; with/without auto-pass) and Python block placement lays out to well-formed Python at the original indentation level"""
    db = ctx.db
    S = sk.get(db)
    trs = S.model.method_traces("visitControlLine")
    starts = [t for t in trs if t.asg.get("node.isend") is False and t.outcome != "raise" and not any(d.endswith("has_loop_context") for d, v, _ in t.sets)]
    ends = [t for t in trs if t.asg.get("node.isend") is True and not any(v for k, v in t.asg.items() if "has_loop_context" in k)]
    ctx.require(starts and ends, "visitControlLine: start/end traces not found")
    end = ends[0]
    # distinct start shapes (with / without the automatic `pass`)
    shapes = {}
    for t in starts:
        shapes.setdefault(tuple(t.brief()), t)
    ctx.note("start_shapes", [list(k) for k in shapes])
    seqs = [["if"], ["if", "else"], ["if", "elif", "else"], ["if", "elif", "elif"], ["for"], ["for", "else"], ["while"],
            ["try", "except"], ["try", "except", "except"], ["with"]]
    n = 0
    for seq in seqs:
        for name, tr in shapes.items():
            res = _segments(S, starts, end, [(k, tr) for k in seq])
            tree = emit.parse_skeleton(res)
            n += 1
            key = "%s[%s]" % ("/".join(seq), "pass" if any("pass" == l for l in name) else "nopass")
            ctx.check(tree is not None and not res.error and res.final_indent == 0, key, "mako/codegen.py (visitControlLine)",
                      "control-line sequence %s lays out to ill-formed Python (%s, final indent %+d):\n%s" % (seq, res.error or "does not parse", res.final_indent, res.source(1)),
                      "well-formed, indentation restored")
    # nesting: a control block inside a control block inside a def body
    tr = list(shapes.values())[0]
    res = emit.LayoutResult()
    st = dict(indent=0, detail=[])
    for kw in ("for", "if", "while"):
        S.layout._run(tr.events, res, st, sk.HEADERS[kw], 1, None)
    S.layout._run([("CHILDREN", "x")], res, st, None, 1, None)
    for _ in range(3):
        S.layout._run(end.events, res, st, None, 1, None)
    res.final_indent = st["indent"]
    ctx.check(emit.parse_skeleton(res) is not None and res.final_indent == 0, "nested[for/if/while]", "mako/codegen.py (visitControlLine)", "nested control blocks are ill-formed:\n" + res.source(1), "nested blocks well-formed")
    # Python blocks
    for s in S.build("visitCode"):
        ctx.check(s.tree is not None and s.res.final_indent == 0 and not s.res.error, "block[%s]" % s.flagtag(), "mako/codegen.py (visitCode)", "code block emission ill-formed:\n" + s.source, "block placed at the current level")
    wb = db.func("pygen.PythonPrinter.write_indented_block")
    ctx.check(P.has(wb, "self.in_indent_lines = False") and P.has(wb, "for ($i, $l) in enumerate(re.split($rx, %s)):\n    self.line_buffer.append($l)\n    ..." % pn(wb, 1)), "block.buffered", db.where(wb), "write_indented_block no longer buffers the block for re-margining", "block lines buffered, re-margined at flush")
    fl = db.func("pygen.PythonPrinter._flush_adjusted_lines")
    ok = P.has(fl, "for $e in self.line_buffer:\n    if self._in_multi_line($e):\n        ...\n    else:\n        ...\n        self.stream.write(self._indent_line($e, $s) + '\\n')")
    ctx.check(ok, "block.remargin", db.where(fl), "_flush_adjusted_lines does not strip the block's own margin and apply the current indentation", "margin of first code line stripped, current indent applied, multi-line strings untouched")


@rule("C03.loop-pairing", min_instances=6)
def loop_pairing(ctx):
    """`% for` using `loop`: LoopStack push before try, pop in the matching finally which rebinds `loop` to the enclosing loop; the start/end link (has_loop_context) is set exactly on the pushing path"""
    db = ctx.db
    S = sk.get(db)
    rt = S.rt
    en = rt.effect("runtime.LoopStack", "_enter")
    ex = rt.effect("runtime.LoopStack", "_exit")
    ctx.check(en.net() == 1 and en.returns == "top", "_enter.effect", "mako/runtime.py (LoopStack._enter)", "_enter must push one LoopContext and return the new top (got %r)" % en, repr(en))
    ctx.check(ex.net() == -1 and ex.returns == "top", "_exit.effect", "mako/runtime.py (LoopStack._exit)", "_exit must pop one LoopContext and return the new top (the enclosing loop, or the stack itself when empty) (got %r)" % ex, repr(ex))
    # the stack discipline itself: the top is the last element, a new loop's parent is the top at the time of the push
    top = db.func("runtime.LoopStack._top")
    ctx.check(P.has(top, "if self.stack:\n    return self.stack[-1]\nelse:\n    return self") or P.has(top, "if self.stack:\n    return self.stack[-1]\nreturn self") or P.has(top, "return self.stack[-1] if self.stack else self"), "stack.top", db.where(top), "LoopStack._top is not the last element of the stack (the innermost loop), or the stack itself when empty", "top = stack[-1], else the stack")
    push = db.func("runtime.LoopStack._push")
    par = [s_ for s_ in walk_func(push) if isinstance(s_, ast.Assign) and isinstance(s_.targets[0], ast.Attribute) and s_.targets[0].attr == "parent"]
    news = {s_.targets[0].id for s_ in walk_func(push) if isinstance(s_, ast.Assign) and isinstance(s_.targets[0], ast.Name) and isinstance(s_.value, ast.Call) and dotted(s_.value.func) == "LoopContext"}
    from .common import arms as _arms, guards_of as _guards
    def _parent_ok(s_):
        if src(s_.targets[0].value) not in news:
            return False
        val = s_.value
        if isinstance(val, ast.Name):
            defs_ = [d_ for d_ in walk_func(push) if isinstance(d_, ast.Assign) and isinstance(d_.targets[0], ast.Name) and d_.targets[0].id == val.id]
            if len(defs_) == 1:
                val = defs_[0].value
        for leaf in _arms(val):
            g_ = _guards(leaf, push)
            if isinstance(leaf, ast.Constant) and leaf.value is None and val is not s_.value and ("%s is None" % s_.value.id, False) in _guards(s_, push):
                continue  # the None alternative is excluded by the test the assignment stands under
            if src(leaf) in ("self.stack[-1]", "self._top"):
                if ("self.stack", True) not in g_ and ("len(self.stack)", True) not in g_:
                    return False
            elif isinstance(leaf, ast.Constant) and leaf.value is None:
                if ("self.stack", False) not in g_ and ("len(self.stack)", False) not in g_:
                    return False  # LoopContext starts with parent None: only when there is no enclosing loop
            else:
                return False
        return True
    okp = bool(par) and all(_parent_ok(s_) for s_ in par)
    ctx.check(okp, "stack.parent", db.where(par[0]) if par else db.where(push), "the parent of a new LoopContext is `%s`, not the innermost enclosing loop (the top of the stack at the time of the push): from the third nesting level on loop.parent names the wrong loop" % (src(par[0].value) if par else None), "parent = top of the stack when not empty")
    app = [c_ for c_ in walk_func(push) if isinstance(c_, ast.Call) and isinstance(c_.func, ast.Attribute) and dotted(c_.func.value) == "self.stack" and c_.func.attr in ("append", "insert", "extend")]
    ctx.check(len(app) == 1 and app[0].func.attr == "append" and src(app[0].args[0]) in news, "stack.push", db.where(push), "the new LoopContext is not appended at the end of the stack", "stack.append(new)")
    pop = db.func("runtime.LoopStack._pop")
    pp_ = [c_ for c_ in walk_func(pop) if isinstance(c_, ast.Call) and dotted(c_.func) == "self.stack.pop"]
    ctx.check(len(pp_) == 1 and not pp_[0].args, "stack.pop", db.where(pop), "_pop does not remove the last element", "stack.pop()")
    starts, ends, pairs = loop_construct_traces(S)
    for t in starts:
        has_set = any(d.endswith("has_loop_context") for d, v, _ in t.sets)
        pushes = any(e[0] == "LINE" and "_enter(" in e[1].literal() for e in t.events)
        tries = any(e[0] == "LINE" and e[1].literal().strip() == "try:" for e in t.events)
        k = "start[%s]" % ("loop" if has_set else "plain")
        ctx.check(has_set == pushes == (tries if has_set else pushes), k, "mako/codegen.py (mangle_mako_loop)",
                  "start of `%% for`: has_loop_context set=%s but push emitted=%s, try emitted=%s - the end line would %s a finally/pop without a matching push" % (has_set, pushes, tries, "emit" if has_set else "omit"),
                  "flag set iff push+try emitted")
        if has_set:
            lines = [e[1] for e in t.events if e[0] == "LINE"]
            order = [i for i, l in enumerate(lines) if "_enter(" in l.literal()], [i for i, l in enumerate(lines) if l.literal().strip() == "try:"], [i for i, l in enumerate(lines) if l.literal().startswith("for ")]
            ctx.check(bool(order[0] and order[1] and order[2]) and order[0][0] < order[1][0] < order[2][0], "start.order", "mako/codegen.py (mangle_mako_loop)", "push / try / for are not emitted in this order", "push, then try:, then for ... in loop:")
            forl = lines[order[2][0]] if order[2] else None
            ctx.check(forl is not None and forl.literal().rstrip().endswith("in loop:"), "start.iterates-loop", "mako/codegen.py (mangle_mako_loop)", "the rewritten for does not iterate over `loop`", "for <target> in loop:")
    for t in ends:
        flag = [v for k, v in t.asg.items() if "has_loop_context" in k]
        if not flag:
            continue
        pops = any(e[0] == "LINE" and "_exit(" in e[1].literal() for e in t.events)
        ctx.check(pops == flag[0], "end[%s]" % ("loop" if flag[0] else "plain"), "mako/codegen.py (visitControlLine)", "end line: has_loop_context=%s but pop emitted=%s" % (flag[0], pops), "pop emitted iff flag")
    seen = set()
    for st, en_, flag in pairs:
        if not flag:
            continue
        hdr = sk.HEADERS["for"]
        from .c13 import compose
        res, tree = compose(S, [st.events, [("CHILDREN", "body")], en_.events], user_header=hdr)
        sig = tuple(l for _, l, _ in res.lines)
        if sig in seen:
            continue
        seen.add(sig)
        s = sk.Skel("loop-construct", _T(dict(loop_context=1)), res, tree, "loop-construct")
        check_skeleton(ctx, S, s, "loop-construct#%d" % len(seen))
        # nested twice: inner loop restores the outer
        res2, tree2 = compose(S, [st.events, st.events, [("CHILDREN", "body")], en_.events, [("CHILDREN", "after-inner")], en_.events], user_header=hdr)
        s2 = sk.Skel("loop-construct-nested", _T(dict(loop_context=1)), res2, tree2, "loop-construct-nested")
        check_skeleton(ctx, S, s2, "loop-construct-nested#%d" % len(seen))
    ctx.require(seen, "no loop-context skeleton produced")
    # the flag is stored on the `for` line's own end node
    mm = db.func("codegen.mangle_mako_loop")
    sets = [n for n in walk_func(mm) if isinstance(n, ast.Assign) and src(n.targets[0]).endswith("has_loop_context")]
    ctx.check(bool(sets) and src(sets[0].targets[0]) == "node.nodes[-1].has_loop_context", "flag.target", db.where(sets[0]) if sets else db.where(mm), "has_loop_context is not stored on the for line's last child (its end line)", "node.nodes[-1].has_loop_context = True")
    an = db.func("lexer.Lexer.append_node")
    nodevars = {s.targets[0].id for s in walk_func(an) if isinstance(s, ast.Assign) and isinstance(s.targets[0], ast.Name) and isinstance(s.value, ast.Call) and dotted(s.value.func) == pn(an, 1)}
    frames = {s.targets[0].id for s in walk_func(an) if isinstance(s, ast.Assign) and isinstance(s.targets[0], ast.Name) and src(s.value) == "self.control_line[-1]"}
    apps = [c for c in walk_func(an) if isinstance(c, ast.Call) and isinstance(c.func, ast.Attribute) and c.func.attr == "append" and isinstance(c.func.value, ast.Attribute) and c.func.value.attr == "nodes"
            and (src(c.func.value.value) == "self.control_line[-1]" or src(c.func.value.value) in frames) and len(c.args) == 1 and src(c.args[0]) in nodevars]
    pops = [c for c in walk_func(an) if isinstance(c, ast.Call) and dotted(c.func) == "self.control_line.pop"]
    ok = bool(apps) and bool(pops) and apps[0].lineno < min(p_.lineno for p_ in pops)
    ctx.check(ok, "flag.end-node-is-last-child", db.where(an), "the end control line is no longer appended to its own frame's children before the frame is popped: nodes[-1] would not be the end line", "end line appended to its frame before the frame is popped")


@rule("C03.enable-loop-guard", min_instances=5)
def enable_loop_guard(ctx):
    """every emission naming __M_loop / LoopStack is control-dependent on compiler.enable_loop; reserved_names drops `loop` exactly when disabled"""
    db = ctx.db
    S = sk.get(db)
    n = 0
    for c in ("write_variable_declares", "visitControlLine"):
        for t in S.model.method_traces(c):
            names_loop = [e for e in c05_lines(t.events) if "__M_loop" in e[1].literal() or "LoopStack" in e[1].literal()]
            if not names_loop:
                continue
            n += 1
            en = t.asg.get("self.compiler.enable_loop")
            hl = [v for k, v in t.asg.items() if "has_loop_context" in k]
            if en is True or (hl and hl[0]):
                ctx.ok("%s:%s" % (c, names_loop[0][1].literal()[:30]), "mako/codegen.py (%s)" % c, "guarded")
            else:
                ctx.violation("%s:%s" % (c, names_loop[0][1].literal()[:30]), "mako/codegen.py (%s)" % c, "loop-context code `%s` is emitted although enable_loop is %s: `loop` stops being an ordinary name" % (names_loop[0][1].literal(), en))
    ctx.require(n >= 3, "expected >=3 emissions naming the loop stack, found %d" % n)
    # the flag on the end line is only set under enable_loop
    for t in S.model.method_traces("visitControlLine"):
        if any(d.endswith("has_loop_context") for d, v, _ in t.sets):
            ctx.check(t.asg.get("self.compiler.enable_loop") is True, "flag-under-enable_loop", "mako/codegen.py (visitControlLine)", "has_loop_context set with enable_loop=%s" % t.asg.get("self.compiler.enable_loop"), "flag set only when enabled")
    rn = db.func("template.Template.reserved_names")
    t = src(rn)
    ok = "if self.enable_loop" in t and "RESERVED_NAMES.difference(['loop'])" in t
    ctx.check(ok, "reserved_names", db.where(rn), "reserved_names does not drop `loop` exactly when enable_loop is false", "loop reserved iff enable_loop")
    rv = db.module_assign("codegen", "RESERVED_NAMES")
    ctx.check("'loop'" in src(rv) and "'context'" in src(rv), "RESERVED_NAMES", "mako/codegen.py", "RESERVED_NAMES is %s" % src(rv), src(rv))
    init = db.func("codegen._GenerateRenderMethod.__init__")
    a = [n for n in walk_func(init) if isinstance(n, ast.Assign) and dotted(n.targets[0]) == "self.compiler.enable_loop"]
    ctx.check(bool(a) and isinstance(a[0].value, ast.BoolOp) and isinstance(a[0].value.op, ast.Or) and "enable_loop" in src(a[0].value.values[1]), "page-override", db.where(a[0]) if a else db.where(init), "<%page enable_loop> does not re-enable the loop context", "enable_loop = template setting or <%page enable_loop>")
    # the override holds for the whole module (body, top-level defs, blocks): the compiler's flag is only ever raised
    cgm = db.mod("codegen")
    stores = [n for n in ast.walk(cgm.tree) if isinstance(n, ast.Assign) and any(isinstance(t_, ast.Attribute) and t_.attr == "enable_loop" for t_ in n.targets)]
    for s_ in stores:
        q_ = getattr(getattr(s_, "_func", None), "_qual", "<module>")
        tgt = src(s_.targets[0])
        v_ = s_.value
        initial = isinstance(v_, ast.Name) and q_.endswith(".__init__") and tgt.startswith("self.") and v_.id in [a_.arg for a_ in s_._func.args.args]
        raising = isinstance(v_, ast.BoolOp) and isinstance(v_.op, ast.Or) and src(v_.values[0]) == tgt
        ctx.check(initial or raising, "flag-monotone:%s" % q_.split(".", 1)[1], db.where(s_), "`%s`: the compiler's enable_loop flag is lowered or replaced after <%%page enable_loop=\"True\"> raised it; the callables generated afterwards (top-level defs, named blocks) treat `loop` as an ordinary name" % src(s_), "initial value or `flag = flag or ...`")
    emitted = [n for n in walk_func(db.func("codegen._GenerateRenderMethod.write_toplevel")) if isinstance(n, ast.BinOp) and isinstance(n.left, ast.Constant) and str(n.left.value).startswith("_enable_loop")]
    ctx.check(bool(emitted) and src(emitted[0].right) == "self.compiler.enable_loop", "module-attr", "mako/codegen.py (write_toplevel)", "_enable_loop module attribute not emitted from compiler.enable_loop", "_enable_loop recorded in the module")


def c05_lines(events):
    for e in events:
        if e[0] == "LINE":
            yield e
        elif e[0] == "STAR":
            for a in e[1]:
                yield from c05_lines(a.events)


@rule("C03.for-target-alphabet", min_instances=1)
def for_target_alphabet(ctx):
    """the re-parse of the `for` header (when `loop` is used) accepts every Python target: its target group must admit the characters of attribute, subscript, starred and nested-tuple targets (or the header is parsed with the ast module)"""
    db = ctx.db
    mm = db.func("codegen.mangle_mako_loop")
    helpers = [db.defs["codegen." + n.func.id] for n in walk_func(mm) if isinstance(n, ast.Call) and isinstance(n.func, ast.Name) and ("codegen." + n.func.id) in db.defs and isinstance(db.defs["codegen." + n.func.id], ast.FunctionDef)]
    from .common import regex_of
    uses_re = [n for f in [mm] + helpers for n in walk_func(f) if isinstance(n, ast.Call) and isinstance(n.func, ast.Attribute) and n.func.attr in ("match", "search", "fullmatch") and regex_of(db, n, "codegen") is not None]
    uses_ast = [n for f in [mm] + helpers for n in walk_func(f) if isinstance(n, ast.Call) and (dotted(n.func) or "").split(".")[-1] in ("get_source_segment", "unparse")]
    if uses_ast and not uses_re:
        ctx.ok("header-parser", db.where(mm), "for header is parsed with the ast module: every Python target accepted by construction")
    else:
        ctx.require(uses_re, "mangle_mako_loop: neither a regex match nor an ast parse of the for header found")
        name = "for-header"
        pat = regex_of(db, uses_re[0], "codegen")[1]
        ctx.require(pat is not None, "regex %s is not a constant" % name)
        sub = rx.parse(pat)
        g1 = rx.find_group(sub, 1)
        ctx.require(g1 is not None, "regex %s has no group 1" % name)
        alpha = rx.alphabet([sub], ".[]*()")
        chars = rx.chars_in(g1, alpha, rx.flags_of(sub))
        need = {".": "attribute targets (for o.attr in ...)", "[": "subscript targets (for d[k] in ...)", "*": "starred targets (for a, *rest in ...)"}
        missing = [c for c in need if c not in chars]
        fallback = [n for n in walk_func(mm) if isinstance(n, ast.Raise)]
        raises = [dotted(r.exc.func) if isinstance(r.exc, ast.Call) else None for r in fallback]
        if missing:
            ctx.violation("regex:codegen._FOR_LOOP#target-alphabet", db.where(mm),
                          "the for-header regex cannot match targets containing %s (%s); such a loop using `loop` aborts compilation with %s instead of behaving like Python" % (missing, "; ".join(need[c] for c in missing), raises))
        else:
            ctx.ok("regex:codegen._FOR_LOOP#target-alphabet", db.where(mm), "target group admits . [ ] *")
        e = rx.eda(pat)
        ctx.note("for_header_regex_eda", dict(found=e["found"], loop=e["loop"], pump=e["pump"]))


def _linear(e):
    """normalise a small arithmetic/boolean expression over self.index and len(self):
    returns a canonical text"""
    return src(e).replace(" ", "")


@rule("C03.loopcontext-algebra", primary=False, min_instances=8)
def loopcontext_algebra(ctx):
    """LoopContext: members exist, index starts at 0 and is incremented after each yield, and first/last/even/odd/reverse_index/cycle are mutually consistent forms over (index, len)"""
    db = ctx.db
    ms = db.methods("runtime.LoopContext")
    for m in ("index", "first", "last", "even", "odd", "reverse_index", "cycle", "parent"):
        if m in ("index", "parent"):
            init = ms["__init__"]
            a = [n for n in walk_func(init) if isinstance(n, ast.Assign) and dotted(n.targets[0]) == "self." + m]
            ctx.check(bool(a) and const(a[0].value) == (0 if m == "index" else None), "member:" + m, db.where(init), "LoopContext.%s is not initialised to %s" % (m, 0 if m == "index" else None), "initialised")
        else:
            ctx.check(m in ms, "member:" + m, "mako/runtime.py (LoopContext)", "LoopContext.%s missing" % m, "present")
    it = ms.get("__iter__")
    ctx.require(it is not None, "LoopContext.__iter__ missing")
    fors = [n for n in walk_func(it) if isinstance(n, ast.For)]
    ok = False
    if fors and src(fors[0].iter) == "self._iterable":
        b = fors[0].body
        ys = [i for i, s in enumerate(b) if isinstance(s, ast.Expr) and isinstance(s.value, ast.Yield) and src(s.value.value) == src(fors[0].target)]
        incs = [i for i, s in enumerate(b) if isinstance(s, ast.AugAssign) and dotted(s.target) == "self.index" and isinstance(s.op, ast.Add) and const(s.value) == 1]
        ok = bool(ys and incs) and ys[0] < incs[0] and len(incs) == 1
    ctx.check(ok, "iter", db.where(it), "__iter__ does not yield each element and increment index by one after the yield", "yield i; index += 1")

    def body_of(name):
        fn = ms[name]
        rets = [n for n in walk_func(fn) if isinstance(n, ast.Return)]
        if len(rets) != 1:
            raise AnalysisError("LoopContext.%s is not a single-return property" % name)
        return _linear(rets[0].value), fn

    forms = {
        "first": ({"self.index==0", "notself.index", "0==self.index"}, "index == 0"),
        "reverse_index": ({"len(self)-self.index-1", "len(self)-1-self.index", "len(self)-(self.index+1)"}, "len - index - 1"),
        "last": ({"self.index==len(self)-1", "self.reverse_index==0", "len(self)-1==self.index", "self.index+1==len(self)"}, "index == len - 1"),
        "odd": ({"bool(self.index%2)", "self.index%2==1", "self.index%2!=0", "bool(self.index&1)"}, "index mod 2 == 1"),
        "even": ({"notself.odd", "self.index%2==0", "notself.index%2", "notbool(self.index%2)"}, "not odd"),
    }
    for name, (ok_forms, meaning) in forms.items():
        if name not in ms:
            continue
        try:
            t, fn = body_of(name)
        except AnalysisError as e:
            ctx.undecided("form:" + name, "mako/runtime.py (LoopContext.%s)" % name, str(e))
            continue
        if t in ok_forms:
            ctx.ok("form:" + name, db.where(fn), "%s  (%s)" % (t, meaning))
        else:
            # recognisably wrong variants are violations; anything else is undecided
            wrong = {"first": {"self.index==1"}, "reverse_index": {"len(self)-self.index", "len(self)-self.index+1"}, "last": {"self.index==len(self)", "self.index==len(self)+1"},
                     "odd": {"bool(self.index%2==0)", "self.index%2==0", "notself.index%2"}, "even": {"self.odd", "self.index%2==1", "bool(self.index%2)"}}
            if t in wrong.get(name, ()):
                ctx.violation("form:" + name, db.where(fn), "LoopContext.%s is `%s`, which is not %s" % (name, t, meaning))
            else:
                ctx.undecided("form:" + name, db.where(fn), "body `%s` is not one of the recognised forms of %s" % (t, meaning))
    cy = ms.get("cycle")
    if cy is not None:
        rets = [n for n in walk_func(cy) if isinstance(n, ast.Return)]
        t = _linear(rets[-1].value) if rets else ""
        if t in ("values[self.index%len(values)]",):
            ctx.ok("form:cycle", db.where(cy), t)
        else:
            ctx.undecided("form:cycle", db.where(cy), "cycle body `%s` not recognised" % t)


@rule("C03.loop-detection", min_instances=3)
def loop_detection(ctx):
    """the scan that decides whether a `% for` body uses `loop` covers the whole body: every visitor of LoopVariable either finds `loop` in the node or descends into all of its children, on every path"""
    db = ctx.db
    from ..engine import cfg as cfgmod, pattern as P
    from .common import calls, stmt_nodes
    ms = db.methods("codegen.LoopVariable")
    helper = ms.get("_loop_reference_detected")
    ctx.require(helper is not None, "LoopVariable._loop_reference_detected not found")
    ok = P.has(helper, "if 'loop' in $n.undeclared_identifiers():\n    self.detected = True\nelse:\n    for $c in $n.get_children():\n        $c.accept_visitor(self)")
    ctx.check(ok, "helper", db.where(helper), "_loop_reference_detected no longer means: `loop` named by the node, else look into every child", "node names loop, else every child is visited")
    for name, fn in ms.items():
        if not name.startswith("visit"):
            continue
        g = cfgmod.function_cfg(fn)
        deleg = [x for c in calls(fn, "self._loop_reference_detected") for x in stmt_nodes(g, c)]
        good, path = g.must_pass(g.entry, deleg, exits=[g.exit], kinds=("n",))
        ctx.check(bool(deleg) and good, "visitor:" + name, db.where(fn), "LoopVariable.%s can return without scanning the node and its children (%s): a `loop` reference there (e.g. loop.parent inside a nested for) is missed and the enclosing for gets no loop context" % (name, g.fmt_path(path)), "every path scans the node")
    need = {"visitControlLine", "visitCode", "visitExpression"}
    ctx.check(need <= set(ms), "visitors-present", db.where(db.cls("codegen.LoopVariable")), "LoopVariable lacks visitors %s" % sorted(need - set(ms)), "control lines, code blocks and expressions are scanned")
    mm = db.func("codegen.mangle_mako_loop")
    ctx.check(P.has(mm, "$v = LoopVariable()\n$n.accept_visitor($v)\nif $v.detected:\n    ...\nelse:\n    ...") or P.has(mm, "$v = LoopVariable()\n$n.accept_visitor($v)\nif $v.detected:\n    ..."), "used", db.where(mm), "mangle_mako_loop does not base its decision on a LoopVariable scan of the for line", "decision = LoopVariable scan of the for node")


@rule("C03.printer-model", primary=False, min_instances=2)
def printer_model(ctx):
    """the indentation automaton the skeleton rules lay code out with is the one PythonPrinter.writeline implements (shape of its dedent / indent decisions)"""
    db = ctx.db
    from ..engine import pattern as P
    S = sk.get(db)
    iu = db.func("pygen.PythonPrinter._is_unindentor")
    if S.layout.unindentor_model_ok:
        ctx.ok("is_unindentor", db.where(iu), "dedent decision: an unindentor keyword after a compound indentor (%s)" % S.layout.unindentor_shape)
    else:
        ctx.undecided("is_unindentor", db.where(iu), "_is_unindentor's final decision is not one of the modelled shapes; C03.skeletons / C13 layouts are not claimed for this tree")
    wl = db.func("pygen.PythonPrinter.writeline")
    ok = P.has(wl, "if not $c and (not $h or self._is_unindentor($l)) and self.indent > 0:\n    self.indent -= 1\n    ...") and P.has(wl, "if self._re_indent.search($l):\n    ...")
    if ok:
        ctx.ok("writeline", db.where(wl), "dedent before / indent after a line ending in ':' as modelled")
    else:
        ctx.undecided("writeline", db.where(wl), "writeline's indent/dedent conditions are not in the modelled shape")


@rule("C03.printer-indents-first-line-only", min_instances=3, props=["C02", "C19"])
def printer_indent_prefix(ctx):
    """the printer changes an emitted line only in front of its first physical line: indentation is prepended (or substituted for the block margin at the start of the string), never inserted after embedded newlines - a ${...} expression or statement that spans lines (multi-line string literals) keeps its text"""
    db = ctx.db
    fn = db.func("pygen.PythonPrinter._indent_line")
    line = pn(fn, 1)
    rets = [r for r in walk_func(fn) if isinstance(r, ast.Return)]
    ctx.require(rets, "_indent_line has no return")
    n = 0
    from .common import arms
    for r, v in [(r_, v_) for r_ in rets for v_ in arms(r_.value)]:
        n += 1
        okp = P.matches(v, "self.indentstring * self.indent + %s" % line)
        env = {}
        oks = P.matches(v, "re.sub($rx, self.indentstring * self.indent, %s)" % line, env)
        if oks:
            rxs = src(env["rx"][1])
            oks = rxs.replace('"', "'").startswith(("'^%s' %", "r'^%s' %")) or rxs.replace('"', "'") in ("'^' + %s" % pn(fn, 2),)
        ctx.check(okp or oks, "return:%d" % n, db.where(r), "_indent_line returns `%s`: text after the start of the line (e.g. the continuation lines of a multi-line string inside an expression) is altered" % src(v), "indentation put in front of the line only")
    # the other writers of the stream add only a newline
    ws = [c for q, f in db.functions_in("pygen") for c in walk_func(f) if isinstance(c, ast.Call) and dotted(c.func) == "self.stream.write"]
    ctx.require(len(ws) >= 3, "stream writes in pygen: %d" % len(ws))
    for c in ws:
        a = c.args[0]
        ok = (isinstance(a, ast.BinOp) and isinstance(a.op, ast.Add) and const(a.right) == "\n" and (isinstance(a.left, ast.Name) or P.matches(a.left, "self._indent_line(...)"))) or const(a) == "\n" or P.matches(a, "'\\n' * $n")
        ctx.check(ok, "write:%s" % getattr(getattr(c, "_func", None), "_qual", "?").split(".")[-1], db.where(c), "the printer writes `%s`: something else than the (indented) line and a newline" % src(a), "line + newline")


@rule("C03.body-children", min_instances=4)
def body_children(ctx):
    """the generator inserts `pass` for a control line whose own body is empty or comment-only; the body it looks at is the list the lexer fills: every node goes to the enclosing primary line's list and to the list of the most recent ternary line of that block"""
    db = ctx.db
    an = db.func("lexer.Lexer.append_node")
    nodevars = {s.targets[0].id for s in walk_func(an) if isinstance(s, ast.Assign) and isinstance(s.targets[0], ast.Name) and isinstance(s.value, ast.Call) and dotted(s.value.func) == pn(an, 1)}
    ctx.require(len(nodevars) == 1, "append_node: the created node is not a single local")
    nv = sorted(nodevars)[0]
    apps = [c for c in walk_func(an) if isinstance(c, ast.Call) and isinstance(c.func, ast.Attribute) and c.func.attr == "append" and isinstance(c.func.value, ast.Attribute) and c.func.value.attr == "nodes" and len(c.args) == 1 and src(c.args[0]) == nv]
    tern = [c for c in apps if "ternary_stack" in src(c.func.value.value)]
    ctx.check(len(tern) == 1 and src(tern[0].func.value.value) == "self.ternary_stack[-1][-1]", "ternary-body", db.where(tern[0]) if tern else db.where(an),
              "a node following a ternary control line is recorded under `%s`, not under the most recent ternary line of the innermost block: the generator's empty-body test (auto `pass`) looks at the wrong list and emits `elif ...:` directly followed by `else:`" % (src(tern[0].func.value.value) if tern else None), "children of a ternary = nodes up to the next ternary of the same block")
    push = [c for c in walk_func(an) if isinstance(c, ast.Call) and src(c.func) == "self.ternary_stack[-1].append" and src(c.args[0]) == nv]
    ctx.check(len(push) == 1, "ternary-push", db.where(an), "a ternary control line is not pushed as the latest ternary of its block", "ternary lines appended to the block's list")
    newblk = [c for c in walk_func(an) if isinstance(c, ast.Call) and src(c.func) == "self.ternary_stack.append" and isinstance(c.args[0], ast.List) and not c.args[0].elts]
    popblk = [c for c in walk_func(an) if isinstance(c, ast.Call) and src(c.func) == "self.ternary_stack.pop" and not c.args]
    ctx.check(len(newblk) == 1 and len(popblk) == 1, "ternary-blocks", db.where(an), "the per-block list of ternaries is not opened with the primary line and dropped with its end line", "one list of ternaries per open block")
    vc = db.func("codegen._GenerateRenderMethod.visitControlLine")
    ch = [c_ for f_ in db.with_helpers(vc) for c_ in walk_func(f_) if isinstance(c_, ast.Call) and P.matches(c_, "$n.get_children()") and isinstance(c_.func.value, ast.Name) and c_.func.value.id in {a_.arg for a_ in f_.args.args}]
    gc = db.func("parsetree.ControlLine.get_children")
    ctx.check(bool(ch) and P.has(gc, "return self.nodes"), "generator-reads", db.where(vc), "the empty-body test does not read the control line's own node list", "get_children() is the list the lexer filled")


@rule("C03.writeline-whole", min_instances=2, props=["C02", "C19"])
def writeline_whole(ctx):
    """PythonPrinter.writeline writes the text it is given as one piece: only its first physical line receives the indentation, so the continuation lines of a multi-line expression / string literal reach the module unchanged"""
    from .common import resolve_deep
    db = ctx.db
    fn = db.func("pygen.PythonPrinter.writeline")
    par = pn(fn, 1)
    writes = [n for g in db.with_helpers(fn) for n in walk_func(g)
              if isinstance(n, ast.Call) and isinstance(n.func, ast.Attribute) and n.func.attr == "write" and dotted(n.func.value) in ("self.stream", "stream")]
    ctx.require(writes, "no stream.write in PythonPrinter.writeline (anchor)")
    for i, w in enumerate(writes):
        loops = [a for a in facts_ancestors(w) if isinstance(a, (ast.For, ast.While, ast.ListComp, ast.GeneratorExp))]
        arg = resolve_deep(fn, w.args[0]) if w.args else None
        ind = [n for n in ast.walk(arg) if isinstance(n, ast.Call) and isinstance(n.func, ast.Attribute) and n.func.attr == "_indent_line"] if arg is not None else []
        ctx.check(not loops, "write#%d:once" % i, db.where(w),
                  "writeline writes its text piece by piece in a loop (%s): every physical line of a multi-line statement is indented separately, which changes the contents of string literals that span lines" % " ".join(src(loops[0]).split())[:70] if loops else "",
                  "the text is written by one call")
        whole = bool(ind) and all(len(c.args) >= 1 and isinstance(resolve_deep(fn, c.args[0]), ast.Name) and resolve_deep(fn, c.args[0]).id == par for c in ind)
        ctx.check(whole or (not ind and isinstance(arg, ast.AST) and par in {n.id for n in ast.walk(arg) if isinstance(n, ast.Name)}), "write#%d:whole" % i, db.where(w),
                  "the indentation is not applied to the whole text handed to writeline (`%s`)" % src(w.args[0])[:80] if w.args else "",
                  "_indent_line(%s) applied to the text as given" % par)
