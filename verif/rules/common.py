"""helpers shared by rule modules"""

import ast

from ..core import AnalysisError
from ..engine import cfg as cfgmod
from ..engine.facts import dotted, const, src, walk_func, enclosing_stmt, ancestors


def calls(fn, *names, suffix=None):
    """Call nodes directly in fn (not nested defs) whose dotted callee is in names
    (or ends with .suffix)."""
    out = []
    for n in walk_func(fn):
        if isinstance(n, ast.Call):
            nm = dotted(n.func)
            if nm is None:
                continue
            if nm in names or (suffix and (nm == suffix or nm.endswith("." + suffix))):
                out.append(n)
    out.sort(key=lambda n: (n.lineno, n.col_offset))
    return out


def stmt_nodes(g, node):
    """CFG nodes of the statement that contains AST node `node` (walking up to
    the innermost statement that is part of the CFG)."""
    st = enclosing_stmt(node)
    while st is not None:
        ns = g.nodes_of(st)
        if ns:
            # compound statements own several nodes; use the head node(s)
            return ns
        st = enclosing_stmt(getattr(st, "_parent", None))
    raise AnalysisError("no CFG node for construct at line %s" % getattr(node, "lineno", "?"))


def head_nodes(g, node):
    """For a call inside a compound statement's header (If test, For iter) the
    header node; for simple statements their node(s)."""
    return stmt_nodes(g, node)


def exc_successors(n):
    return [m for m, k in n.succ if k == "e"]


def norm_successors(n):
    return [m for m, k in n.succ if k == "n"]


def in_try_handling(node, *exc_names):
    """is `node` lexically inside the body of a try that has a handler for one
    of exc_names (or a bare except)."""
    child = node
    for a in ancestors(node):
        if isinstance(a, ast.Try) and any(child is b or _contains(b, child) for b in a.body):
            for h in a.handlers:
                if h.type is None:
                    return True
                tn = [dotted(t) for t in (h.type.elts if isinstance(h.type, ast.Tuple) else [h.type])]
                if any(t and t.split(".")[-1] in exc_names for t in tn):
                    return True
        child = a
    return False


def _contains(root, node):
    return any(n is node for n in ast.walk(root))


def contains(root, node):
    return _contains(root, node)


def raise_names(fn_or_node):
    """dotted class names raised (with Call or bare Name) in subtree; 'reraise' for bare raise."""
    out = []
    for n in ast.walk(fn_or_node):
        if isinstance(n, ast.Raise):
            if n.exc is None:
                out.append(("reraise", n))
            elif isinstance(n.exc, ast.Call):
                out.append((dotted(n.exc.func) or src(n.exc.func), n))
            else:
                out.append((dotted(n.exc) or src(n.exc), n))
    return out


def kwmap(call):
    return {k.arg: k.value for k in call.keywords if k.arg}


def class_bases(db, clsqual):
    c = db.cls(clsqual)
    return [dotted(b) for b in c.bases]


def is_subclass(db, modname, name, base):
    """name (class in modname) transitively derives from base (bare name) inside the module."""
    seen = set()
    todo = [name]
    while todo:
        n = todo.pop()
        if n == base:
            return True
        if n in seen:
            continue
        seen.add(n)
        q = "%s.%s" % (modname, n)
        if db.has(q):
            for b in class_bases(db, q):
                if b:
                    todo.append(b.split(".")[-1])
    return False


def param_names(fn):
    a = fn.args
    out = [x.arg for x in a.posonlyargs + a.args + a.kwonlyargs]
    if a.vararg:
        out.append(a.vararg.arg)
    if a.kwarg:
        out.append(a.kwarg.arg)
    return out


def param_default(fn, name):
    a = fn.args
    pos = a.posonlyargs + a.args
    d = [None] * (len(pos) - len(a.defaults)) + list(a.defaults)
    for p, dv in zip(pos, d):
        if p.arg == name:
            return dv
    for p, dv in zip(a.kwonlyargs, a.kw_defaults):
        if p.arg == name:
            return dv
    return None


def pn(fn, i):
    """name of the i-th positional parameter of fn (0 = self for methods)"""
    a = fn.args.posonlyargs + fn.args.args
    if i >= len(a):
        raise AnalysisError("%s has fewer than %d parameters" % (getattr(fn, "_qual", fn.name), i + 1))
    return a[i].arg


_PASS_THROUGH = {"list", "tuple", "reversed", "sorted", "iter"}


def access_paths(fn, roots, within=None):
    """Attribute paths read below the given root names, resolved through local
    aliases: `a = node.args; for d in a.defaults + a.kw_defaults` yields
    {"node.args", "node.args.defaults", "node.args.kw_defaults", ...};
    elements of an iterated / subscripted value are `path[]`.  `within`
    restricts the collected accesses to those statements (aliases are still
    resolved over the whole function)."""
    env = {k: {v} for k, v in roots.items()}

    def paths(e):
        if isinstance(e, ast.Name):
            return set(env.get(e.id, ()))
        if isinstance(e, ast.Attribute):
            return {p + "." + e.attr for p in paths(e.value)}
        if isinstance(e, ast.Subscript):
            return {p + "[]" for p in paths(e.value)}
        if isinstance(e, ast.BinOp) and isinstance(e.op, ast.Add):
            return paths(e.left) | paths(e.right)
        if isinstance(e, ast.Call) and e.args and ((isinstance(e.func, ast.Name) and e.func.id in _PASS_THROUGH) or (isinstance(e.func, ast.Attribute) and isinstance(e.func.value, ast.Name) and e.func.value.id == "self")):
            # list(x) / self._helper(x): the result still denotes elements of x
            out = set()
            for a in e.args:
                out |= paths(a)
            return out
        if isinstance(e, ast.IfExp):
            return paths(e.body) | paths(e.orelse)
        if isinstance(e, ast.BoolOp):
            out = set()
            for v in e.values:
                out |= paths(v)
            return out
        return set()

    def bind(target, ps):
        if isinstance(target, ast.Name) and ps:
            cur = env.setdefault(target.id, set())
            if not ps <= cur:
                cur |= ps
                return True
        return False

    changed = True
    rounds = 0
    while changed and rounds < 10:
        changed = False
        rounds += 1
        for n in ast.walk(fn):
            if isinstance(n, ast.Assign):
                for t in n.targets:
                    changed |= bind(t, paths(n.value))
            elif isinstance(n, (ast.For, ast.comprehension)):
                changed |= bind(n.target, {p + "[]" for p in paths(n.iter)})
    out = set()
    scope = [fn] if within is None else list(within)
    for root in scope:
        for n in ast.walk(root):
            if isinstance(n, (ast.Attribute, ast.Subscript, ast.Name)):
                out |= paths(n)
    return out


def assigned_from(fn, text):
    """names of the locals of fn assigned (as a single Name target, or as the
    i-th element of a tuple target: `text` then ends with `#i`) from an
    expression matching the pattern"""
    from ..engine import pattern as P
    idx = None
    if "#" in text and text.rsplit("#", 1)[1].isdigit():
        text, i = text.rsplit("#", 1)
        idx = int(i)
    kind, pat = P.compile_pattern(text)
    out = set()
    for s in walk_func(fn):
        if isinstance(s, ast.Assign) and len(s.targets) == 1 and P.match(pat, s.value, {}):
            t = s.targets[0]
            if idx is None and isinstance(t, ast.Name):
                out.add(t.id)
            elif idx is not None and isinstance(t, (ast.Tuple, ast.List)) and idx < len(t.elts) and isinstance(t.elts[idx], ast.Name):
                out.add(t.elts[idx].id)
    return out


def describe_owner(fn, node, name):
    """stable description of a local for keys: parameters by name, a local with
    a single call definition as `(callee)`"""
    from ..engine import flow
    if fn is None:
        return name
    if name in param_names(fn):
        return name
    try:
        defs = flow.Reaching(fn).defs_at(enclosing_stmt(node), name)
    except AnalysisError:
        return name
    defs = [d for d in defs if isinstance(d, ast.Assign)]
    if len(defs) == 1 and isinstance(defs[0].value, ast.Call) and dotted(defs[0].value.func):
        return "(%s)" % dotted(defs[0].value.func)
    return name


def canon(text, mapping):
    """rename resolved local names to canonical ones in a source text (whole
    identifiers only, never attribute names)"""
    import re
    for old, new in mapping.items():
        if old and old != new:
            text = re.sub(r"(?<![\w.])%s\b" % re.escape(old), new, text)
    return text


# ----------------------------------------------------------------------
# regex match results are used only where they are known to be a match
# ----------------------------------------------------------------------

_MATCH_CALLS = ("re.match", "re.search", "re.fullmatch", "self.match", "self.match_reg")
_MATCH_USES = ("group", "groups", "start", "end", "span", "groupdict", "expand", "lastindex")


def is_match_call(v):
    if not isinstance(v, ast.Call):
        return False
    d = dotted(v.func) or ""
    return d in _MATCH_CALLS or (isinstance(v.func, ast.Attribute) and v.func.attr in ("match", "search", "fullmatch"))


def _is_name(e, name):
    return isinstance(e, ast.Name) and e.id == name


def _test_polarity(t, name):
    """'pos' if the test being true implies `name` is a match, 'neg' if the test being false implies it, else None"""
    if _is_name(t, name):
        return "pos"
    if isinstance(t, ast.Compare) and len(t.ops) == 1 and _is_name(t.left, name) and const(t.comparators[0]) is None and isinstance(t.comparators[0], ast.Constant):
        return "pos" if isinstance(t.ops[0], ast.IsNot) else "neg" if isinstance(t.ops[0], ast.Is) else None
    if isinstance(t, ast.UnaryOp) and isinstance(t.op, ast.Not):
        p = _test_polarity(t.operand, name)
        return {"pos": "neg", "neg": "pos"}.get(p)
    if isinstance(t, ast.BoolOp) and isinstance(t.op, ast.And):
        return "pos" if any(_test_polarity(v, name) == "pos" for v in t.values) else None
    if isinstance(t, ast.BoolOp) and isinstance(t.op, ast.Or):
        return "neg" if any(_test_polarity(v, name) == "neg" for v in t.values) else None
    return None


def _exits(body):
    from ..engine import flow
    return bool(body) and (flow.always_raises(body) or isinstance(body[-1], (ast.Return, ast.Continue, ast.Break)))


def match_use_guarded(fn, use, name, reaching=None):
    """is the use of the match object `name` at `use` (an Attribute node) only reached when it is a match"""
    child = use
    for a in ancestors(use):
        if isinstance(a, (ast.If, ast.While)):
            pol = _test_polarity(a.test, name)
            inbody = any(contains(b, child) for b in a.body)
            inelse = any(contains(b, child) for b in a.orelse) if isinstance(a, ast.If) else False
            if (pol == "pos" and inbody) or (pol == "neg" and inelse):
                return True
        if isinstance(a, ast.IfExp):
            pol = _test_polarity(a.test, name)
            if (pol == "pos" and contains(a.body, child)) or (pol == "neg" and contains(a.orelse, child)):
                return True
        if isinstance(a, ast.BoolOp):
            idx = [i for i, v in enumerate(a.values) if contains(v, child)]
            if idx:
                before = a.values[: idx[0]]
                if isinstance(a.op, ast.And) and any(_test_polarity(v, name) == "pos" for v in before):
                    return True
                if isinstance(a.op, ast.Or) and any(_test_polarity(v, name) == "neg" for v in before):
                    return True
        for f in ("body", "orelse", "finalbody"):
            lst = getattr(a, f, None)
            if isinstance(lst, list) and any(s is child for s in lst):
                i = [k for k, s in enumerate(lst) if s is child][0]
                for s in lst[:i]:
                    if isinstance(s, ast.If) and _exits(s.body) and _test_polarity(s.test, name) == "neg":
                        return True
        child = a
        if isinstance(a, (ast.FunctionDef, ast.Lambda)):
            break
    # every definition that reaches the use is checked right where it is made: `m = ...match(...)` followed by `if not m ...: <exit>`
    if reaching is not None:
        try:
            defs = reaching.defs_at(enclosing_stmt(use), name)
        except AnalysisError:
            return False
        ok = bool(defs)
        for d in defs:
            par = getattr(d, "_parent", None)
            nxt = None
            for f in ("body", "orelse", "finalbody"):
                lst = getattr(par, f, None)
                if isinstance(lst, list) and any(s is d for s in lst):
                    i = [k for k, s in enumerate(lst) if s is d][0]
                    nxt = lst[i + 1] if i + 1 < len(lst) else None
            if not (isinstance(nxt, ast.If) and _exits(nxt.body) and _test_polarity(nxt.test, name) == "neg"):
                ok = False
        return ok
    return False


def scan_loop_of(f):
    """the `while <text>:` loop of a line scanner, <text> being the function's line argument or a local copy of it"""
    params = {a.arg for a in f.args.args}
    copies = {s.targets[0].id for s in walk_func(f) if isinstance(s, ast.Assign) and len(s.targets) == 1 and isinstance(s.targets[0], ast.Name) and isinstance(s.value, ast.Name) and s.value.id in params}
    for w in walk_func(f):
        if isinstance(w, ast.While) and isinstance(w.test, ast.Name) and w.test.id in params | copies:
            return w
    return None


def line_sources(fn):
    """the expressions a code-emitting function turns into lines, in the order they are written down: arguments of
    <printer>.writeline / writelines and what is appended to / extended into a local list (a header collected first and written at once)"""
    out = []
    for n in walk_func(fn):
        if isinstance(n, ast.Call) and isinstance(n.func, ast.Attribute):
            if n.func.attr in ("writeline", "writelines") and (dotted(n.func.value) or "").endswith("printer"):
                out += [a for a in n.args if not isinstance(a, ast.Starred)]
            elif n.func.attr == "append" and isinstance(n.func.value, ast.Name) and len(n.args) == 1:
                out.append(n.args[0])
            elif n.func.attr == "extend" and isinstance(n.func.value, ast.Name) and len(n.args) == 1 and isinstance(n.args[0], (ast.Tuple, ast.List)):
                out += list(n.args[0].elts)
    out.sort(key=lambda a: a.lineno)
    return out


def lexer_side_scanner(db):
    """the function that decides, for adjust_whitespace, whether a line begins inside a multi-line string / continuation:
    the local function of adjust_whitespace (whatever it is called) that walks along its line argument in a `while <line>:` loop"""
    aw = db.func("pygen.adjust_whitespace")
    for f in ast.walk(aw):
        if isinstance(f, ast.FunctionDef) and f is not aw:
            if scan_loop_of(f) is not None:
                return f
    raise AnalysisError("pygen.adjust_whitespace: the line scanner (a local function with a `while line:` loop) was not found (anchor)")


def definitely_match_at(fn, use, name):
    """structured forward analysis: on every path from the last assignment of `name` to `use`, a test has established that
    `name` is a match (branches that leave the block do not count at the join)"""
    result = []

    def assigns(node):
        return any(isinstance(n, ast.Name) and n.id == name and isinstance(n.ctx, (ast.Store, ast.Del)) for n in ast.walk(node))

    def flow(stmts, k):
        for s in stmts:
            if k is None:
                return None
            if isinstance(s, ast.If):
                if contains(s.test, use):
                    result.append(k)
                pol = _test_polarity(s.test, name)
                kt = True if pol == "pos" else k
                kf = True if pol == "neg" else k
                a, b = flow(s.body, kt), flow(s.orelse, kf)
                k = b if a is None else a if b is None else (a and b)
                continue
            if isinstance(s, (ast.For, ast.While)):
                if contains(s.iter if isinstance(s, ast.For) else s.test, use):
                    result.append(k)
                inner = k and not assigns(s)
                flow(s.body, inner)
                k = inner
                if s.orelse:
                    k = flow(s.orelse, k)
                continue
            if isinstance(s, ast.Try):
                a = flow(s.body, k)
                kh = k and not assigns(ast.Module(body=s.body, type_ignores=[]))
                outs = [a] if not s.orelse else [flow(s.orelse, a) if a is not None else None]
                for h in s.handlers:
                    outs.append(flow(h.body, kh))
                outs = [o for o in outs if o is not None]
                k = all(outs) if outs else None
                if s.finalbody:
                    k2 = flow(s.finalbody, bool(k) and kh)
                    k = k2 if k is not None else None
                continue
            if isinstance(s, ast.With):
                k = flow(s.body, k)
                continue
            if isinstance(s, (ast.FunctionDef, ast.AsyncFunctionDef, ast.ClassDef)):
                continue
            if contains(s, use):
                result.append(k)
            if isinstance(s, (ast.Return, ast.Raise, ast.Continue, ast.Break)):
                return None
            if assigns(s):
                k = False
        return k
    flow(fn.body, False)
    return bool(result) and all(result)


def unguarded_match_uses(db, modnames):
    """(function qualname, use node, name) for uses of a regex match result that may be None; also returns the number of uses seen"""
    from ..engine import flow
    out, n = [], 0
    for modname in modnames:
        for q, fn in db.functions_in(modname):
            mv = set()
            for s in walk_func(fn):
                if isinstance(s, ast.Assign) and isinstance(s.targets[0], ast.Name) and is_match_call(s.value):
                    mv.add(s.targets[0].id)
            if not mv:
                continue
            rr = None
            for u in walk_func(fn):
                if isinstance(u, ast.Attribute) and isinstance(u.value, ast.Name) and u.value.id in mv and u.attr in _MATCH_USES:
                    n += 1
                    rr = rr or flow.Reaching(fn)
                    if not match_use_guarded(fn, u, u.value.id, rr) and not definitely_match_at(fn, u, u.value.id):
                        out.append((q, u, u.value.id))
    return out, n


def regex_of(db, call, modname=None):
    """(method, pattern text or None, flags, subject expression) of a regex call in either spelling:
    re.<m>(pattern, subject, flags) - the canonical form the normaliser produces - or <compiled>.<m>(subject)
    with <compiled> bound at module or class level to re.compile(pattern, flags)"""
    from ..engine.facts import str_value
    if not (isinstance(call, ast.Call) and isinstance(call.func, ast.Attribute)):
        return None
    m = call.func.attr
    if m not in ("match", "search", "fullmatch", "sub", "subn", "split", "findall", "finditer"):
        return None

    def flagval(e):
        import re as _re
        if e is None:
            return 0
        if isinstance(e, ast.BinOp) and isinstance(e.op, ast.BitOr):
            return flagval(e.left) | flagval(e.right)
        d = dotted(e)
        if d and d.startswith("re."):
            return int(getattr(_re, d[3:]))
        if isinstance(e, ast.Constant) and isinstance(e.value, int):
            return e.value
        raise AnalysisError("regex flags expression %s not understood" % src(e))
    recv = call.func.value
    if isinstance(recv, ast.Name) and recv.id == "re":
        if not call.args:
            return None
        pat = str_value(call.args[0])
        nsub = {"sub": 2, "subn": 2}.get(m, 1)
        subj = call.args[nsub] if len(call.args) > nsub else None
        fl = None
        if m in ("match", "search", "fullmatch", "findall", "finditer") and len(call.args) > 2:
            fl = call.args[2]
        for k in call.keywords:
            if k.arg == "flags":
                fl = k.value
        return m, pat, flagval(fl), subj
    comp = None
    if isinstance(recv, ast.Name) and modname:
        try:
            comp = db.module_assign(modname, recv.id)
        except AnalysisError:
            comp = None
    elif isinstance(recv, ast.Call) and dotted(recv.func) == "re.compile":
        comp = recv
    elif isinstance(recv, ast.Attribute) and isinstance(recv.value, ast.Name) and modname:
        # self.X / cls.X / Class.X bound at class level
        found = []
        for c_ in ast.walk(db.mod(modname).tree):
            if isinstance(c_, ast.ClassDef) and (recv.value.id in ("self", "cls") or recv.value.id == c_.name):
                for s_ in c_.body:
                    if isinstance(s_, ast.Assign) and any(isinstance(t_, ast.Name) and t_.id == recv.attr for t_ in s_.targets):
                        found.append(s_.value)
        if len(found) == 1:
            comp = found[0]
    if isinstance(comp, ast.Call) and dotted(comp.func) == "re.compile" and comp.args:
        fl = comp.args[1] if len(comp.args) > 1 else None
        for k in comp.keywords:
            if k.arg == "flags":
                fl = k.value
        nsub = {"sub": 1, "subn": 1}.get(m, 0)
        return m, str_value(comp.args[0]), flagval(fl), (call.args[nsub] if len(call.args) > nsub else None)
    return None


# ----------------------------------------------------------------------
# branch paths: the decisions of a piece of code independent of how its if/else is spelled
# ----------------------------------------------------------------------

class BranchPath:
    def __init__(self, conds, stmts, exit_):
        self.conds = conds    # [(test expression node, truth value)] in evaluation order
        self.stmts = stmts    # statements executed (compound statements other than `if` are atomic)
        self.exit = exit_     # the Return / Raise / Continue / Break that ends the path, or None (falls off the end)

    def holds(self, text, value=True):
        """was the condition with this source text decided `value` on the path (negations are folded: `not c` True == c False)"""
        for t, v in self.conds:
            tt, vv = _fold_not(t, v)
            if src(tt) == text and vv == value:
                return True
        return False

    def order(self):
        return [src(_fold_not(t, v)[0]) for t, v in self.conds]


def _fold_not(t, v):
    while isinstance(t, ast.UnaryOp) and isinstance(t.op, ast.Not):
        t, v = t.operand, not v
    if isinstance(t, ast.Compare) and len(t.ops) == 1 and isinstance(t.ops[0], (ast.IsNot, ast.NotIn, ast.NotEq)):
        inv = {ast.IsNot: ast.Is, ast.NotIn: ast.In, ast.NotEq: ast.Eq}[type(t.ops[0])]
        t = ast.Compare(left=t.left, ops=[inv()], comparators=t.comparators)
        v = not v
    return t, v


def branch_paths(stmts, limit=512, fn=None):
    """every path through the if-statements of a statement list; with fn given, conditions are shown with
    single-definition locals of fn replaced by their values (`a = self.x; if a:` reads as `if self.x:`)"""
    out = []
    _res = (lambda t: resolve_deep(fn, t, 2)) if fn is not None else (lambda t: t)

    def go(todo, conds, done):
        if len(out) > limit:
            raise AnalysisError("too many branch paths")
        if not todo:
            out.append(BranchPath(conds, done, None))
            return
        s, rest = todo[0], todo[1:]
        if isinstance(s, ast.If):
            t_ = _res(s.test)
            go(list(s.body) + rest, conds + [(t_, True)], done)
            go(list(s.orelse) + rest, conds + [(t_, False)], done)
            return
        if isinstance(s, (ast.Return, ast.Raise, ast.Continue, ast.Break)):
            out.append(BranchPath(conds, done + [s], s))
            return
        go(rest, conds, done + [s])
    go(list(stmts), [], [])
    return out


def arms(e):
    """the alternative values of a (possibly nested) conditional expression; [e] for any other expression"""
    if isinstance(e, ast.IfExp):
        return arms(e.body) + arms(e.orelse)
    return [e]


def guards_of(node, stop=None, fn=None):
    """[(condition source text, truth value)] of the if statements / conditional expressions that enclose `node`
    (innermost first), negations folded; with fn given, locals of fn that are assigned once read as their value"""
    out = []
    child = node
    if fn is not None:
        _fold = lambda t, v: _fold_not(resolve_deep(fn, t, 2), v)
    else:
        _fold = _fold_not
    for a in ancestors(node):
        if a is stop:
            break
        if isinstance(a, ast.If):
            if any(contains(b, child) for b in a.body):
                t, v = _fold(a.test, True)
                out.append((src(t), v))
            elif any(contains(b, child) for b in a.orelse):
                t, v = _fold(a.test, False)
                out.append((src(t), v))
        elif isinstance(a, ast.IfExp):
            if contains(a.body, child):
                t, v = _fold(a.test, True)
                out.append((src(t), v))
            elif contains(a.orelse, child):
                t, v = _fold(a.test, False)
                out.append((src(t), v))
        child = a
        if isinstance(a, (ast.FunctionDef, ast.Lambda)):
            break
    return out


class _Subst(ast.NodeTransformer):
    def __init__(self, env):
        self.env = env

    def visit_Name(self, n):
        if isinstance(n.ctx, ast.Load) and n.id in self.env:
            return _clone_expr(self.env[n.id])
        return n


def _fold_str(e):
    """'a' + 'b' -> 'ab' inside an expression (left-nested sums too)"""
    class F(ast.NodeTransformer):
        def visit_BinOp(self, n):
            self.generic_visit(n)
            if isinstance(n.op, ast.Add) and isinstance(n.left, ast.Constant) and isinstance(n.right, ast.Constant) and isinstance(n.left.value, str) and isinstance(n.right.value, str):
                return ast.Constant(value=n.left.value + n.right.value)
            if isinstance(n.op, ast.Add) and isinstance(n.left, ast.Constant) and n.left.value == "":
                return n.right
            if isinstance(n.op, ast.Add) and isinstance(n.right, ast.Constant) and n.right.value == "":
                return n.left
            return n

        def visit_Call(self, n):
            self.generic_visit(n)
            # '<text>'.count('<x>') on constants
            if isinstance(n.func, ast.Attribute) and n.func.attr == "count" and isinstance(n.func.value, ast.Constant) and isinstance(n.func.value.value, str) and len(n.args) == 1 and isinstance(n.args[0], ast.Constant) and isinstance(n.args[0].value, str):
                return ast.Constant(value=n.func.value.value.count(n.args[0].value))
            return n

        def visit_UnaryOp(self, n):
            self.generic_visit(n)
            if isinstance(n.op, ast.USub) and isinstance(n.operand, ast.Constant) and isinstance(n.operand.value, int) and not isinstance(n.operand.value, bool):
                return ast.Constant(value=-n.operand.value)
            return n
    return F().visit(e)


def fragment_completions(db):
    """how ast.PythonFragment completes a control line before parsing it, per keyword, whatever the dispatch is written as
    (if/elif chain, guard clauses, constant table): [(keywords, prefix text, suffix text, lineno_offset value or None, node)]"""
    pf = db.func("ast.PythonFragment.__init__")
    sup = [c for c in walk_func(pf) if isinstance(c, ast.Call) and dotted(c.func) == "super().__init__" and c.args]
    if not sup:
        raise AnalysisError("ast.PythonFragment.__init__: the call of PythonCode.__init__ was not found (anchor)")
    codep = pn(pf, 1)
    out = []
    for conds, call in sym_cases(pf, sup[0], tables=module_tables(db, "ast", pf)):
        kws = None
        for t, v in conds:
            t, v = _fold_not(t, v)
            if v and isinstance(t, ast.Compare) and len(t.ops) == 1:
                c = t.comparators[0]
                if isinstance(t.ops[0], ast.Eq) and isinstance(c, ast.Constant) and isinstance(c.value, str):
                    kws = [c.value]
                elif isinstance(t.ops[0], ast.In) and isinstance(c, (ast.List, ast.Tuple, ast.Set)) and all(isinstance(const(e), str) for e in c.elts):
                    kws = [const(e) for e in c.elts]
        if kws is None:
            continue
        # the code argument: <prefix> + code + <suffix>
        parts = []
        a0 = call.args[0]
        if isinstance(a0, ast.BinOp) and isinstance(a0.op, ast.Mod) and isinstance(a0.left, ast.Constant) and isinstance(a0.left.value, str) and a0.left.value.count("%s") == 1 and a0.left.value.count("%") == 1:
            # '<prefix>%s<suffix>' % code
            pre_, suf_ = a0.left.value.split("%s")
            a0 = ast.BinOp(left=ast.BinOp(left=ast.Constant(value=pre_), op=ast.Add(), right=a0.right), op=ast.Add(), right=ast.Constant(value=suf_))
        def flat(e):
            if isinstance(e, ast.BinOp) and isinstance(e.op, ast.Add):
                flat(e.left)
                flat(e.right)
            else:
                parts.append(e)
        flat(a0)
        names = [i for i, p in enumerate(parts) if not (isinstance(p, ast.Constant) and isinstance(p.value, str))]
        if len(names) != 1 or not any(isinstance(x, ast.Name) and x.id == codep for x in ast.walk(parts[names[0]])):
            out.append((kws, None, None, None, call))
            continue
        prefix = "".join(p.value for p in parts[:names[0]])
        suffix = "".join(p.value for p in parts[names[0] + 1:])
        off = [k.value for k in call.keywords if k.arg == "lineno_offset"]
        offv = const(off[0]) if off and isinstance(off[0], ast.Constant) else (-const(off[0].operand) if off and isinstance(off[0], ast.UnaryOp) and isinstance(off[0].op, ast.USub) and isinstance(off[0].operand, ast.Constant) else None)
        out.append((kws, prefix, suffix, offv if off else "absent", call))
    return out


def module_tables(db, modname, fn=None):
    """{name: Dict node} of the constant lookup tables a function may consult: module-level and (for a method) class-level
    `NAME = {<constant keys>: ...}`"""
    out = {}
    scopes = [db.mod(modname).tree.body]
    cls = getattr(fn, "_parent", None)
    if isinstance(cls, ast.ClassDef):
        scopes.append(cls.body)
    for body in scopes:
        for s in body:
            if isinstance(s, ast.Assign) and len(s.targets) == 1 and isinstance(s.targets[0], ast.Name) and isinstance(s.value, ast.Dict) and s.value.keys and all(isinstance(k, ast.Constant) for k in s.value.keys):
                out[s.targets[0].id] = s.value
    return out


def _const_truth(t):
    """truth of a test that only involves displays / constants (after substitution), else None"""
    if isinstance(t, ast.UnaryOp) and isinstance(t.op, ast.Not):
        v = _const_truth(t.operand)
        return None if v is None else not v
    if isinstance(t, ast.Compare) and len(t.ops) == 1 and isinstance(t.ops[0], (ast.Is, ast.IsNot)) and isinstance(t.comparators[0], ast.Constant) and t.comparators[0].value is None:
        if isinstance(t.left, (ast.Tuple, ast.List, ast.Dict, ast.Set)) or (isinstance(t.left, ast.Constant) and t.left.value is not None):
            return isinstance(t.ops[0], ast.IsNot)
        if isinstance(t.left, ast.Constant) and t.left.value is None:
            return isinstance(t.ops[0], ast.Is)
    if isinstance(t, ast.Constant):
        return bool(t.value)
    if isinstance(t, (ast.Tuple, ast.List)):
        return bool(t.elts)
    return None


def _simplify_under(e, conds):
    """conditional expressions whose test was already decided on the path take the decided arm"""
    known = {}
    for t, v in conds:
        t, v = _fold_not(t, v)
        known[src(t)] = v

    class S(ast.NodeTransformer):
        def visit_IfExp(self, n):
            self.generic_visit(n)
            t, v = _fold_not(n.test, True)
            k = known.get(src(t))
            if k is None:
                return n
            return n.body if k == v else n.orelse
    return S().visit(_clone_expr(e))


def sym_cases(fn, target, limit=256, tables=None):
    """symbolic evaluation of the straight-line / if structure of fn up to the statement that holds the expression `target`:
    [(conditions [(expression, truth)], value of target)] with every local written in terms of the function's inputs
    (assignments and += are substituted, conditional expressions assigned to a local are split into cases).
    Loops and try statements on the way are not followed (AnalysisError if target lies inside one that assigns a local it reads)."""
    stop = enclosing_stmt(target)
    out = []

    def sub(e, env):
        return _fold_str(_Subst(env).visit(_clone_expr(e)))

    def split(e):
        """[(conds, leaf)] of a (nested) conditional expression"""
        if isinstance(e, ast.IfExp):
            t, pos = e.test, True
            while isinstance(t, ast.UnaryOp) and isinstance(t.op, ast.Not):
                t, pos = t.operand, not pos
            return [([(t, pos)] + c, l) for c, l in split(e.body)] + [([(t, not pos)] + c, l) for c, l in split(e.orelse)]
        return [([], e)]

    def go(todo, conds, env):
        if len(out) > limit:
            raise AnalysisError("sym_cases: too many cases in %s" % getattr(fn, "_qual", "?"))
        if not todo:
            return
        s, rest = todo[0], todo[1:]
        if s is stop or contains(s, target) and not isinstance(s, (ast.If,)):
            for c, leaf in split(sub(target, env)):
                out.append((conds + c, _simplify_under(leaf, conds + c)))
            return
        if isinstance(s, ast.If):
            t = sub(s.test, env)
            d = _const_truth(t)
            pos = True
            while isinstance(t, ast.UnaryOp) and isinstance(t.op, ast.Not):
                t, pos = t.operand, not pos  # `not T` taken is T not taken
            if d is not False:
                go(list(s.body) + rest, conds + ([(t, pos)] if d is None else []), env)
            if d is not True:
                go(list(s.orelse) + rest, conds + ([(t, not pos)] if d is None else []), env)
            return
        if isinstance(s, (ast.Return, ast.Raise, ast.Continue, ast.Break)):
            return
        if isinstance(s, ast.Assign) and len(s.targets) == 1 and isinstance(s.targets[0], ast.Name):
            v0 = s.value
            # a look-up in a constant table: one case per key, and the case that the key is not there
            tb = None
            def tname(e_):
                if isinstance(e_, ast.Name):
                    return e_.id
                if isinstance(e_, ast.Attribute) and isinstance(e_.value, ast.Name) and e_.value.id in ("self", "cls"):
                    return e_.attr
                return None
            def table(e_):
                if isinstance(e_, ast.Dict) and e_.keys and all(isinstance(k_, ast.Constant) for k_ in e_.keys):
                    return e_
                return (tables or {}).get(tname(e_))
            if isinstance(v0, ast.Call) and isinstance(v0.func, ast.Attribute) and v0.func.attr == "get" and table(v0.func.value) is not None and 1 <= len(v0.args) <= 2:
                tb, key, dflt = table(v0.func.value), v0.args[0], (v0.args[1] if len(v0.args) == 2 else ast.Constant(value=None))
            elif isinstance(v0, ast.Subscript) and table(v0.value) is not None:
                tb, key, dflt = table(v0.value), v0.slice, None
            if tb is not None:
                k_ = sub(key, env)
                for kk, vv in zip(tb.keys, tb.values):
                    test = ast.Compare(left=k_, ops=[ast.Eq()], comparators=[kk])
                    go(rest, conds + [(test, True)], dict(env, **{s.targets[0].id: vv}))
                if dflt is not None:
                    test = ast.Compare(left=k_, ops=[ast.In()], comparators=[ast.Tuple(elts=list(tb.keys), ctx=ast.Load())])
                    go(rest, conds + [(test, False)], dict(env, **{s.targets[0].id: sub(dflt, env)}))
                return
            for c, leaf in split(sub(s.value, env)):
                go(rest, conds + c, dict(env, **{s.targets[0].id: leaf}))
            return
        if isinstance(s, ast.Assign) and len(s.targets) == 1 and isinstance(s.targets[0], ast.Tuple) and all(isinstance(t_, ast.Name) for t_ in s.targets[0].elts):
            val = sub(s.value, env)
            if isinstance(val, ast.Tuple) and len(val.elts) == len(s.targets[0].elts):
                new = dict(env)
                for t_, v_ in zip(s.targets[0].elts, val.elts):
                    new[t_.id] = v_
                go(rest, conds, new)
                return
            if isinstance(val, ast.IfExp):
                # a, b = (x1, y1) if c else (x2, y2): one case per arm
                leaves = split(val)
                if all(isinstance(leaf, ast.Tuple) and len(leaf.elts) == len(s.targets[0].elts) for _c, leaf in leaves):
                    for c, leaf in leaves:
                        new = dict(env)
                        for t_, v_ in zip(s.targets[0].elts, leaf.elts):
                            new[t_.id] = v_
                        go(rest, conds + c, new)
                    return
            if isinstance(val, ast.Call):
                # the elements of what a call returns: <call>[0], <call>[1], ...
                new = dict(env)
                for i_, t_ in enumerate(s.targets[0].elts):
                    new[t_.id] = ast.Subscript(value=val, slice=ast.Constant(value=i_), ctx=ast.Load())
                go(rest, conds, new)
                return
        if isinstance(s, ast.AugAssign) and isinstance(s.target, ast.Name):
            cur = env.get(s.target.id, ast.Name(id=s.target.id, ctx=ast.Load()))
            val = _fold_str(ast.BinOp(left=_clone_expr(cur), op=s.op, right=sub(s.value, env)))
            go(rest, conds, dict(env, **{s.target.id: val}))
            return
        if isinstance(s, ast.Try) and not s.finalbody and not s.orelse and s.handlers and all(h.body and isinstance(h.body[-1], ast.Raise) for h in s.handlers):
            # try: <look-up> except KeyError: raise ...   - the cases that go on are those of the body
            go(list(s.body) + rest, conds, env)
            return
        # any other statement: locals it stores become unknown
        stored = {n.id for n in ast.walk(s) if isinstance(n, ast.Name) and isinstance(n.ctx, (ast.Store, ast.Del))}
        go(rest, conds, {k: v for k, v in env.items() if k not in stored})
    go(list(fn.body), [], {})
    return out


def keyed_values(fn, key):
    """the expressions a function binds to the constant mapping key `key`: {key: v} displays, dict(..., key=v) / .update(key=v)
    keywords and m[key] = v stores"""
    out = []
    for n in walk_func(fn):
        if isinstance(n, ast.Dict):
            for k, v in zip(n.keys, n.values):
                if k is not None and const(k) == key:
                    out.append(v)
        elif isinstance(n, ast.Call) and (dotted(n.func) == "dict" or (isinstance(n.func, ast.Attribute) and n.func.attr in ("update", "setdefault"))):
            for k in n.keywords:
                if k.arg == key:
                    out.append(k.value)
            if isinstance(n.func, ast.Attribute) and n.func.attr == "setdefault" and len(n.args) == 2 and const(n.args[0]) == key:
                out.append(n.args[1])
        elif isinstance(n, ast.Assign):
            for t in n.targets:
                if isinstance(t, ast.Subscript) and const(t.slice) == key:
                    out.append(n.value)
    return out


def atomic_facts(conds):
    """[(test expression, truth)] -> {(text, truth)}: `A and B` taken true gives A, B; `A or B` taken false gives not A, not B;
    negations folded"""
    out = set()

    def add(t, v):
        t, v = _fold_not(t, v)
        if isinstance(t, ast.BoolOp) and ((isinstance(t.op, ast.And) and v) or (isinstance(t.op, ast.Or) and not v)):
            for x in t.values:
                add(x, v)
            return
        out.add((src(t), v))
    for t, v in conds:
        add(t, v)
    return out


def facts_at(node, fn, resolve_locals=False):
    """{(condition text, truth)} known to hold where `node` stands: the enclosing tests, with `A and B` taken true split into
    A and B, `A or B` taken false split into not A, not B, and negations folded (`x is not y` true == `x is y` false)"""
    out = set()

    def add(t, v):
        t, v = _fold_not(t, v)
        if isinstance(t, ast.BoolOp) and ((isinstance(t.op, ast.And) and v) or (isinstance(t.op, ast.Or) and not v)):
            for x in t.values:
                add(x, v)
            return
        out.add((src(t), v))
    child = node
    for a in ancestors(node):
        if isinstance(a, (ast.If, ast.IfExp)):
            test = resolve_deep(fn, a.test, 2) if resolve_locals else a.test
            body = a.body if isinstance(a, ast.If) else [a.body]
            orelse = a.orelse if isinstance(a, ast.If) else [a.orelse]
            if any(contains(b, child) or b is child for b in body):
                add(test, True)
            elif any(contains(b, child) or b is child for b in orelse):
                add(test, False)
        child = a
        if a is fn or isinstance(a, (ast.FunctionDef, ast.Lambda)):
            break
    # guard clauses in front of the node in its own and the enclosing statement lists: `if c: <leave>` makes c false afterwards
    child = node
    for a in [node] + list(ancestors(node)):
        par = getattr(a, "_parent", None)
        for f in ("body", "orelse", "finalbody"):
            lst = getattr(par, f, None)
            if isinstance(lst, list) and any(s is a for s in lst):
                i = [k for k, s in enumerate(lst) if s is a][0]
                for s in lst[:i]:
                    if isinstance(s, ast.If) and not s.orelse and s.body and isinstance(s.body[-1], (ast.Return, ast.Raise, ast.Continue, ast.Break)):
                        add(resolve_deep(fn, s.test, 2) if resolve_locals else s.test, False)
        if par is fn or isinstance(par, (ast.FunctionDef, ast.Lambda)):
            break
    return out


def guard_implies(guards, text):
    """the guards (from guards_of) make the condition `text` true: it is a guard taken true, or a conjunct of one"""
    for t, v in guards:
        if not v:
            # not (A or B) makes neither true; nothing follows for `text`
            continue
        if t == text:
            return True
        try:
            e = ast.parse(t, mode="eval").body
        except SyntaxError:
            continue
        if isinstance(e, ast.BoolOp) and isinstance(e.op, ast.And) and any(src(x) == text for x in e.values):
            return True
    return False


def return_leaves(fn):
    """[(value expression, [(condition text, truth)] guards)] for every alternative a function can return:
    one entry per return statement and per arm of a conditional expression returned"""
    out = []
    for r in walk_func(fn):
        if isinstance(r, ast.Return) and r.value is not None:
            for leaf in arms(r.value):
                out.append((leaf, guards_of(leaf, fn)))
    return out


def resolve(fn, e, depth=3):
    """an expression with names that are assigned exactly once in fn replaced by what they are assigned (the reverse of
    'introduce explaining variable', for values the normaliser does not substitute because they are not pure)"""
    if depth == 0 or e is None:
        return e
    if isinstance(e, ast.Name) and e.id not in param_names(fn):
        defs = [s for s in walk_func(fn) if isinstance(s, ast.Assign) and len(s.targets) == 1 and isinstance(s.targets[0], ast.Name) and s.targets[0].id == e.id]
        defs = [s for s in defs if not any(isinstance(x, ast.Name) and x.id == e.id for x in ast.walk(s.value))]
        others = [n for n in walk_func(fn) if isinstance(n, ast.Name) and n.id == e.id and isinstance(n.ctx, (ast.Store, ast.Del))]
        if len(defs) == 1 and len(others) == 1:
            return resolve(fn, defs[0].value, depth - 1)
        if not defs and len(others) == 1:
            # one element of a tuple assignment:  a, b = x, y   /   a, b = m.group(1, 2)
            for s in walk_func(fn):
                if isinstance(s, ast.Assign) and len(s.targets) == 1 and isinstance(s.targets[0], (ast.Tuple, ast.List)):
                    names = [t.id if isinstance(t, ast.Name) else None for t in s.targets[0].elts]
                    if e.id in names:
                        i = names.index(e.id)
                        v = s.value
                        if isinstance(v, (ast.Tuple, ast.List)) and len(v.elts) == len(names):
                            return resolve(fn, v.elts[i], depth - 1)
                        if isinstance(v, ast.Call) and isinstance(v.func, ast.Attribute) and v.func.attr == "group" and len(v.args) == len(names) and not v.keywords:
                            return ast.copy_location(ast.Call(func=v.func, args=[v.args[i]], keywords=[]), v)
    return e


def resolve_deep(fn, e, depth=3):
    """copy of an expression in which every name that fn assigns exactly once is replaced by the assigned value"""
    import copy as _copy

    class R(ast.NodeTransformer):
        def visit_Name(self, n):
            if isinstance(n.ctx, ast.Load) and depth > 0:
                r = resolve(fn, n, 1)
                if r is not n:
                    return resolve_deep(fn, r, depth - 1)
            return n
    return R().visit(_clone_expr(e))


def _clone_expr(n):
    """structural copy of an expression tree without the parent / module back links"""
    if isinstance(n, ast.AST):
        new = type(n)()
        for f in n._fields:
            setattr(new, f, _clone_expr(getattr(n, f, None)))
        for a in ("lineno", "col_offset", "end_lineno", "end_col_offset"):
            if hasattr(n, a):
                setattr(new, a, getattr(n, a))
        return new
    if isinstance(n, list):
        return [_clone_expr(x) for x in n]
    return n


def field_initial(db, fn, e):
    """the expression a constructor stores in a field, for `e` = `v.attr` where fn binds v once to `C(...)` and C is a class of
    fn's module whose methods assign self.attr exactly once (in __init__); None when that cannot be established"""
    if not (isinstance(e, ast.Attribute) and isinstance(e.value, ast.Name)):
        return None
    defs = [s for s in walk_func(fn) if isinstance(s, ast.Assign) and len(s.targets) == 1 and isinstance(s.targets[0], ast.Name) and s.targets[0].id == e.value.id]
    if len(defs) != 1 or not (isinstance(defs[0].value, ast.Call) and isinstance(defs[0].value.func, ast.Name)):
        return None
    mod = getattr(fn, "_qual", "").split(".")[0]
    q = mod + "." + defs[0].value.func.id
    if not db.has(q) or not isinstance(db.defs[q], ast.ClassDef):
        return None
    cd = db.defs[q]
    stores = [s for m in cd.body if isinstance(m, ast.FunctionDef) for s in ast.walk(m)
              if isinstance(s, ast.Assign) and any(isinstance(t, ast.Attribute) and isinstance(t.value, ast.Name) and t.value.id == "self" and t.attr == e.attr for t in s.targets)]
    init = [m for m in cd.body if isinstance(m, ast.FunctionDef) and m.name == "__init__"]
    if len(stores) != 1 or not init or stores[0] not in list(ast.walk(init[0])):
        return None
    return stores[0].value


def linear_form(e):
    """{term text: coefficient, '': constant} of an expression built from +, -, unary minus, integer constants and opaque terms;
    None when it is not of that form"""
    out = {}

    def add(x, k):
        if isinstance(x, ast.BinOp) and isinstance(x.op, (ast.Add, ast.Sub)):
            return add(x.left, k) and add(x.right, k if isinstance(x.op, ast.Add) else -k)
        if isinstance(x, ast.UnaryOp) and isinstance(x.op, ast.USub):
            return add(x.operand, -k)
        if isinstance(x, ast.Constant):
            if isinstance(x.value, bool) or not isinstance(x.value, int):
                return False
            out[""] = out.get("", 0) + k * x.value
            return True
        t = " ".join(src(x).split())
        out[t] = out.get(t, 0) + k
        return True
    if not add(e, 1):
        return None
    return {k: v for k, v in out.items() if v != 0 or k == ""} | ({"": out.get("", 0)})
