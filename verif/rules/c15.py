"""C15 - module files regenerated when stale, never observed half-written.

Decided: the atomic publish protocol (temp file in the destination directory,
write < close < move onto outputpath, outputpath written by nothing else),
who may write files in the package, the staleness conditions and that every
regeneration is followed by a load, the module_writer contract, boundedness of
verify_directory.  Crash points inside OS calls are not decided (rename
atomicity on one file system is the trusted base)."""

import ast

from ..core import rule
from ..engine import cfg as cfgmod, flow
from ..engine import pattern as P
from ..engine.facts import dotted, const, src, walk_func, enclosing_stmt, ancestors
from .common import calls, stmt_nodes, norm_successors, contains, pn, access_paths, assigned_from

MOVES = ("shutil.move", "os.replace", "os.rename")


@rule("C15.atomic-publish", min_instances=6, props=["C09"])
def atomic_publish(ctx):
    """default writer: mkstemp(dir=dirname(outputpath)) -> os.write -> os.close -> move(tmp, outputpath); outputpath is written by nothing else"""
    db = ctx.db
    fn = db.func("template._compile_module_file")
    OUT = fn.args.args[3].arg
    g = cfgmod.function_cfg(fn)
    mk = calls(fn, "tempfile.mkstemp", "tempfile.NamedTemporaryFile", "mkstemp")
    if not mk:
        ctx.violation("mkstemp", db.where(fn), "module source is not written through a temporary file: a crash or concurrent reader observes a partial module at the final path")
        return
    m0 = mk[0]
    kw = {k.arg: k.value for k in m0.keywords}
    d = kw.get("dir")
    ctx.check(d is not None and src(d).replace("os.path.", "").replace("posixpath.", "") == "dirname(%s)" % OUT, "tmp.same-dir", db.where(m0),
              "temporary file is created in %s, not in the directory of the destination: the final move is then not an atomic rename" % (src(d) if d is not None else "the default temp dir"), "dir=dirname(outputpath)")
    wr = calls(fn, "os.write") + [c for c in calls(fn, suffix="write") if dotted(c.func) != "os.write"]
    cl = calls(fn, "os.close") + [c for c in calls(fn, suffix="close") if dotted(c.func) != "os.close"]
    mv = calls(fn, *MOVES)
    ctx.check(bool(wr) and bool(cl) and bool(mv), "steps", db.where(fn), "write/close/move steps missing (write=%d close=%d move=%d)" % (len(wr), len(cl), len(mv)), "write, close and move present")
    if not (wr and cl and mv):
        return
    # tmp name/fd provenance
    st = enclosing_stmt(m0)
    fdname = tmpname = None
    if isinstance(st, ast.Assign) and isinstance(st.targets[0], ast.Tuple) and len(st.targets[0].elts) == 2:
        fdname, tmpname = [src(e) for e in st.targets[0].elts]
    ctx.check(fdname is not None, "tmp.unpack", db.where(m0), "cannot identify the temp file descriptor and name", "fd=%s name=%s" % (fdname, tmpname))
    w0, c0, v0 = wr[0], cl[0], mv[0]
    ctx.check(src(w0.args[0]) == fdname and len(w0.args) == 2, "write.target", db.where(w0), "os.write targets %s, not the temp descriptor" % src(w0.args[0]), "writes the temp descriptor")
    ctx.check(src(c0.args[0]) == fdname if c0.args else False, "close.target", db.where(c0), "close() is not applied to the temp descriptor", "closes the temp descriptor")
    ctx.check(len(v0.args) == 2 and src(v0.args[0]) == tmpname and src(v0.args[1]) == OUT, "move.args", db.where(v0),
              "final step is %s, not move(<temp name>, outputpath)" % src(v0), "move(%s, outputpath)" % tmpname)
    # ordering on every path: mkstemp dom write dom close dom move
    seq = [("mkstemp", m0), ("write", w0), ("close", c0), ("move", v0)]
    for (an, a), (bn, b) in zip(seq, seq[1:]):
        ok = g.stmt_dominates(enclosing_stmt(a), enclosing_stmt(b)) and enclosing_stmt(a) is not enclosing_stmt(b)
        ctx.check(ok, "order:%s<%s" % (an, bn), db.where(b), "%s is not preceded by %s on every path: the module can be published before it is completely written and closed" % (bn, an), "%s dominates %s" % (an, bn))
    # the whole source is written by one os.write call... os.write may write partially: accept (trusted: regular files)
    # outputpath used nowhere else
    uses = [n for n in walk_func(fn) if isinstance(n, ast.Name) and n.id == OUT and isinstance(n.ctx, ast.Load)]
    for u in uses:
        c = next((a for a in ancestors(u) if isinstance(a, ast.Call)), None)
        nm = dotted(c.func) if c is not None else None
        ok = nm in MOVES and c.args and c.args[-1] is u or (nm or "").endswith("dirname") or nm == fn.args.args[4].arg
        ctx.check(bool(ok), "outputpath-use:%s" % nm, db.where(u), "outputpath is passed to %s: something other than the final move touches the destination" % nm, "used by %s" % nm)
    opens = [c for c in calls(fn, "open", "io.open", "os.open", "os.fdopen")]
    ctx.check(not opens, "no-direct-open", db.where(fn), "direct open() in _compile_module_file: %s" % [src(o) for o in opens], "no direct open()")


WRITE_PRIMS = {"os.write", "os.open", "os.rename", "os.replace", "os.remove", "os.unlink", "os.makedirs", "os.mkdir", "os.rmdir",
               "shutil.move", "shutil.copy", "shutil.copyfile", "shutil.copy2", "shutil.rmtree", "tempfile.mkstemp", "tempfile.mkdtemp",
               "tempfile.NamedTemporaryFile", "tempfile.TemporaryFile", "os.fdopen", "os.truncate"}


def _is_write_open(c):
    nm = dotted(c.func)
    if nm not in ("open", "io.open", "codecs.open"):
        return False
    mode = None
    if len(c.args) >= 2:
        mode = const(c.args[1])
    for k in c.keywords:
        if k.arg == "mode":
            mode = const(k.value)
    if mode is None:
        mexpr = c.args[1] if len(c.args) >= 2 else next((k.value for k in c.keywords if k.arg == "mode"), None)
        if mexpr is None:
            return False
        # mode forwarded from a parameter: use its default; explicit call sites are checked separately
        f = getattr(c, "_func", None)
        if isinstance(mexpr, ast.Name) and f is not None:
            from .common import param_default
            d = param_default(f, mexpr.id)
            if d is not None and isinstance(const(d), str):
                return any(ch in const(d) for ch in "wax+")
        return True  # unknown mode: assume write
    return any(ch in mode for ch in "wax+")


@rule("C15.who-may-write", min_instances=5)
def who_may_write(ctx):
    """file-creating / -writing primitives occur only at the listed sites of the package"""
    db = ctx.db
    allowed = {
        "template._compile_module_file": "the atomic module publisher",
        "util.verify_directory": "creates the module directory",
        "cmd.cmdline": "mako-render --output-file",
    }
    canary = ast.parse("open(p, 'wb').write(b); os.replace(a, b); p.write_text(x)")
    hits = [n for n in ast.walk(canary) if isinstance(n, ast.Call) and (_is_write_open(n) or dotted(n.func) in WRITE_PRIMS or (dotted(n.func) or "").endswith((".write_text", ".write_bytes")))]
    ctx.require(len(hits) == 3, "canary for write primitives failed (%d)" % len(hits))
    n = 0
    for modname, m in db.modules.items():
        for c in ast.walk(m.tree):
            if not isinstance(c, ast.Call):
                continue
            nm = dotted(c.func) or ""
            if not (_is_write_open(c) or nm in WRITE_PRIMS or nm.endswith((".write_text", ".write_bytes"))):
                continue
            n += 1
            f = getattr(c, "_func", None)
            q = getattr(f, "_qual", modname + ".<module>")
            if modname.startswith("testing"):
                ctx.ok("%s:%s" % (q, nm), db.where(c), "test support code")
                continue
            ctx.check(q in allowed, "%s:%s" % (q, nm), db.where(c),
                      "file-writing primitive %s in %s: generated modules / files are only to be created by the atomic publisher" % (nm, q), allowed.get(q, ""))
    # wrappers that forward a mode parameter to open(): every call site must pass a read mode
    for c in db.all_calls(lambda nm: nm in ("util.read_file", "read_file")):
        mode = const(c.args[1]) if len(c.args) >= 2 else next((const(k.value) for k in c.keywords if k.arg == "mode"), "rb")
        f = getattr(c, "_func", None)
        q = getattr(f, "_qual", "<module>")
        if not (isinstance(mode, str) and not any(ch in mode for ch in "wax+")):
            n += 1
            ctx.check(q in allowed, "%s:read_file(mode)" % q, db.where(c), "read_file called with mode %r in %s" % (mode, q), "")
    ctx.note("write_sites", n)


@rule("C15.staleness", min_instances=6, props=["C09", "C14"])
def staleness(ctx):
    """module regenerated exactly when missing / older than the source / wrong magic number; every regeneration is followed by a load before use"""
    db = ctx.db
    fn = db.func("template.Template._compile_from_file")
    g = cfgmod.function_cfg(fn)
    regen = calls(fn, "_compile_module_file")
    loads = calls(fn, "compat.load_module")
    ctx.require(len(regen) >= 1 and len(loads) >= 1, "_compile_from_file: regenerate/load sites missing (anchor)")
    lnodes = [n for l in loads for n in stmt_nodes(g, l)]
    conds = []
    for r in regen:
        ifs = [a for a in ancestors(r) if isinstance(a, ast.If) and any(contains(b, r) for b in a.body)]
        ctx.check(bool(ifs), "regen-guarded", db.where(r), "module regenerated unconditionally: an up-to-date module file is not reused", "guarded by `%s`" % (src(ifs[0].test) if ifs else ""))
        if ifs:
            conds.append((ifs[0], r))
        # every normal path from the regeneration reaches a load before leaving the function / ModuleInfo
        for n in stmt_nodes(g, r):
            for s in norm_successors(n):
                good, path = g.must_pass(s, lnodes, exits=[g.exit], kinds=("n",))
                ctx.check(good, "regen-then-load", db.where(r), "after regenerating, a path uses the previously loaded module without reloading (%s)" % g.fmt_path(path), "load_module follows on every normal path")
    texts = [src(i.test) for i, _ in conds]
    pathp, filep = pn(fn, 1), pn(fn, 2)
    fmv = {t.id for n in walk_func(fn) if isinstance(n, ast.Assign) and ("stat(%s)" % filep) in src(n.value) for t in n.targets if isinstance(t, ast.Name)}
    # condition 1: missing or older
    have_missing = have_older = have_magic = False
    for i, r in conds:
        for c in ast.walk(i.test):
            if isinstance(c, ast.UnaryOp) and isinstance(c.op, ast.Not) and ("exists(%s)" % pathp) in src(c.operand).replace("os.path.", ""):
                have_missing = True
            if isinstance(c, ast.Compare) and len(c.ops) == 1:
                l, r_ = src(c.left), src(c.comparators[0])
                op = type(c.ops[0]).__name__
                if ("stat(%s)" % pathp) in l.replace("os.", "") and r_ in fmv:
                    ctx.check(op in ("Lt", "LtE"), "older.polarity", db.where(c), "regeneration condition is module_mtime %s source_mtime: a module older than its source is reused" % op, "module mtime %s source mtime" % op)
                    have_older = True
                elif l in fmv and ("stat(%s)" % pathp) in r_.replace("os.", ""):
                    ctx.check(op in ("Gt", "GtE"), "older.polarity", db.where(c), "regeneration condition has the wrong polarity (%s)" % op, "source mtime %s module mtime" % op)
                    have_older = True
                if "_magic_number" in l + r_:
                    ctx.check(op == "NotEq" and "MAGIC_NUMBER" in l + r_, "magic.compare", db.where(c), "magic-number test is `%s`" % src(c), "regenerate iff module._magic_number != codegen.MAGIC_NUMBER")
                    have_magic = True
    ctx.check(have_missing, "cond.missing", db.where(fn), "a missing module file is not a regeneration condition (%s)" % texts, "not exists(path)")
    ctx.check(have_older, "cond.older", db.where(fn), "module-older-than-source is not a regeneration condition (%s)" % texts, "module mtime < source mtime")
    ctx.check(have_magic, "cond.magic", db.where(fn), "generator-version (magic number) mismatch is not a regeneration condition (%s)" % texts, "magic mismatch")
    # filemtime is the source's mtime
    fm = [n for n in walk_func(fn) if isinstance(n, ast.Assign) and any(isinstance(t, ast.Name) and t.id in fmv for t in n.targets)]
    ctx.check(bool(fm) and ("stat(%s)" % filep) in src(fm[0].value).replace("os.", "") and "ST_MTIME" in src(fm[0].value).upper(), "filemtime", db.where(fm[0]) if fm else db.where(fn), "filemtime is not os.stat(filename)[ST_MTIME]", "source mtime from os.stat(filename)")
    # regenerate from current source: data read from filename right before
    for r in regen:
        ctx.check(len(r.args) >= 4 and src(r.args[2]) == filep and src(r.args[3]) == pathp, "regen.args", db.where(r), "regeneration call is %s" % src(r), "writes `path` from `filename`")
        dn = r.args[1]
        rr = flow.Reaching(fn)
        ok = False
        if isinstance(dn, ast.Name):
            defs = rr.defs_at(enclosing_stmt(r), dn.id)
            ok = bool(defs) and all(isinstance(d, ast.Assign) and ("read_file(%s)" % filep) in src(d.value) for d in defs)
        ctx.check(ok, "regen.source", db.where(r), "regenerated text is not freshly read from filename", "text = util.read_file(filename)")
    # the magic number emitted is the one compared
    cg = db.mod("codegen")
    emitted = [n for n in ast.walk(cg.tree) if isinstance(n, ast.BinOp) and isinstance(n.op, ast.Mod) and isinstance(n.left, ast.Constant) and isinstance(n.left.value, str) and n.left.value.startswith("_magic_number")]
    ctx.check(bool(emitted) and all(src(e.right) == "MAGIC_NUMBER" for e in emitted), "magic.emitted", db.where(emitted[0]) if emitted else "mako/codegen.py", "emitted _magic_number is not codegen.MAGIC_NUMBER", "emits _magic_number = %r % MAGIC_NUMBER")
    # the loaded module is what is returned / registered
    rets = [n for n in walk_func(fn) if isinstance(n, ast.Return)]
    mvs = assigned_from(fn, "compat.load_module(...)") | assigned_from(fn, "_compile_text(...)#1")
    ctx.check(all(src(r.value) in mvs for r in rets) and rets, "returns-module", db.where(fn), "returns %s" % [src(r.value) for r in rets], "returns the loaded module")
    for l in loads:
        ctx.check(len(l.args) == 2 and src(l.args[1]) == pathp, "load.path", db.where(l), "loads %s" % src(l), "loads `path`")


@rule("C15.writer-contract", min_instances=3)
def writer_contract(ctx):
    """module_writer, when given, is the only writer on its path and receives (encoded bytes, outputpath)"""
    db = ctx.db
    fn = db.func("template._compile_module_file")
    g = cfgmod.function_cfg(fn)
    mwp = pn(fn, 4)
    srcv = assigned_from(fn, "_compile(...)#0")
    mw = calls(fn, mwp)
    ctx.require(mw, "_compile_module_file never calls module_writer (anchor)")
    c = mw[0]
    ctx.check(len(c.args) == 2 and src(c.args[0]) in srcv and src(c.args[1]) == pn(fn, 3) and not c.keywords, "args", db.where(c), "module_writer called as %s" % src(c), "module_writer(source, outputpath)")
    ifs = [a for a in ancestors(c) if isinstance(a, ast.If)]
    ctx.check(bool(ifs) and src(ifs[0].test) == mwp and any(contains(b, c) for b in ifs[0].body), "guard", db.where(c), "module_writer call not under `if module_writer:`", "under if module_writer")
    if ifs:
        branch = ifs[0].body
        others = [n for s in branch for n in ast.walk(s) if isinstance(n, ast.Call) and n is not c and (dotted(n.func) in WRITE_PRIMS or _is_write_open(n))]
        ctx.check(not others, "only-writer", db.where(c), "the default writer also runs on the module_writer path: %s" % [src(o) for o in others], "no other writer on that branch")
        default = [n for s in ifs[0].orelse for n in ast.walk(s) if isinstance(n, ast.Call) and dotted(n.func) in MOVES]
        ctx.check(bool(default), "default-else", db.where(ifs[0]), "the default publisher is not the else-branch of `if module_writer`", "default writer in else")
    # bytes: source encoded before
    enc = [n for n in walk_func(fn) if isinstance(n, ast.Assign) and isinstance(n.value, ast.Call) and isinstance(n.value.func, ast.Attribute) and n.value.func.attr == "encode" and src(n.targets[0]) in srcv and src(n.value.func.value) in srcv]
    ctx.check(bool(enc) and g.stmt_dominates(enclosing_stmt(enc[0]) if not isinstance(getattr(enc[0], "_parent", None), ast.If) else enc[0]._parent, enclosing_stmt(c)), "bytes", db.where(enc[0]) if enc else db.where(fn),
              "source is not encoded to bytes before being handed to the writer", "source.encode(...) precedes the writer")


def in_try_handling_(node):
    from .common import in_try_handling
    return in_try_handling(node, "OSError", "FileExistsError", "Exception", "EnvironmentError")


@rule("C15.verify-directory", min_instances=2)
def verify_directory(ctx):
    """verify_directory's retry loop is bounded and exits when the directory exists"""
    db = ctx.db
    fn = db.func("util.verify_directory")
    wl = [n for n in walk_func(fn) if isinstance(n, ast.While)]
    if not wl:
        mk = [c for c in walk_func(fn) if isinstance(c, ast.Call) and dotted(c.func) in ("os.makedirs", "os.mkdir")]
        def rechecks(c):
            """a failed creation is followed by another look at the directory (another process may just have made it) before giving up"""
            for a in ancestors(c):
                if isinstance(a, ast.Try) and any(contains(b, c) or b is c for b in a.body):
                    for h in a.handlers:
                        tn = [dotted(t) for t in (h.type.elts if isinstance(h.type, ast.Tuple) else [h.type])] if h.type is not None else []
                        if tn == ["FileExistsError"] and not any(isinstance(x, ast.Raise) for x in ast.walk(h)):
                            return True
                        if any(isinstance(x, ast.Call) and (dotted(x.func) or "").split(".")[-1] in ("exists", "isdir") for x in ast.walk(h)):
                            return True
                    # ... or by the condition of the loop that retries
                    for l in ancestors(a):
                        if isinstance(l, ast.While) and any(isinstance(x, ast.Call) and (dotted(x.func) or "").split(".")[-1] in ("exists", "isdir") for x in ast.walk(l.test)):
                            return True
                        if isinstance(l, (ast.For, ast.While)) and any(isinstance(i, ast.If) and any(isinstance(x, ast.Call) and (dotted(x.func) or "").split(".")[-1] in ("exists", "isdir") for x in ast.walk(i.test)) for i in l.body):
                            return True
                    return False
            return False
        tolerant = any(any(k.arg == "exist_ok" and const(k.value) is True for k in c.keywords) for c in mk) or (bool(mk) and all(in_try_handling_(c) and rechecks(c) for c in mk))
        ctx.check(tolerant, "concurrent-creation", db.where(fn), "verify_directory checks for the directory and then creates it with no tolerance for a concurrent creator: of several processes constructing the same Template all but one fail with FileExistsError", "makedirs tolerates an existing directory")
        ctx.ok("bounded", db.where(fn), "no retry loop")
        return
    w = wl[0]
    ctx.check("exists" in src(w.test) and isinstance(w.test, ast.UnaryOp) and isinstance(w.test.op, ast.Not), "exit-condition", db.where(w), "loop condition is %s" % src(w.test), "loops while the directory does not exist")
    incs = [n for n in ast.walk(w) if isinstance(n, ast.AugAssign) and isinstance(n.op, ast.Add)]
    hs = [h for n in ast.walk(w) if isinstance(n, ast.Try) for h in n.handlers]
    bounded = False
    for h in hs:
        for i in ast.walk(h):
            if isinstance(i, ast.If) and isinstance(i.test, ast.Compare) and isinstance(i.test.ops[0], (ast.Gt, ast.GtE)) and any(isinstance(r, ast.Raise) for r in i.body):
                cn = src(i.test.left)
                if any(src(x.target) == cn for x in incs):
                    bounded = True
    ctx.check(bounded, "bounded", db.where(w), "the retry loop has no counter-bounded re-raise: a permanent failure spins forever", "re-raises after a bounded number of tries")
