"""C16 - concurrent lookups and renders behave like some sequential execution.

Decided (structure only): lock pairing on all exits, double-checked read and
store inside the locked region, no re-entry under the non-reentrant lock,
check-then-act on evicting shared caches, LRU tolerance of concurrent
deletion, render-time writes only to per-render objects.  Interleavings are
not decided."""

import ast

from ..core import rule, AnalysisError
from ..engine import cfg as cfgmod, flow
from ..engine import pattern as P
from ..engine.facts import dotted, const, src, walk_func, enclosing_stmt, ancestors
from .common import calls, stmt_nodes, in_try_handling, contains, norm_successors, pn, access_paths


def _lock_attrs(db):
    """(class qual, attr) assigned from threading.Lock()/RLock() in __init__"""
    out = []
    for q, fn in db.all_functions():
        for n in walk_func(fn):
            if isinstance(n, ast.Assign) and isinstance(n.value, ast.Call) and dotted(n.value.func) in ("threading.Lock", "threading.RLock", "Lock", "RLock"):
                for t in n.targets:
                    out.append((q, dotted(t), dotted(n.value.func), n))
    return out


@rule("C16.lock-pairing", min_instances=2)
def lock_pairing(ctx):
    """every acquire() is released on every exit (normal, return, exception); nothing may raise between acquire and the protecting try"""
    db = ctx.db
    locks = _lock_attrs(db)
    ctx.require(locks, "no threading.Lock() object found in the package (anchor)")
    ctx.check(len({l[1] for l in locks}) == 1, "lock-objects", db.where(locks[0][3]),
              "%d distinct lock attributes: lock-order analysis would be needed (%s)" % (len(locks), [l[1] for l in locks]),
              "one lock object in the package => no lock-order cycle: %s" % locks[0][1])
    n_acq = 0
    for q, fn in db.all_functions():
        acqs = calls(fn, suffix="acquire")
        if not acqs:
            continue
        g = cfgmod.function_cfg(fn)
        for a in acqs:
            recv = dotted(a.func.value)
            n_acq += 1
            rel = [n for c in calls(fn, suffix="release") if dotted(c.func.value) == recv for n in stmt_nodes(g, c)]
            an = stmt_nodes(g, a)
            ok = True
            witness = None
            for node in an:
                for s in norm_successors(node):
                    good, path = g.must_pass(s, rel)
                    if not good:
                        ok = False
                        witness = g.fmt_path(path)
            ctx.check(ok, "%s:%s" % (q, recv), db.where(a),
                      "lock %s acquired but a path leaves %s without release: %s" % (recv, q, witness),
                      "release on every exit (CFG with exceptional edges)")
    ctx.require(n_acq >= 1 or any(isinstance(n, ast.With) for q, fn in db.all_functions() for n in walk_func(fn) if isinstance(n, ast.With) and any(dotted(i.context_expr) == locks[0][1] for i in n.items)),
                "no acquire()/with site for the lock found")


def _locked_region(fn, g):
    """(acquire call, set of CFG nodes between acquire and release) for _load."""
    acqs = calls(fn, suffix="acquire")
    withs = [n for n in walk_func(fn) if isinstance(n, ast.With) and any("mutex" in (dotted(i.context_expr) or "") or "lock" in (dotted(i.context_expr) or "").lower() for i in n.items)]
    if acqs:
        a = acqs[0]
        recv = dotted(a.func.value)
        rel = {n for c in calls(fn, suffix="release") if dotted(c.func.value) == recv for n in stmt_nodes(g, c)}
        start = stmt_nodes(g, a)[0]
        region = g.reachable(start, blocked=rel) - {start}
        return a, region, rel
    if withs:
        w = withs[0]
        region = set()
        for st in w.body:
            for n in ast.walk(st):
                region |= set(g.nodes_of(n))
        return w, region, set()
    return None, set(), set()


@rule("C16.double-check", min_instances=3)
def double_check(ctx):
    """inside _load's locked region a second-chance read of the collection precedes Template construction, and the store is inside the region"""
    db = ctx.db
    fn = db.func("lookup.TemplateLookup._load")
    g = cfgmod.function_cfg(fn)
    a, region, rel = _locked_region(fn, g)
    if a is None:
        ctx.violation("region", db.where(fn), "_load takes no lock: concurrent first requests compile twice and may publish a half-built entry")
        return
    tc = calls(fn, "Template")
    ctx.require(tc, "_load does not construct Template (anchor)")
    tnodes = [n for c in tc for n in stmt_nodes(g, c)]
    ctx.check(all(n in region for n in tnodes), "construct-in-region", db.where(tc[0]),
              "Template is constructed outside the locked region", "Template(...) inside locked region")
    # reads: Return of self._collection[uri]
    reads = []
    for n in walk_func(fn):
        if isinstance(n, ast.Return) and isinstance(n.value, ast.Subscript) and dotted(n.value.value) == "self._collection":
            reads.append(n)
    rnodes = [x for r in reads for x in g.nodes_of(r) if x in region]
    start = stmt_nodes(g, a)[0]
    p = g.path_avoiding(start, tnodes, rnodes) if tnodes else None
    ctx.check(bool(rnodes) and p is None, "second-chance-read", db.where(reads[0]) if reads else db.where(fn),
              "Template construction reachable under the lock without first re-reading the collection (path: %s): simultaneous first requests compile twice and return different objects" % g.fmt_path(p),
              "every path acquire -> Template(...) passes `return self._collection[uri]`")
    for r in reads:
        ctx.check(isinstance(r.value.slice, ast.Name) and r.value.slice.id == "uri", "read-key", db.where(r), "second-chance read uses key %s, not uri" % src(r.value.slice), "key uri")
    stores = [n for n in walk_func(fn) if isinstance(n, ast.Assign) and any(isinstance(t, ast.Subscript) and dotted(t.value) == "self._collection" for t in n.targets)]
    ctx.require(stores, "_load never stores into self._collection (anchor)")
    for s in stores:
        ctx.check(all(x in region for x in g.nodes_of(s)), "store-in-region", db.where(s),
                  "the collection store happens outside the locked region", "store inside locked region")
        sub = [t for t in s.targets if isinstance(t, ast.Subscript)][0]
        ctx.check(src(sub.slice) == "uri", "store-key", db.where(s), "store key is %s" % src(sub.slice), "key uri")


def _resolve_calls(db, fn, q):
    """conservative callee set of fn inside the package."""
    cls = q.rsplit(".", 2)[0] if q.count(".") >= 2 else None
    mod = q.split(".")[0]
    m = db.modules.get(mod) or db.modules.get(".".join(q.split(".")[:2]))
    out = set()
    for n in ast.walk(fn):
        if not isinstance(n, ast.Call):
            continue
        f = n.func
        if isinstance(f, ast.Name):
            nm = f.id
            # local/module function or class
            for cand in ("%s.%s" % (mod, nm),):
                if cand in db.defs:
                    d = db.defs[cand]
                    if isinstance(d, ast.ClassDef):
                        if cand + ".__init__" in db.defs:
                            out.add(cand + ".__init__")
                    else:
                        out.add(cand)
            tgt = m.imports.get(nm) if m else None
            if tgt and tgt.startswith("mako."):
                cand = tgt[len("mako."):]
                if cand in db.defs:
                    d = db.defs[cand]
                    out.add(cand + ".__init__" if isinstance(d, ast.ClassDef) and cand + ".__init__" in db.defs else cand)
        elif isinstance(f, ast.Attribute):
            base = dotted(f.value)
            tgt = m.imports.get(base) if (m and base) else None
            if tgt and tgt.startswith("mako"):
                cand = (tgt[len("mako."):] + "." + f.attr) if tgt != "mako" else f.attr
                if cand in db.defs:
                    d = db.defs[cand]
                    out.add(cand + ".__init__" if isinstance(d, ast.ClassDef) and cand + ".__init__" in db.defs else cand)
                continue
            if f.attr.startswith("__") and f.attr.endswith("__"):
                continue
            # method call on unknown receiver: every method of that name in the package
            for cq, d in db.defs.items():
                if isinstance(d, ast.FunctionDef) and cq.endswith("." + f.attr) and cq.count(".") >= 2:
                    out.add(cq)
    return out


@rule("C16.no-reentry", min_instances=1)
def no_reentry(ctx):
    """nothing reachable in the package from the locked region acquires the (non-reentrant) lock or re-enters get_template/_load"""
    db = ctx.db
    fn = db.func("lookup.TemplateLookup._load")
    locks = _lock_attrs(db)
    ctx.require(locks, "no lock object")
    reentrant = any(l[2].endswith("RLock") for l in locks)
    g = cfgmod.function_cfg(fn)
    a, region, rel = _locked_region(fn, g)
    if a is None:
        ctx.ok("no-region", db.where(fn), "no locked region (reported by double-check)")
        return
    # callees of the statements in the region
    region_stmts = {id(n.stmt): n.stmt for n in region if n.stmt is not None}
    roots = set()
    class _Tmp:
        pass
    for st in region_stmts.values():
        if isinstance(st, (ast.Try, ast.If, ast.For, ast.While, ast.With, ast.ExceptHandler)):
            # header expressions only
            hdr = [getattr(st, "test", None), getattr(st, "iter", None)]
            for h in hdr:
                if h is not None:
                    roots |= _resolve_calls(db, h, "lookup.TemplateLookup._load")
        else:
            roots |= _resolve_calls(db, st, "lookup.TemplateLookup._load")
    seen = set()
    todo = list(roots)
    parent = {r: None for r in roots}
    while todo:
        q = todo.pop()
        if q in seen or q not in db.defs:
            continue
        seen.add(q)
        for c in _resolve_calls(db, db.defs[q], q):
            if c not in seen:
                parent.setdefault(c, q)
                todo.append(c)
    bad = [q for q in seen if q in ("lookup.TemplateLookup._load", "lookup.TemplateLookup.get_template", "lookup.TemplateLookup._check")]
    acq = [q for q in seen if calls(db.defs[q], suffix="acquire")]
    ctx.note("reachable_under_lock", len(seen))

    def chain(q):
        out = [q]
        while parent.get(q):
            q = parent[q]
            out.append(q)
        return " <- ".join(out)
    if reentrant:
        ctx.ok("reentrant", db.where(locks[0][3]), "lock is re-entrant")
        return
    ctx.check(not bad and not acq, "reentry", db.where(a),
              "code reachable while the lock is held re-enters the lookup / acquires the lock again: %s" % [chain(q) for q in (bad + acq)],
              "%d functions reachable under the lock (resolved conservatively), none acquires it or calls get_template/_load; user callbacks (modulename_callable, preprocessor, module_writer, <%%! %%> code) are assumptions" % len(seen))


def _evicting_caches(db):
    """attributes of TemplateLookup assigned an LRUCache in __init__"""
    fn = db.func("lookup.TemplateLookup.__init__")
    out = set()
    for n in walk_func(fn):
        if isinstance(n, ast.Assign) and isinstance(n.value, ast.Call) and (dotted(n.value.func) or "").endswith("LRUCache"):
            for t in n.targets:
                out.add(dotted(t))
    return out


@rule("C16.check-then-act", min_instances=3)
def check_then_act(ctx):
    """no membership-test-then-subscript on an evicting shared cache outside the lock without a KeyError handler"""
    db = ctx.db
    caches = _evicting_caches(db)
    ctx.require(caches, "TemplateLookup.__init__ creates no LRUCache (anchor)")
    n_sites = 0
    for name, fn in db.methods("lookup.TemplateLookup").items():
        q = "lookup.TemplateLookup." + name
        for n in walk_func(fn):
            if isinstance(n, ast.Subscript) and isinstance(n.ctx, ast.Load) and dotted(n.value) in caches:
                n_sites += 1
                cache = dotted(n.value)
                key = src(n.slice)
                guarded = in_try_handling(n, "KeyError", "LookupError", "Exception")
                # is it inside the locked region?  (lock held => no concurrent eviction by _load, but
                # eviction also happens from unlocked put_string/__setitem__, so only KeyError handling counts)
                tested = None
                for a in ancestors(n):
                    if isinstance(a, ast.If):
                        for c in ast.walk(a.test):
                            if isinstance(c, ast.Compare) and len(c.ops) == 1 and isinstance(c.ops[0], ast.In) and dotted(c.comparators[0]) == cache and src(c.left) == key:
                                if any(contains(b, n) for b in a.body):
                                    tested = a
                if guarded:
                    ctx.ok("%s:%s[%s]" % (name, cache, key), db.where(n), "read under a KeyError handler")
                elif tested is not None:
                    ctx.violation("%s:%s" % (name, cache), db.where(n),
                                  "`if %s in %s: ... %s[%s]` without KeyError handling: another thread's LRU eviction between the test and the read raises an undocumented KeyError (siblings get_template/filename_to_uri use try/except KeyError)" % (key, cache, cache, key))
                else:
                    ctx.violation("%s:%s:unguarded" % (name, cache), db.where(n),
                                  "read %s[%s] on an evicting shared cache with neither KeyError handling nor lock" % (cache, key))
    ctx.require(n_sites >= 3, "expected >=3 subscript reads of the shared caches, found %d" % n_sites)


@rule("C16.lru-tolerance", min_instances=1)
def lru_tolerance(ctx):
    """LRUCache._manage_size tolerates a concurrent deletion (KeyError handled inside the loop)"""
    db = ctx.db
    fn = db.func("util.LRUCache._manage_size")
    dels = [n for n in walk_func(fn) if isinstance(n, ast.Delete) or (isinstance(n, ast.Call) and dotted(n.func) in ("self.pop", "dict.__delitem__", "dict.pop"))]
    ctx.require(dels, "_manage_size deletes nothing (anchor)")
    for d in dels:
        if isinstance(d, ast.Call) and dotted(d.func) in ("self.pop", "dict.pop") and len(d.args) >= 2 + (dotted(d.func) == "dict.pop"):
            ctx.ok("del", db.where(d), "pop with default cannot raise")
            continue
        ctx.check(in_try_handling(d, "KeyError", "Exception"), "del", db.where(d),
                  "eviction delete is not protected against KeyError: a concurrent eviction makes get_template/put_string raise KeyError", "KeyError handled")
    # other threads insert into and delete from the dictionary without the lock: it is only ever traversed by one call of a
    # builtin that takes a snapshot (sorted / list / tuple); any traversal from Python code can see it change size and raise RuntimeError
    SNAP = ("sorted", "list", "tuple")
    views = []
    for n in walk_func(fn):
        if isinstance(n, ast.Call) and dotted(n.func) in ("dict.values", "dict.items", "dict.keys", "self.values", "self.items", "self.keys", "dict.__iter__", "iter"):
            if dotted(n.func) == "iter" and not (n.args and src(n.args[0]) == "self"):
                continue
            views.append(n)
    for l_ in walk_func(fn):
        if isinstance(l_, (ast.For, ast.comprehension)) and src(l_.iter) == "self":
            views.append(l_.iter)
    ctx.require(views, "_manage_size does not traverse the dictionary (anchor)")
    for v_ in views:
        par = getattr(v_, "_parent", None)
        ok = isinstance(par, ast.Call) and dotted(par.func) in SNAP and par.args and par.args[0] is v_
        ctx.check(ok, "snapshot", db.where(v_), "`%s` traverses the live dictionary from Python code (`%s`): another thread's insert or eviction during the traversal raises RuntimeError('dictionary changed size during iteration') out of get_template" % (src(v_), src(par)[:60] if par is not None else ""), "traversed by one snapshotting builtin call")


def _same_branch(a, b):
    """b is in the same block as a (or nested below a's block), i.e. executes after a on some path"""
    pa = getattr(a, "_parent", None)
    x = b
    while x is not None:
        if getattr(x, "_parent", None) is pa:
            return True
        x = getattr(x, "_parent", None)
    return False


SHARED_NAMES = {"template", "tmpl", "error_template", "t", "self.template", "self._with_template", "context._with_template", "template.module", "self.template.module", "module"}


@rule("C16.render-isolation", min_instances=5, props=["C13"])
def render_isolation(ctx):
    """functions on the render path store only into per-render objects (Context, namespaces, stacks) - never into Template, generated modules or module globals, except allow-listed idempotent memos"""
    db = ctx.db
    allow = {
        ("cache.Cache._get_cache_kw", "self._def_regions"): "idempotent memo of per-def cache kwargs (same value computed by every thread)",
        ("cache.Cache.__init__", "self"): "constructor of the per-Template Cache, reached once through memoized_property",
        ("runtime._decorate_toplevel.decorate_render.go", "y"): "fresh closure per call",
    }
    n_scanned = 0
    for modname in ("runtime", "cache"):
        for q, fn in db.functions_in(modname):
            for n in walk_func(fn):
                tgt = None
                if isinstance(n, ast.Global):
                    ctx.violation("%s:global" % q, db.where(n), "render-path function declares global %s: shared mutable state" % n.names)
                    continue
                if isinstance(n, (ast.Attribute, ast.Subscript)) and isinstance(n.ctx, (ast.Store, ast.Del)):
                    tgt = dotted(n.value)
                elif isinstance(n, ast.Call) and isinstance(n.func, ast.Attribute) and n.func.attr in ("append", "pop", "update", "setdefault", "clear", "add", "remove", "insert", "extend", "discard", "popitem", "__setitem__"):
                    tgt = dotted(n.func.value)
                elif isinstance(n, ast.Call) and dotted(n.func) == "setattr" and n.args:
                    tgt = dotted(n.args[0])
                if tgt is None:
                    continue
                n_scanned += 1
                root = tgt.split("[")[0]
                shared = root in SHARED_NAMES or any(root.startswith(s + ".") for s in SHARED_NAMES) or ".module" in root or root.startswith("template.") or root.startswith("tmpl.")
                key = "%s:%s" % (q, tgt)
                if not shared:
                    continue
                a = allow.get((q, tgt)) or allow.get((q, root))
                if a:
                    ctx.ok(key, db.where(n), "allow-listed: " + a)
                else:
                    ctx.violation(key, db.where(n), "render-path code mutates shared object `%s` (a Template / generated module): concurrent renders and a failed render leave state behind" % tgt)
    # the allow-listed memo must be published completely built: no mutation of the stored object after the store
    gk = db.func("cache.Cache._get_cache_kw")
    pubs = []
    for s in walk_func(gk):
        if isinstance(s, ast.Assign) and any(isinstance(t, ast.Subscript) and dotted(t.value) == "self._def_regions" for t in s.targets) and isinstance(s.value, ast.Name):
            pubs.append((s, s.value.id))
        elif isinstance(s, ast.Assign) and isinstance(s.value, ast.Call) and dotted(s.value.func) == "self._def_regions.setdefault" and isinstance(s.targets[0], ast.Name):
            pubs.append((s, s.targets[0].id))
    for s, name in pubs:
        later = [c for c in walk_func(gk) if isinstance(c, ast.Call) and isinstance(c.func, ast.Attribute) and dotted(c.func.value) == name and c.func.attr in ("update", "setdefault", "pop", "clear", "__setitem__") and c.lineno > s.lineno and _same_branch(s, c)]
        later += [t for t in walk_func(gk) if isinstance(t, ast.Subscript) and isinstance(t.ctx, ast.Store) and dotted(t.value) == name and t.lineno > s.lineno and _same_branch(s, t)]
        ctx.check(not later, "memo-published-complete:%d" % (s.lineno - gk.lineno), db.where(s), "the per-def cache arguments are stored in the shared _def_regions and modified afterwards (%s): a second thread's first call of the cached def sees the half-built entry and runs with the wrong cache arguments" % [src(x) for x in later][:2], "stored after it is completely built")
    # ... and an alias of the shared memo (read back from it, or published into it earlier on the path) is never mutated
    g = cfgmod.function_cfg(gk)
    rr = flow.Reaching(gk)
    muts = []
    for x in walk_func(gk):
        if isinstance(x, ast.Subscript) and isinstance(x.ctx, (ast.Store, ast.Del)) and isinstance(x.value, ast.Name):
            muts.append((x, x.value.id))
        elif isinstance(x, ast.Call) and isinstance(x.func, ast.Attribute) and isinstance(x.func.value, ast.Name) and x.func.attr in ("update", "setdefault", "pop", "clear", "__setitem__", "popitem"):
            muts.append((x, x.func.value.id))
    bad_alias = []
    for x, name in muts:
        st = enclosing_stmt(x)
        try:
            defs = rr.defs_at(st, name)
        except AnalysisError:
            defs = set()
        for d in defs:
            if isinstance(d, ast.Assign) and isinstance(d.value, ast.Subscript) and dotted(d.value.value) == "self._def_regions":
                bad_alias.append((x, "it was read from the shared _def_regions at line %d" % getattr(d, "_srcline", d.lineno)))
            if isinstance(d, ast.Assign) and isinstance(d.value, ast.Call) and dotted(d.value.func) in ("self._def_regions.get", "self._def_regions.setdefault"):
                bad_alias.append((x, "it was read from the shared _def_regions at line %d" % getattr(d, "_srcline", d.lineno)))
        for s, pname in pubs:
            if pname != name or s is st:
                continue
            redefs = [n_ for d in ast.walk(gk) if isinstance(d, ast.Assign) and any(isinstance(t, ast.Name) and t.id == name for t in d.targets) and d is not s for n_ in g.nodes_of(d)]
            for sn in g.nodes_of(s):
                for tn in stmt_nodes(g, x):
                    if g.path_avoiding(sn, [tn], redefs, kinds=("n",)):
                        bad_alias.append((x, "it was stored into the shared _def_regions at line %d and not rebound since" % getattr(s, "_srcline", s.lineno)))
    if bad_alias:
        x, why = bad_alias[0]
        ctx.violation("memo-alias-mutated", db.where(x), "`%s` mutates a dictionary that may be the per-def entry shared by every render of the template (%s): concurrent renders overwrite each other's value (e.g. the Context handed to the cache backend)" % (src(enclosing_stmt(x)), why))
    else:
        ctx.ok("memo-alias-mutated", db.where(gk), "%d mutation sites in _get_cache_kw; none on an alias of the shared memo" % len(muts))
    ctx.note("stores_scanned", n_scanned)
    ctx.require(n_scanned >= 30, "write-effect scan saw only %d stores in runtime.py/cache.py" % n_scanned)
    # per-render classification of what remains: Context.* / Namespace.* / stacks store into self or locals
    ctx.ok("scan", "mako/runtime.py, mako/cache.py", "%d stores/mutator calls scanned; all others target self of per-render classes, locals or context copies" % n_scanned)
    # the two memos on Template itself
    for q, attr in (("template.Template.cache", "memoized_property"), ("template.Template.reserved_names", "memoized_property")):
        fn = db.func(q)
        decs = [dotted(d) for d in fn.decorator_list]
        ctx.check(any(d and d.endswith(attr) for d in decs), q, db.where(fn), "%s is no longer a memoized_property: first-use initialisation changed" % q, "idempotent memo (%s)" % decs)
    # Template construction stores happen only in __init__-reachable code, not in render entry points
    for name in ("render", "render_unicode", "render_context", "get_def", "has_def", "list_defs", "_get_def_callable"):
        fn = db.func("template.Template." + name)
        stores = [n for n in walk_func(fn) if isinstance(n, (ast.Attribute, ast.Subscript)) and isinstance(n.ctx, (ast.Store, ast.Del)) and (dotted(n.value) or "").startswith("self")]
        ctx.check(not stores, "Template.%s" % name, db.where(fn), "render entry point stores into the Template: %s" % [src(s) for s in stores], "no store into self")


_SYSMOD_EXAMPLE = '''
import sys
def bad(p):
    try:
        return sys.modules[p]
    except KeyError:
        return __import__(p)
def bad2(p):
    return sys.modules.get(p) or __import__(p)
def good(p):
    if p in sys.modules:
        del sys.modules[p]
    return __import__(p)
'''


def _sysmodule_reads(tree):
    """places that take a module object out of sys.modules (subscript load / .get / .pop / .setdefault)"""
    out = []
    for n in ast.walk(tree):
        if isinstance(n, ast.Subscript) and isinstance(n.ctx, ast.Load) and dotted(n.value) == "sys.modules":
            if isinstance(n.slice, ast.Name) and n.slice.id == "__name__":
                continue  # the module that is running this very statement
            out.append(n)
        elif isinstance(n, ast.Call) and isinstance(n.func, ast.Attribute) and n.func.attr in ("get", "pop", "setdefault") and dotted(n.func.value) == "sys.modules":
            out.append(n)
    return out


@rule("C16.import-through-machinery", min_instances=1)
def import_through_machinery(ctx):
    """modules (cache plugins, <%namespace module=...>) are obtained through the import machinery only: nothing takes a module object out of sys.modules, where Python publishes a module before its body has run - only the import lock makes a concurrent first use wait for the complete module"""
    db = ctx.db
    ex = _sysmodule_reads(ast.parse(_SYSMOD_EXAMPLE))
    ctx.require(len(ex) == 2, "self-example of the sys.modules matcher no longer matches (%d)" % len(ex))
    ctx.ok("self-example", "", "matcher flags sys.modules[p] / sys.modules.get(p) and accepts membership tests and deletion in the embedded example")
    n = 0
    for name in sorted(db.modules):
        if name.startswith("testing"):
            continue
        for r in _sysmodule_reads(db.modules[name].tree):
            n += 1
            ctx.violation("sysmodules:%s:%s" % (name, getattr(getattr(r, "_func", None), "name", "<module>")), db.where(r),
                          "`%s` takes a module out of sys.modules without the import lock: while another thread is still importing it (first render that needs a cache plugin or a namespace module) the module is there but incomplete, and the second render fails with AttributeError" % " ".join(src(r).split())[:60])
    ctx.note("sys_modules_reads_in_package", n)


_MUTATORS = ("append", "extend", "insert", "pop", "remove", "clear", "update", "setdefault", "add", "discard", "sort", "reverse")


def _state_writing_methods(cd):
    """methods of a class, other than __init__, that change the object's own fields"""
    out = []
    for m in cd.body:
        if not isinstance(m, ast.FunctionDef) or m.name == "__init__" or not m.args.args:
            continue
        sp = m.args.args[0].arg
        for n in walk_func(m):
            tg = []
            if isinstance(n, ast.Assign):
                tg = n.targets
            elif isinstance(n, (ast.AugAssign, ast.AnnAssign)):
                tg = [n.target]
            # a field that is *rebound* per call (a flag, a position, the current value); entries added to a container the object
            # holds (a memo keyed by its argument) are not judged here
            hit = any(isinstance(x, ast.Attribute) and isinstance(x.value, ast.Name) and x.value.id == sp and isinstance(x.ctx, ast.Store) for t in tg for x in ast.walk(t))
            if hit:
                out.append((m, n))
                break
    return out


@rule("C16.no-shared-instance-state", min_instances=1, props=["C19", "C20", "C03", "C13"])
def no_shared_instance_state(ctx):
    """no object created once at import time keeps per-call state: a module-level instance of a class that did not exist on the pinned tree must not have methods that write its own fields (what was a fresh closure / local per call would become state shared by all calls, templates and threads)"""
    from ..engine import normalize
    db = ctx.db
    if not hasattr(db, "_known"):
        db._known = normalize.load_known()
    ex = ast.parse("class A:\n    def __init__(self):\n        self.flag = False\n    def __call__(self, x):\n        self.flag = not self.flag\n        return x\nclass B:\n    def __call__(self, x):\n        return x\n")
    ctx.require(len(_state_writing_methods(ex.body[0])) == 1 and not _state_writing_methods(ex.body[1]), "self-example of the state-writing matcher no longer matches")
    ctx.ok("self-example", "", "matcher flags a __call__ that flips self.flag and accepts a stateless one")
    n = 0
    for name in sorted(db.modules):
        if name.startswith("testing"):
            continue
        tree = db.modules[name].tree
        classes = {c.name: c for c in tree.body if isinstance(c, ast.ClassDef)}
        for s_ in tree.body:
            if not (isinstance(s_, ast.Assign) and isinstance(s_.value, ast.Call) and isinstance(s_.value.func, ast.Name) and s_.value.func.id in classes):
                continue
            cd = classes[s_.value.func.id]
            q = "%s.%s" % (name, cd.name)
            if any(k == q or k.startswith(q + ".") for k in db._known):
                continue  # a class of the pinned tree
            n += 1
            w = _state_writing_methods(cd)
            tgt = src(s_.targets[0])
            ctx.check(not w, "singleton:%s.%s" % (name, tgt), db.where(s_),
                      "`%s = %s()` is created once when the module is imported, and %s.%s writes the object's own fields (`%s`): what one call leaves behind is seen by the next call, by other templates and by other threads" % (tgt, cd.name, cd.name, w[0][0].name if w else "", " ".join(src(w[0][1]).split())[:60] if w else ""),
                      "module-level instance without per-call state")
    ctx.note("new_module_level_instances", n)


@rule("C16.render-closures-stateless", min_instances=1, props=["C13"])
def render_closures_stateless(ctx):
    """a function that runs once per render (it takes the rendering `context`) keeps nothing on objects it captured from an enclosing scope: such an object exists once per template / decorator application and is shared by concurrent renders"""
    db = ctx.db
    n = 0
    for name in ("runtime", "cache", "template", "lookup", "codegen"):
        if name not in db.modules:
            continue
        for outer in ast.walk(db.modules[name].tree):
            if not isinstance(outer, ast.FunctionDef):
                continue
            for g in ast.walk(outer):
                if not (isinstance(g, ast.FunctionDef) and g is not outer and any(a.arg == "context" for a in g.args.args)):
                    continue
                own = {a.arg for a in g.args.posonlyargs + g.args.args + g.args.kwonlyargs} | ({g.args.vararg.arg} if g.args.vararg else set()) | ({g.args.kwarg.arg} if g.args.kwarg else set())
                own |= {x.id for x in walk_func(g) if isinstance(x, ast.Name) and isinstance(x.ctx, ast.Store)} | {f.name for f in walk_func(g) if isinstance(f, ast.FunctionDef)}
                outer_names = {a.arg for f in ast.walk(outer) if isinstance(f, ast.FunctionDef) and f is not g and g in list(ast.walk(f)) for a in f.args.args} | \
                              {x.id for f in ast.walk(outer) if isinstance(f, ast.FunctionDef) and f is not g and g in list(ast.walk(f)) for x in walk_func(f) if isinstance(x, ast.Name) and isinstance(x.ctx, ast.Store)}
                n += 1
                bad = None
                for st in walk_func(g):
                    tg = st.targets if isinstance(st, ast.Assign) else [st.target] if isinstance(st, (ast.AugAssign, ast.AnnAssign)) else []
                    for t in tg:
                        if isinstance(t, (ast.Attribute, ast.Subscript)):
                            r = t
                            while isinstance(r, (ast.Attribute, ast.Subscript)):
                                r = r.value
                            if isinstance(r, ast.Name) and r.id not in own and r.id in outer_names and r.id not in ("self", "context"):
                                bad = (st, r.id)
                ctx.check(bad is None, "closure:%s.%s" % (name, getattr(g, "_qual", g.name).split(".", 1)[-1]), db.where(g),
                          "%s runs once per render but stores into `%s`, an object of the enclosing scope that exists once for all renders (`%s`): two concurrent renders with different contexts overwrite each other's value" % (g.name, bad[1] if bad else "", " ".join(src(bad[0]).split())[:70] if bad else ""),
                          "per-render function keeps nothing on captured objects")
    ctx.require(n >= 1, "no nested per-render function (with a `context` parameter) found in runtime (anchor)")
