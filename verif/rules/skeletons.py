"""Build the skeleton programs of every construct the code generator can
emit (shared by C03, C05, C12, C13, C17)."""

import ast

from ..core import AnalysisError
from ..engine import emit, typestate
from ..engine.facts import dotted, src

CHILDREN_LINES = ["if __RET__: return ''", "__CHILDREN__()"]

# keyword instantiations for a user control line
HEADERS = {
    "if": "if __U__:", "for": "for __u__ in __U__:", "while": "while __U__:", "try": "try:", "with": "with __U__:",
    "elif": "elif __U__:", "else": "else:", "except": "except __U__:", "finally": "finally:",
}


class Skel:
    def __init__(self, construct, trace, res, tree, tag):
        self.construct = construct
        self.trace = trace
        self.res = res
        self.tree = tree
        self.tag = tag

    @property
    def source(self):
        return self.res.source(1)

    def flags(self):
        """buffered / filtered / cached / decorator / in_def / callstack as far as the trace's atoms tell"""
        out = {}
        for k, v in self.trace.asg.items():
            lk = k.lower()
            if "buffered" in lk:
                out["buffered"] = v
            elif "filter_args" in lk or lk == "filtered":
                out["filtered"] = v
            elif "cached" in lk:
                out["cached"] = v
            elif "decorator" in lk:
                out["decorator"] = v
            elif lk == "self.in_def":
                out["in_def"] = v
            elif lk == "callstack":
                out["callstack"] = v
        return out

    def flagtag(self):
        f = self.flags()
        return ",".join("%s=%d" % (k, f[k]) for k in sorted(f))


class ChildLayout(emit.Layout):
    """CHILDREN / USERBLOCK rendered as a region that may raise or return.
    With `inner` set (a list of (events, user_header)), the first CHILDREN of the
    outer construct is instantiated with those constructs (thorough tier:
    construct-inside-construct composition)."""

    inner = None

    def _run(self, events, res, st, user_header, star_unroll, children):
        for ev in events:
            if ev[0] in ("CHILDREN", "USERBLOCK"):
                self._emit(res, st, "if __RET__: return ''", ev)
                self._emit(res, st, "__CHILDREN__()" if ev[0] == "CHILDREN" else "__USERBLOCK__()", ev)
                if ev[0] == "CHILDREN" and self.inner:
                    inner, self.inner = self.inner, None
                    try:
                        for ievents, ihdr in inner:
                            self._run(ievents, res, st, ihdr, star_unroll, children)
                        self._emit(res, st, "__CHILDREN__()", ev)
                    finally:
                        self.inner = inner
            else:
                super()._run([ev], res, st, user_header, star_unroll, children)


class Skeletons:
    def __init__(self, db, star_unroll=1):
        self.db = db
        self.model = emit.Model(db)
        self.layout = ChildLayout(db)
        self.rt = typestate.RuntimeEffects(db)
        self.star = star_unroll
        self._cache = {}
        self._summ = None

    def build(self, construct, events_list=None, user_header=None, traces=None):
        """skeletons of every trace of an emitter method (or of given event lists)"""
        key = (construct, user_header)
        if key in self._cache and traces is None:
            return self._cache[key]
        out = []
        trs = traces if traces is not None else self.model.method_traces(construct)
        for i, t in enumerate(trs):
            if t.outcome == "raise":
                continue
            res = self.layout.run(t.events, user_header=user_header, star_unroll=self.star)
            tree = emit.parse_skeleton(res)
            out.append(Skel(construct, t, res, tree, "%s#%d" % (construct, i)))
        if traces is None:
            self._cache[key] = out
        return out

    def raising(self, construct):
        return [t for t in self.model.method_traces(construct) if t.outcome == "raise"]

    # ------------------------------------------------------------------
    def summaries(self):
        """effect summaries of the self-contained emitters that appear as CALL
        events: are they typestate-neutral, and do they bind the writer?"""
        if self._summ is not None:
            return self._summ
        summ = {}
        names = ["write_variable_declares", "write_inline_def", "write_def_decl", "write_cache_decorator",
                 "write_namespaces", "write_inherit", "write_module_code", "write_toplevel", "write_metadata_struct"]
        # two rounds: the first assumes nothing binds the writer
        for rnd in range(2):
            for nm in names:
                if nm not in self.model.methods:
                    continue
                ch = typestate.Checker(self.rt, summ)
                binds = True
                neutral = True
                problems = []
                sk = self.build(nm)
                for s in sk:
                    if s.tree is None or s.res.error or s.res.final_indent != 0:
                        neutral = False
                        problems.append("ill-formed")
                        continue
                    fn = s.tree.body[0]
                    g, viol, exits = ch.check_function(fn.body, s.tag, entry_writer_bound=False)
                    for st, wd in exits["normal"]:
                        if st != ():
                            neutral = False
                        if wd != 0:
                            binds = False
                    for st, wd in exits["exc"]:
                        if st != ():
                            neutral = False
                summ[nm] = dict(binds_writer=binds and bool(sk), neutral=neutral, n=len(sk))
        self._summ = summ
        return summ

    def checker(self):
        return typestate.Checker(self.rt, self.summaries())


def get(db, star=1):
    k = "_skeletons_%d" % star
    if not hasattr(db, k):
        setattr(db, k, Skeletons(db, star))
    return getattr(db, k)


def functions_of(tree):
    """(name, FunctionDef) for the wrapper and every nested def of a skeleton"""
    out = []
    for n in ast.walk(tree):
        if isinstance(n, ast.FunctionDef):
            out.append(n)
    return out


def finally_order_problems(checker, tree):
    """inside a finally body a may-raise statement must not precede a release"""
    out = []
    for n in ast.walk(tree):
        if isinstance(n, ast.Try) and n.finalbody:
            seen_risky = None
            for st in n.finalbody:
                acts = checker.classify(st) if isinstance(st, (ast.Assign, ast.Expr, ast.Return)) else []
                kinds = {a[0] for a in acts}
                if kinds & {"rel", "disarm"}:
                    if seen_risky is not None:
                        out.append((st.lineno, "release `%s` comes after `%s`, which may raise and would skip it" % (src(st), src(seen_risky))))
                elif not (kinds and kinds <= {"bindw", "rebind_loop"}):
                    if not isinstance(st, ast.Pass):
                        seen_risky = seen_risky or st
    return out


def writes_in_finally(checker, tree):
    out = []
    for n in ast.walk(tree):
        if isinstance(n, ast.Try) and n.finalbody:
            for st in n.finalbody:
                for x in ast.walk(st):
                    if isinstance(x, ast.Call) and dotted(x.func) == "__M_writer":
                        out.append(st)
    return out
