"""C07 - namespaces and includes reach other templates with the right context and URI.

Decided: one gateway for run-time template lookups (URI adjusted relative to
the calling template, lookup exception translated); every emitted and
run-time site passes the calling URI and every receiver uses it; included
templates and namespaces get a context stripped of exactly self/parent/next;
include arguments take precedence over context data.  URI arithmetic for all
spellings and precedence among several namespaces are not decided."""

import ast

from ..core import rule, AnalysisError
from ..engine import cfg as cfgmod, flow
from ..engine import pattern as P
from ..engine.facts import dotted, const, src, walk_func, enclosing_stmt, ancestors
from . import skeletons as sk
from . import c04  # strict-emission (imported names precede the context) is registered for C07 there
from . import c05  # attribute-pieces (file="${...}" values) is registered for C07 there
from .common import calls, stmt_nodes, param_names, pn, access_paths, assigned_from, resolve, resolve_deep, return_leaves, guards_of, facts_at


@rule("C07.single-gateway", min_instances=7)
def single_gateway(ctx):
    """runtime.py reaches TemplateLookup.get_template only through _lookup_template, which adjusts the URI relative to the caller and translates TopLevelLookupException"""
    db = ctx.db
    m = db.mod("runtime")
    n = 0
    for c in ast.walk(m.tree):
        if isinstance(c, ast.Call) and isinstance(c.func, ast.Attribute) and c.func.attr == "get_template" and "lookup" in (dotted(c.func.value) or ""):
            n += 1
            q = getattr(getattr(c, "_func", None), "_qual", "<module>")
            ctx.check(q == "runtime._lookup_template", "gateway:" + q, db.where(c), "%s calls lookup.get_template directly: the URI is not adjusted relative to the calling template and the lookup exception is not translated" % q, "only gateway")
    ctx.require(n >= 1, "no lookup.get_template call in runtime.py")
    lt = db.func("runtime._lookup_template")
    g = cfgmod.function_cfg(lt)
    lkv = assigned_from(lt, "%s._with_template.lookup" % pn(lt, 0))
    lkv |= {s_.targets[0].id for s_ in walk_func(lt) if isinstance(s_, ast.Assign) and isinstance(s_.targets[0], ast.Name) and P.matches(resolve_deep(lt, s_.value, 2), "%s._with_template.lookup" % pn(lt, 0))}
    lkn = sorted(lkv)[0] if lkv else "lookup"
    adj = [s for s in walk_func(lt) if isinstance(s, ast.Assign) and isinstance(s.value, ast.Call) and dotted(s.value.func) == lkn + ".adjust_uri"]
    if not adj:
        ctx.violation("adjust.missing", db.where(lt), "_lookup_template does not adjust the URI relative to the calling template (no lookup.adjust_uri): relative URIs are looked up as given")
        return
    a = adj[0]
    uriv = src(a.targets[0])
    ctx.check(isinstance(a.targets[0], ast.Name) and [src(x) for x in a.value.args] == [pn(lt, 1), pn(lt, 2)], "adjust.args", db.where(a), "adjust_uri called as %s" % src(a), "uri = lookup.adjust_uri(uri, relativeto)")
    gt = [c for c in walk_func(lt) if isinstance(c, ast.Call) and dotted(c.func) == lkn + ".get_template"]
    ctx.check(bool(gt) and src(gt[0].args[0]) == uriv and g.stmt_dominates(a, enclosing_stmt(gt[0]).__class__ and _outer(gt[0], g)), "adjust-dominates-get", db.where(gt[0]) if gt else db.where(lt), "get_template is not given the adjusted URI on every path", "adjusted URI dominates get_template")
    hs = [h for t in walk_func(lt) if isinstance(t, ast.Try) for h in t.handlers]
    ok = any(h.type is not None and "TopLevelLookupException" in src(h.type) and any(isinstance(r, ast.Raise) and isinstance(r.exc, ast.Call) and dotted(r.exc.func).endswith("TemplateLookupException") for r in ast.walk(h)) for h in hs)
    ctx.check(ok, "translate", db.where(lt), "TopLevelLookupException is not translated to TemplateLookupException", "unresolvable URI -> TemplateLookupException")
    nl = [i for i in walk_func(lt) if isinstance(i, ast.If) and P.has(i.test, "$l is None")]
    ok = bool(nl) and any(isinstance(r, ast.Raise) and isinstance(r.exc, ast.Call) and dotted(r.exc.func).endswith("TemplateLookupException") for r in ast.walk(nl[0]))
    ctx.check(ok, "no-lookup", db.where(lt), "a template without a lookup does not raise TemplateLookupException", "no lookup -> TemplateLookupException")
    lk = [s for s in walk_func(lt) if isinstance(s, ast.Assign) and src(s.targets[0]) == lkn]
    ctx.check(bool(lk) and bool(lkv), "lookup-source", db.where(lt), "lookup is taken from %s" % (src(lk[0].value) if lk else None), "lookup of the rendering template")
    callers = sorted({getattr(getattr(c, "_func", None), "_qual", "?") for c in ast.walk(m.tree) if isinstance(c, ast.Call) and dotted(c.func) == "_lookup_template"})
    ctx.note("gateway_callers", callers)
    for q in ("runtime.TemplateNamespace.__init__", "runtime.Namespace.get_template", "runtime._include_file", "runtime._inherit_from"):
        ctx.check(q in callers, "caller:" + q, "mako/runtime.py", "%s no longer resolves its template through _lookup_template" % q, "uses the gateway")
    # adjust_uri semantics: absolute kept, relative joined to dirname(relativeto)
    au = db.func("lookup.TemplateLookup.adjust_uri")
    t = src(au)
    ctx.check(P.has(au, "$u[0] == '/'") and P.has(au, "posixpath.join(posixpath.dirname($r), $u)") and P.has(au, "'/' + $u"), "adjust_uri.shape", db.where(au), "adjust_uri no longer keeps absolute URIs, joins relative ones to dirname(relativeto), and roots the rest", "absolute kept; relative joined to the caller's directory; else rooted")


def _outer(node, g):
    st = enclosing_stmt(node)
    while st is not None and not g.nodes_of(st):
        st = enclosing_stmt(getattr(st, "_parent", None))
    return st


def _all_lines(events):
    for e in events:
        if e[0] == "LINE":
            yield e
        elif e[0] == "STAR":
            for a in e[1]:
                yield from _all_lines(a.events)


@rule("C07.calling-uri", min_instances=10, props=["C09"])
def calling_uri(ctx):
    """every emitted include / inherit / namespace construction passes _template_uri as the calling URI, the run-time API passes the namespace's own template URI, and every receiver of a calling_uri parameter uses it"""
    db = ctx.db
    S = sk.get(db)
    want = {"runtime._include_file(": ("visitIncludeTag", 2), "runtime._inherit_from(": ("write_inherit", 1),
            "runtime.TemplateNamespace(": ("write_namespaces", 1), "runtime.ModuleNamespace(": ("write_namespaces", 1), "runtime.Namespace(": ("write_namespaces", 1)}
    for frag, (meth, mincount) in want.items():
        found = 0
        for t in S.model.method_traces(meth):
            for e in _all_lines(t.events):
                lit = e[1].literal()
                if frag in lit:
                    found += 1
                    if "Namespace(" in frag:
                        ok = "calling_uri=_template_uri" in lit.replace(" ", "")
                    else:
                        ok = lit.replace(" ", "").count("_template_uri") >= 1 and (",_template_uri" in lit.replace(" ", ""))
                    ctx.check(ok, "emit:%s%s" % (meth, frag.rstrip("(")), db.where(e[2]), "emitted `%s` does not pass _template_uri as the calling URI: relative file= attributes resolve against the lookup root" % e[1].text(), "passes _template_uri")
        ctx.check(found >= mincount, "emit-present:" + frag, "mako/codegen.py (%s)" % meth, "no emission of %s found" % frag, "%d emission(s)" % found)
    wt = db.func("codegen._GenerateRenderMethod.write_toplevel")
    em = [n for n in walk_func(wt) if isinstance(n, ast.BinOp) and isinstance(n.left, ast.Constant) and str(n.left.value).startswith("_template_uri")]
    ctx.check(bool(em) and src(em[0].right) == "self.compiler.uri", "module._template_uri", db.where(em[0]) if em else db.where(wt), "_template_uri is not emitted from compiler.uri", "_template_uri = compiler.uri")
    cm = db.func("template._compile")
    c = calls(cm, "codegen.compile")
    ctx.check(bool(c) and src(c[0].args[1]) == "template.uri", "compile.uri", db.where(cm), "codegen.compile is not given template.uri", "compiler.uri = template.uri")
    # run-time API
    for meth, callee in (("get_namespace", "TemplateNamespace"), ("get_template", "_lookup_template"), ("include_file", "_include_file")):
        fn = db.func("runtime.Namespace." + meth)
        cs = [x for x in walk_func(fn) if isinstance(x, ast.Call) and dotted(x.func) == callee]
        ok = bool(cs) and ("self._templateuri" in [src(a) for a in cs[0].args] or any(src(k.value) == "self._templateuri" for k in cs[0].keywords))
        ctx.check(ok, "runtime:Namespace." + meth, db.where(fn), "Namespace.%s does not pass self._templateuri as the calling URI" % meth, "passes self._templateuri")
    # receivers: a calling_uri parameter must reach _lookup_template or the _templateuri attribute
    for cls in ("Namespace", "TemplateNamespace", "ModuleNamespace"):
        fn = db.func("runtime.%s.__init__" % cls)
        if "calling_uri" not in param_names(fn):
            ctx.violation("param:%s.calling_uri:missing" % cls, db.where(fn), "%s.__init__ no longer accepts calling_uri although the generator passes it" % cls)
            continue
        uses = [n for n in walk_func(fn) if isinstance(n, ast.Name) and n.id == "calling_uri" and isinstance(n.ctx, ast.Load)]
        ok = False
        for u in uses:
            st = enclosing_stmt(u)
            if isinstance(st, ast.Assign) and any(dotted(t) == "self._templateuri" for t in st.targets):
                ok = True
            if any(isinstance(c_, ast.Call) and dotted(c_.func) in ("_lookup_template", "super().__init__", "Namespace.__init__") and any(u is a or any(u is x for x in ast.walk(a)) for a in list(c_.args) + [k.value for k in c_.keywords]) for c_ in ast.walk(st)):
                ok = True
        if ok:
            ctx.ok("param:%s.calling_uri" % cls, db.where(fn), "calling_uri reaches _lookup_template / _templateuri")
        else:
            ctx.violation("param:runtime.%s.__init__#calling_uri-dropped" % cls, db.where(fn),
                          "%s.__init__ accepts calling_uri (the generator always supplies _template_uri) and never uses it: get_template()/include_file()/get_namespace() on such a namespace resolve relative URIs against the lookup root instead of the template it is written in" % cls)
    # _include_file / _inherit_from thread calling_uri into the gateway
    for q in ("runtime._include_file", "runtime._inherit_from"):
        fn = db.func(q)
        cs = [x for x in walk_func(fn) if isinstance(x, ast.Call) and dotted(x.func) == "_lookup_template"]
        ctx.check(bool(cs) and [src(a) for a in cs[0].args] == ["context", "uri", "calling_uri"], "thread:" + q, db.where(fn), "%s calls the gateway as %s" % (q, src(cs[0]) if cs else None), "_lookup_template(context, uri, calling_uri)")
    tn = db.func("runtime.TemplateNamespace.__init__")
    a = [s for s in walk_func(tn) if isinstance(s, ast.Assign) and dotted(s.targets[0]) == "self._templateuri"]
    # ... on every way through the constructor (whether the template was given or looked up)
    from .common import branch_paths
    every_path = all(any(isinstance(s_, ast.Assign) and dotted(s_.targets[0]) == "self._templateuri" and "module._template_uri" in src(s_.value) for s_ in p_.stmts) for p_ in branch_paths(tn.body) if not isinstance(p_.exit, ast.Raise))
    ctx.check(len(a) >= 1 and all("module._template_uri" in src(s.value) for s in a) and every_path, "templatens._templateuri", db.where(tn), "TemplateNamespace._templateuri is not the referenced template's own URI", "_templateuri = template.module._template_uri")


@rule("C07.include-isolation", min_instances=5)
def include_isolation(ctx):
    """included templates and emitted namespaces get a context copy without self / parent / next"""
    db = ctx.db
    ci = db.func("runtime.Context._clean_inheritance_tokens")
    cp = [s for s in walk_func(ci) if isinstance(s, ast.Assign) and isinstance(s.value, ast.Call) and dotted(s.value.func) == "self._copy"]
    ctx.check(bool(cp), "clean.copies", db.where(ci), "_clean_inheritance_tokens does not work on a copy", "c = self._copy()")
    pops = sorted(const(c.args[0]) for c in walk_func(ci) if isinstance(c, ast.Call) and isinstance(c.func, ast.Attribute) and c.func.attr == "pop" and c.args)
    ctx.check(pops == ["next", "parent", "self"], "clean.tokens", db.where(ci), "tokens removed: %s (must be exactly self, parent, next)" % pops, "removes self, parent, next")
    dels = [c for c in walk_func(ci) if isinstance(c, ast.Call) and isinstance(c.func, ast.Attribute) and c.func.attr == "pop"]
    ctx.check(all(len(c.args) == 2 for c in dels), "clean.tolerant", db.where(ci), "pop without default raises when the token is absent", "pop(token, None)")
    rr = flow.Reaching(ci)
    ok = True
    cps = assigned_from(ci, "self._copy()")
    for c in dels:
        recv = c.func.value
        if isinstance(recv, ast.Name):
            defs = rr.defs_at(enclosing_stmt(c), recv.id)
            ok = ok and all(isinstance(d, ast.Assign) and src(d.value) in {c_ + "._data" for c_ in cps} for d in defs)
        else:
            ok = ok and src(recv) in {c_ + "._data" for c_ in cps}
    ctx.check(ok, "clean.on-copy", db.where(ci), "tokens are removed from the shared data, not from the copy's", "removed from the copy's _data")
    ret = [r for r in walk_func(ci) if isinstance(r, ast.Return)]
    ctx.check(bool(ret) and src(ret[0].value) in cps, "clean.returns-copy", db.where(ci), "does not return the copy", "returns the copy")
    inc = db.func("runtime._include_file")
    ps = [c for c in walk_func(inc) if isinstance(c, ast.Call) and dotted(c.func) == "_populate_self_namespace"]
    itv = assigned_from(inc, "_lookup_template(%s, %s, %s)" % (pn(inc, 0), pn(inc, 1), pn(inc, 2)))
    ctx.check(bool(ps) and src(ps[0].args[0]) == "%s._clean_inheritance_tokens()" % pn(inc, 0) and src(ps[0].args[1]) in itv, "include.context", db.where(inc), "the included template is populated with %s" % (src(ps[0]) if ps else None), "own self/local on a cleaned context copy")
    S = sk.get(db)
    n = 0
    for t in S.model.method_traces("write_namespaces"):
        for e in _all_lines(t.events):
            lit = e[1].literal()
            if "Namespace(" in lit and lit.strip().startswith("ns = "):
                n += 1
                ctx.check("context._clean_inheritance_tokens()" in lit, "ns.context:%s" % lit.split("(")[0].split(".")[-1], db.where(e[2]), "namespace constructed with the includer's inheritance tokens: %s" % lit, "cleaned context")
    ctx.require(n >= 3, "namespace constructions not found in write_namespaces")
    # the callable actually executed is what _populate_self_namespace returned
    cs = [s for s in walk_func(inc) if isinstance(s, ast.Assign) and isinstance(s.value, ast.Call) and dotted(s.value.func) == "_populate_self_namespace"]
    ctx.check(P.has(inc, "($f, $c) = _populate_self_namespace($_, $_)") and P.has(inc, "$f($c, **$k)"), "include.executes", db.where(inc), "the include does not execute the populated callable on the cleaned context", "callable_(ctx, **kwargs)")


@rule("C07.include-args", min_instances=2)
def include_args(ctx):
    """<%include args=...>: explicit arguments win over context data; `context` itself is never passed"""
    db = ctx.db
    fn = db.func("runtime._kwargs_for_include")
    ifs = [i for i in walk_func(fn) if isinstance(i, ast.If)]
    ctx.require(ifs, "_kwargs_for_include has no condition")
    t = src(ifs[0].test)
    ctx.check(P.has(ifs[0].test, "$a != 'context'") and P.has(ifs[0].test, "$a in $d") and P.has(ifs[0].test, "$a not in $k"), "condition", db.where(ifs[0]), "context data copied under `%s`: explicit args must win and `context` be excluded" % t, t)
    ctx.check(P.has(ifs[0], "$k[$a] = $d[$a]"), "copy", db.where(ifs[0]), "copies %s" % src(ifs[0].body[0]), "kwargs[arg] = data[arg]")
    inc = db.func("runtime._include_file")
    c = [x for x in walk_func(inc) if isinstance(x, ast.Call) and dotted(x.func) == "_kwargs_for_include"]
    cvs = assigned_from(inc, "_populate_self_namespace(...)#0")
    ctx.check(bool(c) and src(c[0].args[0]) in cvs and src(c[0].args[1]) == "%s._data" % pn(inc, 0), "source", db.where(inc), "include arguments completed from %s" % (src(c[0]) if c else None), "from the includer's context data, for the callee's signature")
    S = sk.get(db)
    ok = False
    for t_ in S.model.method_traces("visitIncludeTag"):
        for e in _all_lines(t_.events):
            if "_include_file(" in e[1].literal() and len(e[1].holes()) == 2:
                ok = True
    ctx.check(ok, "emitted-args", "mako/codegen.py (visitIncludeTag)", "args= of <%include> are not passed to _include_file", "args forwarded as keyword arguments")


@rule("C07.memo-keys", min_instances=4, props=["C09"])
def memo_keys(ctx):
    """what is memoised under a key depends only on what the key holds: get_namespace keys on (calling namespace, uri), adjust_uri on (uri, base), and the generated module stores and reads its <%namespace>s under the same (module, name) key"""
    db = ctx.db
    gn = db.func("runtime.Namespace.get_namespace")
    uri = pn(gn, 1)
    keys = [s for s in walk_func(gn) if isinstance(s, ast.Assign) and isinstance(s.targets[0], ast.Name) and isinstance(s.value, ast.Tuple)]
    used = [t_.slice for s_ in walk_func(gn) if isinstance(s_, ast.Assign) for t_ in s_.targets if isinstance(t_, ast.Subscript) and dotted(resolve_deep(gn, t_.value, 2)) == "self.context.namespaces"]
    ctx.require(used, "get_namespace does not memoise in context.namespaces (anchor)")
    k = used[0]
    kv = None
    if isinstance(k, ast.Name):
        kv = [s.value for s in keys if s.targets[0].id == k.id]
        kv = kv[0] if kv else None
    elif isinstance(k, ast.Tuple):
        kv = k
    parts = {src(e) for e in kv.elts} if kv is not None else set()
    # the namespace that is built resolves `uri` against self._templateuri: the key must hold the uri and the calling namespace
    built = [c for c in walk_func(gn) if isinstance(c, ast.Call) and dotted(c.func) == "TemplateNamespace"]
    deps = set()
    for c in built:
        for a in list(c.args) + [kw.value for kw in c.keywords]:
            for x in ast.walk(a):
                if isinstance(x, ast.Name) and x.id in (uri, "self"):
                    deps.add(x.id)
    ok = uri in parts and ("self" not in deps or bool(parts & {"self", "self._templateuri", "self.uri"}))
    ctx.check(ok, "get_namespace.key", db.where(kv) if kv is not None else db.where(gn), "get_namespace memoises under (%s) a namespace that depends on %s: the same relative uri asked for from templates in different directories yields the namespace resolved for the first of them" % (", ".join(sorted(parts)), sorted(deps)), "key holds the calling namespace and the uri")
    ctx.check(P.has(gn, "if $k in self.context.namespaces:\n    return self.context.namespaces[$k]") or any(isinstance(v_, ast.Subscript) and dotted(resolve_deep(gn, v_.value, 2)) == "self.context.namespaces" and ("%s in self.context.namespaces" % src(v_.slice).join(["(", ")"] if isinstance(v_.slice, ast.Tuple) and not src(v_.slice).startswith("(") else ["", ""]), True) in facts_at(v_, gn, resolve_locals=True) for v_, g_ in return_leaves(gn)), "get_namespace.read", db.where(gn), "the memo is not read under the key it is written under", "read and written under one key")
    au = db.func("lookup.TemplateLookup.adjust_uri")
    kk = {s.targets[0].id: s.value for s in walk_func(au) if isinstance(s, ast.Assign) and isinstance(s.value, ast.Tuple) and isinstance(s.targets[0], ast.Name)}
    subs = [n for n in walk_func(au) if isinstance(n, ast.Subscript) and dotted(n.value) == "self._uri_cache"]
    def _key_ok(sl):
        t_ = kk.get(sl.id) if isinstance(sl, ast.Name) else sl
        return isinstance(t_, ast.Tuple) and {src(e) for e in t_.elts} == {pn(au, 1), pn(au, 2)}
    okk = bool(subs) and all(_key_ok(n.slice) for n in subs)
    ctx.check(okk, "adjust_uri.key", db.where(au), "adjust_uri memoises under a key that is not (uri, base): the adjusted form of a relative uri is handed to callers in other directories", "key = (uri, relativeto) for every access")
    # generated module: store and reads of its own <%namespace>s
    S = sk.get(db)
    stores, reads = set(), set()
    for t_ in S.model.method_traces("write_namespaces"):
        for e in _all_lines(t_.events):
            lit = e[1].literal()
            if "context.namespaces[" in lit:
                inner = lit.split("context.namespaces[", 1)[1].split("]", 1)[0]
                first = inner.strip("()").split(",")[0].strip()
                (stores if "] = " in lit or "]=" in lit else reads).add(first)
    ctx.check(bool(stores) and bool(reads) and stores == reads == {"__name__"}, "module-namespaces.key", "mako/codegen.py (write_namespaces)", "the generated module stores its namespaces under %s and reads them under %s" % (sorted(stores), sorted(reads)), "stored and read under (__name__, name)")


@rule("C07.import-flag", min_instances=3)
def import_flag(ctx):
    """the flag that makes callables fetch import= names is raised by any <%namespace import=...> and never lowered again; it is raised before the render callables that test it are written"""
    db = ctx.db
    cg = db.mod("codegen")
    sets = [n for n in ast.walk(cg.tree) if isinstance(n, ast.Assign) and isinstance(n.targets[0], ast.Attribute) and n.targets[0].attr == "has_ns_imports"]
    ctx.require(sets, "no assignment of has_ns_imports in codegen.py (anchor)")
    for s in sets:
        f = getattr(s, "_func", None)
        q = getattr(f, "_qual", "<module>")
        loop = [a for a in ancestors(s) if isinstance(a, (ast.For, ast.While))]
        if const(s.value) is False and not loop:
            ctx.ok("init:" + q, db.where(s), "initialised False outside any loop")
            continue
        guard = [a for a in ancestors(s) if isinstance(a, ast.If)]
        ok = const(s.value) is True and bool(guard) and P.has(guard[0].test, "'import' in $n.attributes")
        ctx.check(ok, "raise:" + q, db.where(s), "has_ns_imports is assigned `%s`%s: a later <%%namespace> without import= lowers the flag again and the names imported by an earlier one are no longer fetched" % (src(s.value), " inside a loop" if loop else ""), "only ever raised, under `'import' in node.attributes`")
    reads = [n for n in ast.walk(cg.tree) if (isinstance(n, ast.Attribute) and n.attr == "has_ns_imports" and isinstance(n.ctx, ast.Load)) or (isinstance(n, ast.Call) and dotted(n.func) == "getattr" and len(n.args) >= 2 and const(n.args[1]) == "has_ns_imports")]
    ctx.check(len(reads) >= 2, "read", "mako/codegen.py", "the flag is no longer consulted when declaring variables", "%d reads" % len(reads))
    # order in write_toplevel: namespaces are written before the render callables
    wt = db.func("codegen._GenerateRenderMethod.write_toplevel")
    init = db.func("codegen._GenerateRenderMethod.__init__")
    wn = calls(wt, "self.write_namespaces")
    tl = calls(init, "self.write_toplevel")
    wr = calls(init, "self.write_render_callable")
    ctx.check(bool(wn) and bool(tl) and bool(wr) and tl[0].lineno < wr[0].lineno, "raised-before-use", db.where(init), "write_namespaces (which raises the flag) does not precede write_render_callable (which tests it)", "namespaces written first")


@rule("C07.anonymous-namespace-names", min_instances=2)
def anonymous_namespace_names(ctx):
    """each <%namespace> without name= gets a name no other tag of the template can have (the generator keys its table of namespaces by name: equal names silently drop all but the last tag and its import=)"""
    db = ctx.db
    init = db.func("parsetree.NamespaceTag.__init__")
    a = [s for s in walk_func(init) if isinstance(s, ast.Assign) and dotted(s.targets[0]) == "self.name"]
    ctx.require(a, "NamespaceTag.__init__ does not assign self.name (anchor)")
    v = a[0].value
    dflt = v.args[1] if isinstance(v, ast.Call) and dotted(v.func) == "attributes.get" and len(v.args) == 2 else (v.orelse if isinstance(v, ast.IfExp) else None)
    ctx.require(dflt is not None, "default of the namespace name not recognised")
    names = {dotted(x.func) for x in ast.walk(dflt) if isinstance(x, ast.Call)}
    attrs = {x.attr for x in ast.walk(dflt) if isinstance(x, ast.Attribute) and src(x.value) == "self"}
    unique = "id" in names and any(P.matches(x, "id(self)") for x in ast.walk(dflt)) or {"lineno", "pos"} <= attrs
    ctx.check(unique, "unique", db.where(a[0]), "the default name `%s` is not unique per tag (it needs the tag object's identity, or line and column together): two anonymous <%%namespace import=...> tags can get the same name and all but the last are dropped" % src(dflt), "built from the tag's identity")
    wt = db.func("codegen._GenerateRenderMethod.write_toplevel")
    keyed = any(P.has(f_, "$t[%s.name] = %s" % (pn(f_, 1), pn(f_, 1))) for f_ in ast.walk(wt) if isinstance(f_, ast.FunctionDef) and f_ is not wt and f_.name == "visitNamespaceTag")
    ctx.check(keyed, "table-keyed-by-name", db.where(wt), "namespace table is no longer keyed by the tag's name (rule out of date)", "namespaces[node.name] = node")


@rule("C07.star-import-complete", primary=False, min_instances=2)
def star_import_complete(ctx):
    """import="*" brings in the namespace's own exports whether or not defs are written inside the <%namespace> tag: in _get_star the exports of the template / module are not conditional on `self.callables`"""
    db = ctx.db
    for cls, needles in (("TemplateNamespace", ("_exports", "_exported_callables")), ("ModuleNamespace", ("dir(self.module)", "_exported_callables"))):
        q = "runtime.%s._get_star" % cls
        if not db.has(q):
            q = "runtime.Namespace._get_star"
        fn = db.func(q)
        hits = [n for g in db.with_helpers(fn) for n in walk_func(g) if isinstance(n, (ast.For, ast.comprehension)) and any(k in src(n.iter) for k in needles)]
        if not hits and q.endswith("Namespace._get_star") and cls != "Namespace":
            ctx.undecided("exports:" + cls, db.where(fn), "iteration over the exports not found")
            continue
        ctx.require(hits, "%s: iteration over the exports not found (anchor)" % q)
        h = hits[0]
        conds = []
        x = h
        while x is not None and x is not fn:
            p_ = getattr(x, "_parent", None)
            if isinstance(p_, ast.If):
                conds.append((src(p_.test), x in p_.body))
            elif isinstance(p_, ast.IfExp) and x is not p_.test:
                conds.append((src(p_.test), x is p_.body))
            x = p_
        guarded = [c for c in conds if "callables" in c[0]]
        ctx.check(not guarded, "exports:" + cls, db.where(h),
                  "%s._get_star hands out the exports of the %s only when `%s` is %s: a <%%namespace file=... import=*> tag that also has a <%%def> written inside it no longer imports the file's defs (the names fall back to context variables / UNDEFINED)" % (cls, "template" if cls == "TemplateNamespace" else "module", guarded[0][0] if guarded else "", guarded[0][1] if guarded else ""),
                  "exports are unconditional")
