"""C18 - template text round-trips through input and output encodings.

Decided: encoding precedence (comment > input_encoding > utf-8) on both
branches; encoding labels taken from template text are compared only after
codec normalisation; decode errors and a contradicted BOM raise
CompileException and the BOM is removed exactly; module source encoding,
emitted coding comment and _source_encoding share provenance and the two
coding regexes agree; render returns encoded bytes iff output_encoding and no
str|bytes value reaches a text stream unconverted.  Byte-level round trips
per codec are not decided."""

import ast
import re

from ..core import rule, AnalysisError
from ..engine import rx, flow, cfg as cfgmod
from ..engine import pattern as P
from ..engine.facts import dotted, const, src, walk_func, str_value, enclosing_stmt, ancestors
from .common import calls, in_try_handling, contains, stmt_nodes, pn, access_paths, assigned_from, guards_of, arms, branch_paths, return_leaves, resolve, guard_implies, resolve_deep, facts_at, line_sources


def _precedence(e):
    """normalise `a and a.g() or b or c` / `x if c else y or z` value chains to a list of alternatives"""
    if isinstance(e, ast.BoolOp) and isinstance(e.op, ast.Or):
        out = []
        for v in e.values:
            out.extend(_precedence(v))
        return out
    if isinstance(e, ast.BoolOp) and isinstance(e.op, ast.And) and len(e.values) == 2:
        return [src(e.values[1])]
    if isinstance(e, ast.IfExp):
        return [src(e.body)] + _precedence(e.orelse)
    return [src(e)]


@rule("C18.precedence", min_instances=2, props=["C20"])
def precedence(ctx):
    """decode_raw_stream: the coding comment takes precedence over input_encoding, UTF-8 is the default - on the str branch and on the bytes branch"""
    db = ctx.db
    fn = db.func("lexer.Lexer.decode_raw_stream")
    n = 0
    known = pn(fn, 3)
    mvars = {s.targets[0].id for s in walk_func(fn) if isinstance(s, ast.Assign) and isinstance(s.targets[0], ast.Name) and isinstance(s.value, ast.Call) and dotted(s.value.func) == "self._coding_re.match"}
    strifs = [i for i in fn.body if isinstance(i, ast.If) and P.has(i.test, "isinstance(%s, str)" % pn(fn, 1))]
    for s in walk_func(fn):
        if isinstance(s, ast.Assign) and isinstance(s.targets[0], ast.Name) and not isinstance(s.value, ast.Constant):
            ch = _precedence(s.value)
            if len(ch) < 2 and not (known in ch or any(c_.endswith(".group(1)") for c_ in ch)):
                continue
            if s.targets[0].id == pn(fn, 1):
                continue
            n += 1
            ok = len(ch) == 3 and any(ch[0] == "%s.group(1)" % m_ for m_ in mvars) and ch[1] == known and ch[2].strip("'\"").lower().replace("_", "-") in ("utf-8", "utf8")
            branch = "str" if any(contains(i, s) and not any(contains(o, s) for o in i.orelse) for i in strifs) else "bytes"
            ctx.check(ok, "selection@%s" % branch, db.where(s), "encoding chosen as %s: expected [coding comment, input_encoding, 'utf-8']" % ch, "%s" % ch)
    ctx.require(n >= 2, "decode_raw_stream: encoding selection on both branches not found (%d)" % n)
    # known_encoding is the lexer's input_encoding
    ps = db.func("lexer.Lexer.parse")
    c = calls(ps, "self.decode_raw_stream")
    ctx.check(bool(c) and src(c[0].args[2]) == "self.encoding", "known=input_encoding", db.where(c[0]) if c else db.where(ps), "decode_raw_stream is not given the lexer's input_encoding", "known_encoding = self.encoding (input_encoding)")
    cm = db.func("template._compile")
    kw = {k.arg: src(k.value) for c_ in calls(cm, "template.lexer_cls") for k in c_.keywords}
    ctx.check(kw.get("input_encoding") == "template.input_encoding", "template-input-encoding", db.where(cm), "the lexer is not built with template.input_encoding", "input_encoding threaded from Template")


NORMALISERS = ("codecs.lookup", "_normalize_encoding", "normalize_encoding", "encodings.normalize_encoding")


@rule("C18.label-compare", min_instances=1)
def label_compare(ctx):
    """an encoding label taken from template text is compared with another only after codec normalisation (codecs.lookup(x).name or a normalising helper)"""
    db = ctx.db
    fn = db.func("lexer.Lexer.decode_raw_stream")
    n = 0
    for c in walk_func(fn):
        if isinstance(c, ast.Compare) and len(c.ops) == 1 and isinstance(c.ops[0], (ast.Eq, ast.NotEq)):
            sides = [c.left, c.comparators[0]]
            if not any("group(1)" in src(s) or "encoding" in src(s).lower() for s in sides):
                continue
            if not any(isinstance(s, ast.Constant) and isinstance(s.value, str) for s in sides) and not all("encoding" in src(s).lower() or "group" in src(s) for s in sides):
                continue
            n += 1
            label = [s for s in sides if not isinstance(s, ast.Constant)]
            normalised = all(any(isinstance(x, ast.Call) and (dotted(x.func) or "").endswith(NORMALISERS) or (isinstance(x, ast.Call) and "normal" in (dotted(x.func) or "")) for x in ast.walk(s)) for s in label)
            if not normalised and all(isinstance(s, ast.Name) for s in label):
                # a local holding an already-normalised label
                rr = flow.Reaching(fn)
                ok = True
                for s in label:
                    defs = rr.defs_at(enclosing_stmt(c), s.id)
                    ok = ok and bool(defs) and all(isinstance(d, ast.Assign) and any(isinstance(x, ast.Call) and ((dotted(x.func) or "").endswith(NORMALISERS) or "normal" in (dotted(x.func) or "")) for x in ast.walk(d.value)) for d in defs)
                normalised = ok
            key = "compare:%s" % src(c)[:40]
            if normalised:
                ctx.ok(key, db.where(c), "label normalised before comparison")
            else:
                ctx.violation("compare:lexer.Lexer.decode_raw_stream#raw-label", db.where(c),
                              "encoding label from the template is compared by raw string equality (`%s`): equivalent spellings such as UTF-8 / utf8 / Utf_8 of the same codec are treated as conflicting" % src(c))
    ctx.require(n >= 1, "no comparison of the coding-comment label found in decode_raw_stream (BOM consistency check vanished?)")


@rule("C18.decode-wrap", min_instances=6)
def decode_wrap(ctx):
    """undecodable input and a BOM contradicted by the comment raise CompileException; the BOM is removed exactly; the coding comment is skipped as content"""
    db = ctx.db
    fn = db.func("lexer.Lexer.decode_raw_stream")
    dec = [c for c in walk_func(fn) if isinstance(c, ast.Call) and isinstance(c.func, ast.Attribute) and c.func.attr == "decode" and src(c.func.value) == pn(fn, 1) and len(c.args) == 1 and isinstance(c.args[0], ast.Name)]
    ctx.require(dec, "decode_raw_stream never decodes with the chosen encoding")
    for d in dec:
        ctx.check(in_try_handling(d, "UnicodeDecodeError", "UnicodeError", "ValueError", "Exception"), "decode-in-try", db.where(d), "text.decode(...) is not inside a try that handles UnicodeDecodeError: undecodable input escapes as a raw UnicodeDecodeError", "inside try/except UnicodeDecodeError")
    # a lenient decode (errors='ignore' / 'replace') only serves to look for the comment: its result is never returned as the template text
    rr_ = flow.Reaching(fn)
    lenient = lambda e_: isinstance(e_, ast.Call) and isinstance(e_.func, ast.Attribute) and e_.func.attr == "decode" and (len(e_.args) >= 2 and const(e_.args[1]) != "strict" or any(k_.arg == "errors" and const(k_.value) != "strict" for k_ in e_.keywords))
    leaks = []
    for r_ in walk_func(fn):
        if isinstance(r_, ast.Return) and isinstance(r_.value, ast.Tuple) and len(r_.value.elts) == 2:
            tv = r_.value.elts[1]
            if lenient(tv):
                leaks.append(r_)
            elif isinstance(tv, ast.Name):
                for d_ in rr_.defs_at(r_, tv.id):
                    if isinstance(d_, ast.Assign) and lenient(d_.value):
                        leaks.append(r_)
    ctx.check(not leaks, "no-lenient-result", db.where(leaks[0]) if leaks else db.where(fn), "decode_raw_stream returns text decoded with errors='ignore': undecodable input is silently truncated instead of raising CompileException", "returned text is the input, the input minus the BOM, or a strict decode")
    hs = [h for t in walk_func(fn) if isinstance(t, ast.Try) for h in t.handlers]
    for h in hs:
        rs = [r for r in ast.walk(h) if isinstance(r, ast.Raise)]
        nm = [dotted(r.exc.func) for r in rs if isinstance(r.exc, ast.Call)]
        ctx.check(bool(nm) and all(x.endswith("CompileException") for x in nm), "handler-raises", db.where(h), "decode failure raises %s" % nm, "raises CompileException")
    # what happens when the input starts with a BOM: statements under a test (possibly held in a local) of text.startswith(BOM)
    bomc = "%s.startswith(codecs.BOM_UTF8)" % pn(fn, 1)
    under_bom = [s for s in walk_func(fn) if isinstance(s, ast.stmt) and (bomc, True) in guards_of(s, fn, fn=fn)]
    ctx.require(under_bom, "BOM branch not found")
    b = under_bom[0]
    sl = [s for s in under_bom if isinstance(s, ast.Assign) and src(s.targets[0]) == pn(fn, 1)]
    ctx.check(bool(sl) and src(resolve_deep(fn, sl[0].value, 2)).replace(" ", "") == "%s[len(codecs.BOM_UTF8):]" % pn(fn, 1), "bom-removed-exactly", db.where(b), "the BOM is not removed by text[len(codecs.BOM_UTF8):]", "text continues right after the mark")
    encv = {c.args[0].id for c in dec}
    pe = [s for s in under_bom if isinstance(s, ast.Assign) and src(s.targets[0]) in encv]
    ctx.check(bool(pe) and all(const(p_.value) in ("utf-8", "utf8", "UTF-8") for p_ in pe), "bom-means-utf8", db.where(b), "a BOM does not select UTF-8", "BOM selects utf-8")
    rs = [r for r in under_bom if isinstance(r, ast.Raise) and isinstance(r.exc, ast.Call)]
    ctx.check(bool(rs) and all(dotted(r.exc.func).endswith("CompileException") for r in rs), "bom-conflict-raises", db.where(b), "a BOM contradicted by the coding comment does not raise CompileException", "conflict raises CompileException")
    ps = db.func("lexer.Lexer.parse")
    skip = [c for c in calls(ps, "self.match_reg") if src(c.args[0]) == "self._coding_re"]
    loops = [n for n in walk_func(ps) if isinstance(n, ast.While)]
    ctx.check(bool(skip) and bool(loops) and skip[0].lineno < loops[0].lineno, "comment-skipped", db.where(ps), "the coding comment is not skipped before lexing starts (it would be output as text)", "match_reg(_coding_re) precedes the cascade")
    dr = calls(ps, "self.decode_raw_stream")
    ctx.check(bool(dr) and const(dr[0].args[1]) is True, "decode-requested", db.where(ps), "parse() does not ask for decoding", "decode_raw=True")
    # isinstance(text, str) fast path returns text unchanged
    first = [i for i in fn.body if isinstance(i, ast.If)]
    ctx.check(P.has(fn, "if isinstance($t, str):\n    ...\n    return ($e, $t)"), "str-passthrough", db.where(fn), "str input is not passed through unchanged", "str input returned as is")


def _capture_class(pattern, flags, group=1):
    sub = rx.parse(pattern, flags)
    g = rx.find_group(sub, group)
    if g is None:
        raise AnalysisError("no group %d in %r" % (group, pattern))
    alpha = rx.alphabet([sub], "-_.aZ09: ")
    return frozenset(rx.chars_in(g, alpha, rx.flags_of(sub))), alpha


@rule("C18.module-encoding", min_instances=6, props=["C08"])
def module_encoding(ctx):
    """the encoding used to encode the module source, the emitted coding comment and _source_encoding all derive from lexer.encoding; writer/reader coding regexes agree; the emitted comment is in the reader's language"""
    db = ctx.db
    cmf = db.func("template._compile_module_file")
    enc = [c for c in walk_func(cmf) if isinstance(c, ast.Call) and isinstance(c.func, ast.Attribute) and c.func.attr == "encode"]
    ctx.require(enc, "_compile_module_file does not encode the source")
    a = src(enc[0].args[0]) if enc[0].args else ""
    lvs = assigned_from(cmf, "_compile(...)#1")
    ctx.check(any(a == lv_ + ".encoding" or a.startswith(lv_ + ".encoding or ") for lv_ in lvs), "file-encoding", db.where(enc[0]), "module source encoded with %s" % a, "encoded with lexer.encoding (ascii when none)")
    cm = db.func("template._compile")
    kw = {k.arg: src(k.value) for c in calls(cm, "codegen.compile") for k in c.keywords}
    lvs2 = assigned_from(cm, "%s.lexer_cls(...)" % pn(cm, 0))
    ctx.check(kw.get("source_encoding") in {lv_ + ".encoding" for lv_ in lvs2}, "compile.source_encoding", db.where(cm), "codegen gets source_encoding=%s" % kw.get("source_encoding"), "source_encoding=lexer.encoding")
    ctx.check(kw.get("generate_magic_comment") == pn(cm, 3), "compile.magic-flag", db.where(cm), "generate_magic_comment not forwarded", "flag forwarded")
    c2 = calls(cmf, "_compile")
    ctx.check(bool(c2) and any(k.arg == "generate_magic_comment" and const(k.value) is True for k in c2[0].keywords), "file.magic-comment", db.where(cmf), "module files are written without the coding comment", "generate_magic_comment=True for files")
    wt = db.func("codegen._GenerateRenderMethod.write_toplevel")
    em = [n for n in walk_func(wt) if isinstance(n, ast.BinOp) and isinstance(n.op, ast.Mod) and isinstance(n.left, ast.Constant) and isinstance(n.left.value, str)]
    comment = [n for n in em if "coding" in n.left.value]
    se = [n for n in em if n.left.value.startswith("_source_encoding")]
    ctx.require(comment and se, "emission of coding comment / _source_encoding not found")
    ctx.check(src(comment[0].right) == "self.compiler.source_encoding" and src(se[0].right) == "self.compiler.source_encoding", "emitted.same-source", db.where(comment[0]), "coding comment uses %s, _source_encoding uses %s" % (src(comment[0].right), src(se[0].right)), "both from compiler.source_encoding")
    first_emit = line_sources(wt)
    ctx.check(bool(first_emit) and "coding" in src(first_emit[0]), "comment-first-line", db.where(wt), "the coding comment is not the first line emitted", "coding comment is line 1")
    # regex agreement
    lre = db.class_assign("lexer.Lexer", "_coding_re")
    ure = db.module_assign("util", "_PYTHON_MAGIC_COMMENT_re")
    from .c01 import _flags_value
    lp, lf = str_value(lre.args[0]), (_flags_value(lre.args[1]) if len(lre.args) > 1 else 0)
    up, uf = str_value(ure.args[0]), (_flags_value(ure.args[1]) if len(ure.args) > 1 else 0)
    lc, alpha = _capture_class(lp, lf)
    uc, _ = _capture_class(up, uf)
    ctx.check(lc == uc, "capture-class", db.where(lre), "template coding regex captures %s, module reader captures %s" % (sorted(lc - uc), sorted(uc - lc)), "both capture [-\\w.]+")
    pep = {c for c in alpha if re.fullmatch(r"[-\w.]", c)}
    ctx.check(lc == frozenset(pep), "capture-class.pep263", db.where(lre), "capture class differs from PEP 263's [-\\w.]", "equals PEP 263")
    tmpl = comment[0].left.value
    sample = tmpl % "iso-8859-15"
    m = re.compile(up, uf).match(sample)
    ctx.check(bool(m) and m.group(1) == "iso-8859-15", "emitted-in-reader-language", db.where(comment[0]), "emitted comment %r is not recognised by util._PYTHON_MAGIC_COMMENT_re" % sample, "reader recovers the label from %r" % sample)
    ml = re.compile(lp, lf).match("## -*- coding: koi8-r -*-\n")
    ctx.check(bool(ml) and ml.group(1) == "koi8-r", "template-comment-form", db.where(lre), "the template coding regex does not recognise the documented '## -*- coding: x -*-' form", "recognises ## -*- coding: x -*-")
    # ModuleInfo.source decodes with the module's recorded encoding
    ms = db.func("template.ModuleInfo.source")
    enc_ = pn(ms, 0) + ".module._source_encoding"
    decs = [c for c in walk_func(ms) if isinstance(c, ast.Call) and isinstance(c.func, ast.Attribute) and c.func.attr == "decode"]
    rr_ = flow.Reaching(ms)

    def values_of(e_, at_):
        """what a (possibly re-bound) local may hold at a statement: the values of its reaching definitions, else the expression"""
        if isinstance(e_, ast.Name):
            try:
                ds_ = rr_.defs_at(at_, e_.id)
            except AnalysisError:
                ds_ = []
            vs_ = [d_.value for d_ in ds_ if isinstance(d_, ast.Assign) and len(d_.targets) == 1 and isinstance(d_.targets[0], ast.Name)]
            if vs_ and len(vs_) == len(ds_):
                return [l_ for v_ in vs_ for l_ in arms(v_)]
        return arms(e_)
    good = bool(decs)
    for c in decs:
        st_ = enclosing_stmt(c)
        codec_ok = len(c.args) >= 1 and all(src(v_) == enc_ for v_ in values_of(c.args[0], st_))
        fa_ = {t_ for t_, tv_ in facts_at(c, ms) if tv_}
        guarded_ = enc_ in fa_ or (len(c.args) >= 1 and src(c.args[0]) in fa_)
        good = good and codec_ok and guarded_
    # what is read from the template file is bytes: it is one of the values decoded
    rd = [c for c in walk_func(ms) if isinstance(c, ast.Call) and (dotted(c.func) or "").endswith("read_file")]
    good = good and bool(rd) and any(any(l_ is rd[0] for l_ in values_of(c.func.value, enclosing_stmt(c))) for c in decs)
    ctx.check(good, "source-decoding", db.where(ms), "Template.source does not decode with module._source_encoding", "every decode in ModuleInfo.source uses module._source_encoding under a test that it is set (%d decodes)" % len(decs))


@rule("C18.render-encoding", min_instances=6)
def render_encoding(ctx):
    """render() encodes iff output_encoding is set, render_unicode() ignores it, and no value of type str|bytes reaches a text-mode stream unconverted"""
    db = ctx.db
    rn = db.func("runtime._render")
    asu = "as_unicode"
    febs = [c for c in walk_func(rn) if isinstance(c, ast.Call) and (dotted(c.func) or "").endswith("FastEncodingBuffer")]
    t = [c for c in febs if (asu, True) in guards_of(c, rn)]
    e = [c for c in febs if (asu, False) in guards_of(c, rn)]
    if not t or not e or len(febs) != len(t) + len(e):
        ctx.violation("unicode-buffer", db.where(rn), "_render does not select an unencoded buffer when as_unicode is set: render_unicode() applies output_encoding")
        return
    i = t[0]
    ctx.check(bool(t) and not t[0].args and not t[0].keywords, "unicode-buffer", db.where(i), "render_unicode's buffer is given an encoding", "unencoded buffer for render_unicode")
    kw = {k.arg: src(k.value) for k in (e[0].keywords if e else [])}
    if e and e[0].args and not kw:
        kw = dict(zip(["encoding", "errors"], [src(a_) for a_ in e[0].args]))
    ctx.check(kw == {"encoding": pn(rn, 0) + ".output_encoding", "errors": pn(rn, 0) + ".encoding_errors"}, "encoded-buffer", db.where(i), "render's buffer built with %s" % kw, "encoding=output_encoding, errors=encoding_errors")
    # the chosen buffer is the one the context writes to
    cx_ = [c for c in walk_func(rn) if isinstance(c, ast.Call) and dotted(c.func) == "Context"]
    bufv = assigned_from(rn, "$a if %s else $b" % asu)
    ctx.check(bool(cx_) and cx_[0].args and (src(cx_[0].args[0]) in bufv or isinstance(cx_[0].args[0], ast.IfExp)), "buffer-used", db.where(rn), "the Context is not built on the selected buffer", "Context(selected buffer, **data)")
    gv = db.func("util.FastEncodingBuffer.getvalue")
    lv = return_leaves(gv)
    encd = [(v_, g_) for v_, g_ in lv if any(isinstance(c_, ast.Call) and isinstance(c_.func, ast.Attribute) and c_.func.attr == "encode" for c_ in ast.walk(v_))]
    plain = [(v_, g_) for v_, g_ in lv if (v_, g_) not in encd]
    ok = bool(encd) and bool(plain) and all(("self.encoding", True) in g_ and P.matches(v_, "$d.encode(self.encoding, self.errors)") for v_, g_ in encd) and all(("self.encoding", False) in g_ for v_, g_ in plain)
    # the same text is returned either way
    ok = ok and len({src(v_.func.value) for v_, g_ in encd} | {src(v_) for v_, g_ in plain}) == 1
    ctx.check(ok, "getvalue", db.where(gv), "getvalue does not encode exactly when an encoding is set", "encode(encoding, errors) iff encoding")
    ru = db.func("template.Template.render_unicode")
    c = calls(ru, "runtime._render")
    ctx.check(bool(c) and any(k.arg == "as_unicode" and const(k.value) is True for k in c[0].keywords), "render_unicode", db.where(ru), "render_unicode does not pass as_unicode=True", "as_unicode=True")
    r = db.func("template.Template.render")
    c = calls(r, "runtime._render")
    ctx.check(bool(c) and not c[0].keywords, "render", db.where(r), "render() passes %s" % [k.arg for k in c[0].keywords] if c else "no call", "render() uses the template's output_encoding")
    ret = [x for x in walk_func(rn) if isinstance(x, ast.Return)]
    cvs = assigned_from(rn, "Context(...)")
    ctx.check(bool(ret) and src(ret[0].value) in {c_ + "._pop_buffer().getvalue()" for c_ in cvs}, "returns-getvalue", db.where(rn), "_render returns %s" % (src(ret[0].value) if ret else None), "returns the outermost buffer's value")
    # consumers inside the package: cmd.py
    cm = db.func("cmd.cmdline")
    rr = flow.Reaching(cm)
    n = 0
    for c in walk_func(cm):
        if isinstance(c, ast.Call) and isinstance(c.func, ast.Attribute) and c.func.attr == "write" and c.args and isinstance(c.args[0], ast.Name):
            nm = c.args[0].id
            defs = rr.defs_at(enclosing_stmt(c), nm)
            from_render = any(isinstance(d, ast.Assign) and isinstance(d.value, ast.Call) and (dotted(d.value.func) or "").endswith(".render") for d in defs)
            if not from_render:
                continue
            n += 1
            # template built with output_encoding=<option> => render() is str|bytes
            maybe_bytes = any(any(k.arg == "output_encoding" and not (isinstance(k.value, ast.Constant) and k.value.value is None) for k in t_.keywords) for t_ in calls(cm, "Template"))
            recv = src(c.func.value)
            # the stream written to: an open(...) call, directly or through the name a `with`/assignment binds
            op = c.func.value
            if isinstance(op, ast.Name):
                for w_ in walk_func(cm):
                    if isinstance(w_, ast.With):
                        for it_ in w_.items:
                            if isinstance(it_.optional_vars, ast.Name) and it_.optional_vars.id == op.id:
                                op = it_.context_expr
                    elif isinstance(w_, ast.Assign) and isinstance(w_.targets[0], ast.Name) and isinstance(op, ast.Name) and w_.targets[0].id == op.id:
                        op = w_.value
            mode = None
            if isinstance(op, ast.Call) and dotted(op.func) == "open":
                mode = op.args[1] if len(op.args) > 1 else next((k.value for k in op.keywords if k.arg == "mode"), None)
            binary = ".buffer" in recv or (isinstance(mode, ast.Constant) and isinstance(mode.value, str) and "b" in mode.value)
            guarded = any(isinstance(a, ast.If) and ("isinstance(%s" % nm in src(a.test) or "output_encoding" in src(a.test)) for a in ancestors(c))
            if isinstance(mode, ast.IfExp) and "output_encoding" in src(mode.test) and isinstance(mode.body, ast.Constant) and isinstance(mode.orelse, ast.Constant):
                pos = not (isinstance(mode.test, ast.UnaryOp) and isinstance(mode.test.op, ast.Not))
                b_, t_ = (mode.body, mode.orelse) if pos else (mode.orelse, mode.body)
                # the mode follows the encoding: binary exactly when the rendered value is bytes
                guarded = guarded or ("b" in str(b_.value) and "b" not in str(t_.value))
            key = "cmd:%s" % ("stdout" if "stdout" in recv else "file")
            if maybe_bytes and not binary and not guarded:
                ctx.violation("type:cmd.cmdline#bytes-to-text-stream:%s" % ("stdout" if "stdout" in recv else "file"), db.where(c),
                              "`%s` is str or bytes (Template(output_encoding=<--output-encoding>).render()) and is written to the text stream `%s`: with --output-encoding the command dies with TypeError" % (nm, recv))
            else:
                ctx.ok(key + (":binary" if binary else ":guarded" if guarded else ":text"), db.where(c), "value of render() written %s" % ("to a binary stream" if binary else "under a type/encoding test" if guarded else "as text (no encoding configured)"))
    ctx.require(n >= 1, "cmd.cmdline: no write of the rendered value found")
