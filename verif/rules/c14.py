"""C14 - lookup serves fresh, stable, correctly prioritised templates; LRU bound.

Decided: structural necessary conditions (failure cleanup on every
exceptional path, freshness polarity, search order, LRU insertion discipline
and bound, who writes the collection).  Histories of file-system events and
clocks are not decided."""

import ast

from ..core import rule
from ..engine import cfg as cfgmod, flow
from ..engine import pattern as P
from ..engine.facts import dotted, const, src, walk_func, enclosing_stmt, ancestors
from .common import calls, stmt_nodes, exc_successors, norm_successors, contains, is_subclass, param_default, pn, access_paths, guards_of, return_leaves, arms, branch_paths, resolve, resolve_deep
from .common import _fold_not as fold_not


@rule("C14.failure-cleanup", min_instances=4)
def failure_cleanup(ctx):
    """a failed Template construction in _load evicts the uri and re-raises on every exceptional path; a vanished file in _check evicts and raises TemplateLookupException"""
    db = ctx.db
    fn = db.func("lookup.TemplateLookup._load")
    g = cfgmod.function_cfg(fn)
    tc = calls(fn, "Template")
    ctx.require(tc, "_load does not construct Template (anchor)")
    pops = [c for c in calls(fn, "self._collection.pop")] + [n for n in walk_func(fn) if isinstance(n, ast.Delete) and any(isinstance(t, ast.Subscript) and dotted(t.value) == "self._collection" for t in n.targets)]
    pnodes = [n for p in pops for n in stmt_nodes(g, p)]
    for t in tc:
        bad = None
        for n in stmt_nodes(g, t):
            for s in exc_successors(n):
                p = g.path_avoiding(s, [g.rexit], pnodes) if s is not g.rexit else [n, s]
                if s in pnodes:
                    p = None
                if p:
                    bad = g.fmt_path(p)
        ctx.check(bad is None and bool(pnodes), "_load.evict-on-failure", db.where(t),
                  "an exception from Template(...) can leave _load without removing the uri from the collection (path %s): a half-registered entry poisons later lookups" % bad,
                  "every exceptional path from Template(...) passes self._collection.pop(uri, ...)")
    for p in pops:
        if isinstance(p, ast.Call):
            ctx.check(len(p.args) == 2 and src(p.args[0]) == pn(fn, 2), "_load.pop-args", db.where(p),
                      "eviction is %s: must remove key `uri` and tolerate absence (the store may not have happened)" % src(p), "pop(uri, default)")
        # handler must re-raise: no normal exit reachable from pop without passing a raise
        for n in stmt_nodes(g, p):
            path = g.path_avoiding(n, [g.exit], [], kinds=("n",))
            ctx.check(path is None, "_load.reraise", db.where(p), "the cleanup handler swallows the exception (normal exit reachable: %s)" % g.fmt_path(path), "handler re-raises")
    # Template store and construction are one statement or the store follows in the same try
    # _check
    ck = db.func("lookup.TemplateLookup._check")
    hs = [h for n in walk_func(ck) if isinstance(n, ast.Try) for h in n.handlers]
    osh = [h for h in hs if h.type is not None and any(t in src(h.type) for t in ("OSError", "IOError", "EnvironmentError"))]
    ctx.require(osh, "_check has no OSError handler (anchor)")
    for h in osh:
        has_pop = any(isinstance(n, ast.Call) and dotted(n.func) == "self._collection.pop" for n in ast.walk(h))
        ctx.check(has_pop, "_check.evict", db.where(h), "a vanished file does not evict the cached template", "evicts")
        rs = [r for r in ast.walk(h) if isinstance(r, ast.Raise)]
        nm = [dotted(r.exc.func) if r.exc is not None and isinstance(r.exc, ast.Call) else None for r in rs]
        ctx.check(flow.always_raises(h.body) and all(x and x.endswith("TemplateLookupException") for x in nm), "_check.raises", db.where(h),
                  "vanished file does not raise TemplateLookupException (raises %s)" % nm, "raises TemplateLookupException")


def _norm_cmp(cmp):
    """(left, op, right) text normalised so that the module's compile time is on the left."""
    l, r = src(cmp.left), src(cmp.comparators[0])
    op = type(cmp.ops[0]).__name__
    flip = {"Lt": "Gt", "Gt": "Lt", "LtE": "GtE", "GtE": "LtE", "Eq": "Eq", "NotEq": "NotEq"}
    if "_modified_time" in r or "last_modified" in r:
        l, r, op = r, l, flip.get(op, op)
    return l, op, r


@rule("C14.freshness-polarity", min_instances=4)
def freshness_polarity(ctx):
    """the cached template is returned only when its compile time >= source mtime; otherwise it is evicted and the same filename reloaded; no check when filesystem_checks is off"""
    db = ctx.db
    ck = db.func("lookup.TemplateLookup._check")
    g = cfgmod.function_cfg(ck)
    cmps = [n for n in walk_func(ck) if isinstance(n, ast.Compare) and ("_modified_time" in src(n) or "last_modified" in src(n)) and len(n.ops) == 1]
    ctx.require(cmps, "_check has no compile-time/mtime comparison (anchor)")
    c = cmps[0]
    l, op, r = _norm_cmp(c)
    ifn = enclosing_stmt(c)
    T_ = pn(ck, 2)
    U_ = pn(ck, 1)
    # the alternatives _check returns, with the outcome of the comparison they are returned under
    ft, fv = fold_not(c, True)
    ckey = src(ft)
    lv = return_leaves(ck)
    ret_cached = any(src(v_) == T_ and (ckey, fv) in g_ for v_, g_ in lv)
    ret_cached_else = any(src(v_) == T_ and (ckey, not fv) in g_ for v_, g_ in lv)
    if not ret_cached and not ret_cached_else:
        # statement form: the cached template is returned inside the branch, the reload follows
        par = [a_ for a_ in ancestors(c) if isinstance(a_, ast.If) and a_.test is c]
        if par:
            ret_cached = any(isinstance(s, ast.Return) and src(s.value) == T_ for s in par[0].body)
            ret_cached_else = any(isinstance(s, ast.Return) and src(s.value) == T_ for s in par[0].orelse)
    other_side = c.comparators[0] if "_modified_time" in src(c.left) else c.left
    r_res = src(resolve(ck, other_side))
    mt = any(k_ in r + " " + r_res for k_ in ("ST_MTIME", "st_mtime", "getmtime"))
    ctx.check(mt, "compare.mtime", db.where(c), "compile time is compared with %s, not the source's modification time" % r, "compared with %s" % r)
    # r must derive from os.stat(template.filename)
    rr = flow.Reaching(ck)
    names = [n.id for n in ast.walk(c.comparators[0] if "_modified_time" in src(c.left) else c.left) if isinstance(n, ast.Name)]
    stat_ok = False
    for nm in names:
        for d in rr.defs_at(ifn, nm):
            if isinstance(d, ast.Assign) and ("stat(%s.filename)" % T_) in src(d.value).replace("os.", "").replace(" ", ""):
                stat_ok = True
    if ("stat(%s.filename)" % T_) in src(c).replace("os.", ""):
        stat_ok = True
    ctx.check(stat_ok, "compare.stat-source", db.where(c), "mtime is not taken from os.stat(template.filename)", "mtime of template.filename")
    if ret_cached:
        ctx.check(op == "GtE", "polarity", db.where(c),
                  "cached template returned when compile_time %s mtime: a modified file (mtime later than compile time) is served stale, or (with a strict comparison) a file whose mtime equals the compile time is recompiled on every call although nothing changed" % op,
                  "return cached iff compile_time %s mtime" % op)
    elif ret_cached_else:
        ctx.check(op == "Lt", "polarity", db.where(c), "reload condition has the wrong polarity or includes equality (%s): an unchanged file is recompiled on every call when its mtime equals the compile time" % op, "reload iff compile_time %s mtime" % op)
    else:
        ctx.violation("polarity", db.where(c), "neither branch of the freshness test returns the cached template")
    # stale path: pop then _load(template.filename, uri)
    loads = calls(ck, "self._load")
    ctx.require(loads, "_check never reloads (anchor)")
    pops = [n for cc in calls(ck, "self._collection.pop") for n in stmt_nodes(g, cc)]
    for ld in loads:
        lnodes = stmt_nodes(g, ld)
        p = g.path_avoiding(g.entry, lnodes, pops)
        ctx.check(p is None, "evict-before-reload", db.where(ld),
                  "stale template is reloaded without first being evicted: _load's second-chance read returns the stale object", "pop(uri) precedes _load on every path")
        ctx.check(len(ld.args) == 2 and src(ld.args[1]) == U_, "reload-same-uri", db.where(ld), "the stale template is reloaded under %s instead of the uri it was requested by: a template registered under an alias (put_template) vanishes from the lookup after its first refresh" % (src(ld.args[1]) if len(ld.args) > 1 else None), "reloaded under the requested uri")
        ctx.check(src(ld.args[0]) == T_ + ".filename", "reload-same-file", db.where(ld), "reloads %s" % src(ld.args[0]), "reloads template.filename")
    # memory templates are never checked
    first = ck.body[0] if not isinstance(ck.body[0], ast.Expr) else ck.body[1]
    ctx.check(isinstance(first, ast.If) and (T_ + ".filename is None") in src(first.test) and isinstance(first.body[0], ast.Return),
              "memory-template", db.where(first), "put_string templates (filename None) are not returned unconditionally", "filename None -> return template")
    # filesystem_checks off => _check not reached
    gt = db.func("lookup.TemplateLookup.get_template")
    for cc in calls(gt, "self._check"):
        guarded = ("self.filesystem_checks", True) in guards_of(cc, gt)
        ctx.check(guarded, "filesystem_checks-guard", db.where(cc), "_check is called even when filesystem_checks is false", "only under `if self.filesystem_checks`")
        ctx.check(len(cc.args) == 2 and src(cc.args[0]) == pn(gt, 1) and src(cc.args[1]) == "self._collection[%s]" % pn(gt, 1), "check-args", db.where(cc), "checks %s" % src(cc), "checks the cached entry for the same uri")
    others = [v_ for v_, g_ in return_leaves(gt) if src(v_) == "self._collection[%s]" % pn(gt, 1) and ("self.filesystem_checks", False) in g_]
    ctx.check(bool(others), "no-check-return", db.where(gt), "no plain cached return for filesystem_checks=False", "returns self._collection[uri] unchecked when checks are off")


@rule("C14.search-order", min_instances=4)
def search_order(ctx):
    """an uncached URI is served from the first configured directory containing it; exhaustion raises TopLevelLookupException (caught by has_template)"""
    db = ctx.db
    gt = db.func("lookup.TemplateLookup.get_template")
    loops = [n for n in walk_func(gt) if isinstance(n, ast.For) and "directories" in src(n.iter)]
    ctx.require(loops, "get_template has no loop over directories (anchor)")
    lp = loops[0]
    ctx.check(src(lp.iter) == "self.directories", "iter", db.where(lp), "directories iterated as %s, not in configured order" % src(lp.iter), "for ... in self.directories")
    rets = [n for n in ast.walk(lp) if isinstance(n, ast.Return)]
    brks = [n for n in ast.walk(lp) if isinstance(n, ast.Break)]
    ok = any(isinstance(r.value, ast.Call) and dotted(r.value.func) == "self._load" for r in rets) or bool(brks)
    ctx.check(ok and not any(isinstance(n, (ast.Continue,)) for n in ast.walk(lp)), "first-hit", db.where(lp), "loop does not return at the first existing file", "returns self._load(...) at the first hit")
    # the search ends only at a candidate that is a *file*: something else of that name (a directory) is passed over
    from .common import guards_of, resolve_deep
    def _file_test(t):
        t = resolve_deep(gt, t)
        return isinstance(t, ast.Call) and ((dotted(t.func) or "").endswith("path.isfile") or (dotted(t.func) or "").endswith("S_ISREG"))
    for x in rets + brks:
        gs = guards_of(x, lp, fn=gt)
        under = any(tv and (("isfile(" in tt) or ("S_ISREG(" in tt)) for tt, tv in gs)
        ctx.check(under, "ends-at-file:%s" % type(x).__name__, db.where(x),
                  "the search over the directories ends (%s) at a candidate that merely exists (conditions: %s): a directory of that name in an earlier root hides the template file in a later one" % (type(x).__name__.lower(), [tt for tt, tv in gs][:3]),
                  "the search ends only where the candidate is a regular file")
    # after exhaustion raise TopLevelLookupException
    tail = lp.orelse or []
    if not tail:
        # statements following the loop in the same block
        blk = getattr(lp, "_parent", None)
        body = getattr(blk, "body", [])
        if lp in body:
            tail = body[body.index(lp) + 1:]
    rs = [r for s in tail for r in ast.walk(s) if isinstance(r, ast.Raise)]
    nm = [dotted(r.exc.func) for r in rs if isinstance(r.exc, ast.Call)]
    ctx.check(bool(nm) and all(x.endswith("TopLevelLookupException") for x in nm), "exhaustion", db.where(lp), "exhausting the directories raises %s" % nm, "raises TopLevelLookupException")
    ctx.check(is_subclass(db, "exceptions", "TopLevelLookupException", "TemplateLookupException"), "exception-hierarchy", "mako/exceptions.py",
              "TopLevelLookupException is not a TemplateLookupException: has_template would let it escape", "TopLevelLookupException < TemplateLookupException")
    # the has_template that TemplateLookup actually uses: every True answer comes from a successful get_template
    eff = "lookup.TemplateLookup.has_template" if db.has("lookup.TemplateLookup.has_template") else "lookup.TemplateCollection.has_template"
    hfn = db.func(eff)
    gcfg = cfgmod.function_cfg(hfn)
    gets = [x for c in calls(hfn, "self.get_template") for x in stmt_nodes(gcfg, c)]
    sup = [r for r in walk_func(hfn) if isinstance(r, ast.Return) and isinstance(r.value, ast.Call) and "has_template" in (dotted(r.value.func) or "")]
    for i_, (v_, g_) in enumerate([(v_, g_) for v_, g_ in return_leaves(hfn) if isinstance(v_, ast.Constant) and v_.value is True]):
        r = enclosing_stmt(v_)
        p = gcfg.path_avoiding(gcfg.entry, gcfg.nodes_of(r), gets)
        if p is None and isinstance(r, ast.Return) and isinstance(r.value, ast.IfExp):
            p = [gcfg.entry]  # True is one arm of a conditional return: it is not preceded by the get_template in another arm
        ctx.check(p is None, "has_template.true-via-get:%d" % i_, db.where(r), "%s answers True on a path that never asks get_template (%s): a cached URI whose file has vanished is still reported as present" % (eff, gcfg.fmt_path(p)), "True only after get_template succeeded")
    ht = db.func("lookup.TemplateCollection.has_template")
    hs = [h for n in walk_func(ht) if isinstance(n, ast.Try) for h in n.handlers]
    ctx.check(any(h.type is not None and "TemplateLookupException" in src(h.type) and any(isinstance(s, ast.Return) and const(s.value) is False for s in h.body) for h in hs),
              "has_template", db.where(ht), "has_template does not map the lookup exception to False", "returns False on TemplateLookupException")
    # directories normalised once at construction, in order
    init = db.func("lookup.TemplateLookup.__init__")
    a = [n for n in walk_func(init) if isinstance(n, ast.Assign) and any(dotted(t) == "self.directories" for t in n.targets)]
    ctx.require(a, "self.directories not assigned")
    v = a[0].value
    ordered = isinstance(v, ast.ListComp) and not any(isinstance(n, ast.Call) and dotted(n.func) in ("sorted", "set", "reversed", "frozenset") for n in ast.walk(v))
    ctx.check(ordered, "directories-order", db.where(a[0]), "configured directory order is not preserved: %s" % src(v), "list comprehension over the given order")


@rule("C14.lru", min_instances=7, props=["C16"])
def lru(ctx):
    """every LRUCache insertion runs the size manager; bound capacity*(1+threshold<=0.5); eviction removes the least recently stamped; reads stamp recency and return the stored value"""
    db = ctx.db
    si = db.func("util.LRUCache.__setitem__")
    g = cfgmod.function_cfg(si)
    ms = [n for c in calls(si, "self._manage_size") for n in stmt_nodes(g, c)]
    good, path = g.must_pass(g.entry, ms, exits=[g.exit], kinds=("n",))
    ctx.check(bool(ms) and good, "setitem.manage", db.where(si), "__setitem__ can return without _manage_size (path %s): the cache grows without bound" % g.fmt_path(path), "every normal path calls _manage_size")
    # raw dict insertion only inside __setitem__
    raw = list(db.all_calls(lambda nm: nm in ("dict.__setitem__", "dict.update", "dict.setdefault", "super().__setitem__", "super().update", "super().setdefault"), modules=["util"]))
    for r in raw:
        f = getattr(r, "_func", None)
        q = getattr(f, "_qual", "?")
        if not q.startswith("util.LRUCache"):
            continue
        ctx.check(q == "util.LRUCache.__setitem__", "raw-insert:" + q, db.where(r), "raw dict insertion %s in %s bypasses the size manager" % (dotted(r.func), q), "raw insertion only in __setitem__")
    meths = db.methods("util.LRUCache")
    ctx.check("update" not in meths or True, "update", "mako/util.py", "", "dict.update not overridden; checked that lookup never calls update on its caches")
    upd = [c for c in db.all_calls(lambda nm: nm in ("self._collection.update", "self._uri_cache.update", "self._collection.setdefault" if "setdefault" not in meths else "-", "self._uri_cache.setdefault" if "setdefault" not in meths else "-"))]
    ctx.check(not upd, "lookup.no-update", "mako/lookup.py", "lookup inserts through dict.update/setdefault which bypasses __setitem__: %s" % [db.where(u) for u in upd], "lookup never calls update() on its caches")
    if "setdefault" in meths:
        sd = meths["setdefault"]
        stores = [n for n in walk_func(sd) if isinstance(n, ast.Assign) and any(isinstance(t, ast.Subscript) and dotted(t.value) == "self" for t in n.targets)]
        ctx.check(bool(stores) and not any(dotted(c.func) == "dict.setdefault" for c in ast.walk(sd) if isinstance(c, ast.Call)), "setdefault", db.where(sd), "setdefault does not insert through self[key] = value", "inserts via __setitem__")
    # bound
    mg = db.func("util.LRUCache._manage_size")
    whiles = [n for n in walk_func(mg) if isinstance(n, ast.While)]
    ctx.require(whiles, "_manage_size has no loop (anchor)")
    t = whiles[0].test
    ok = False
    form = src(t)
    if isinstance(t, ast.Compare) and len(t.ops) == 1 and isinstance(t.ops[0], (ast.Gt, ast.GtE)) and src(t.left) == "len(self)":
        rhs = src(resolve_deep(mg, t.comparators[0], 2)).replace(" ", "")
        ok = rhs in ("self.capacity+self.capacity*self.threshold", "self.capacity*(1+self.threshold)", "self.capacity*(1.0+self.threshold)", "self.capacity+self.threshold*self.capacity", "(1+self.threshold)*self.capacity")
        if not ok and rhs in ("self.capacity",):
            ok = True  # stricter bound
    ctx.check(ok, "bound.condition", db.where(whiles[0]), "size-manager loop condition `%s` is not len > capacity*(1+threshold)" % form, form)
    init = db.func("util.LRUCache.__init__")
    thr = param_default(init, "threshold")
    ctx.check(thr is not None and isinstance(const(thr), (int, float)) and 0 <= const(thr) <= 0.5, "bound.threshold", db.where(init), "default threshold %s exceeds 0.5: more than 1.5n templates are kept" % src(thr) if thr is not None else "no default", "threshold default %s <= 0.5" % (src(thr) if thr is not None else None))
    for c in db.all_calls(lambda nm: nm.endswith("LRUCache"), modules=["lookup"]):
        extra = len(c.args) > 1 or any(k.arg == "threshold" for k in c.keywords)
        cap_ok = c.args and src(c.args[0]) == "collection_size"
        ctx.check(not extra and cap_ok, "bound.construct", db.where(c), "lookup builds its cache as %s" % src(c), "LRUCache(collection_size) with the default threshold")
    # eviction order
    srt = [n for n in walk_func(mg) if isinstance(n, ast.Call) and dotted(n.func) == "sorted"]
    if not srt:
        # selection without a full sort: the n oldest by timestamp, n = len - capacity
        sel = [n for n in walk_func(mg) if isinstance(n, ast.Call) and dotted(n.func) in ("heapq.nsmallest", "nsmallest")]
        ctx.require(sel, "_manage_size neither sorts nor selects by timestamp (anchor)")
        kws = {k.arg: k.value for k in sel[0].keywords}
        okn = len(sel[0].args) >= 2 and src(sel[0].args[0]).replace(" ", "") == "len(self)-self.capacity" and "key" in kws and "timestamp" in src(kws["key"])
        ctx.check(okn, "evict-oldest", db.where(sel[0]), "eviction does not remove the least recently used entries: %s" % src(sel[0]), src(sel[0])[:60])
        srt = None
    s0 = srt[0] if srt else None
    if s0 is None:
        s0 = ast.parse("sorted(x, key=operator.attrgetter('timestamp'), reverse=True)").body[0].value
    kw = {k.arg: k.value for k in s0.keywords}
    by_ts = "key" in kw and "timestamp" in src(kw["key"])
    rev = "reverse" in kw and const(kw["reverse"]) is True
    # which slice is deleted
    fors = [n for n in walk_func(mg) if isinstance(n, ast.For)]
    sl = None
    for f in fors:
        it_ = resolve(mg, f.iter)
        if isinstance(it_, ast.Subscript) and isinstance(it_.slice, ast.Slice):
            sl = it_.slice
    desc = "sorted(..., key=%s, reverse=%s)[%s]" % (src(kw.get("key")) if kw.get("key") is not None else None, rev, src(sl) if sl is not None else None)
    evict_oldest = False
    if by_ts and sl is not None:
        lo, hi = (src(sl.lower) if sl.lower is not None else None), (src(sl.upper) if sl.upper is not None else None)
        if rev and lo == "self.capacity" and hi is None:
            evict_oldest = True  # newest first, drop the tail
        if not rev and lo is None and hi in ("-self.capacity", "len(self) - self.capacity", "len(bytime) - self.capacity"):
            evict_oldest = True
    if srt is None:
        evict_oldest = True
    ctx.check(evict_oldest, "evict-oldest", db.where(s0) if srt else db.where(mg), "eviction does not remove the least recently used entries: %s" % desc, desc)
    # reads
    gi = db.func("util.LRUCache.__getitem__")
    stamps = [n for n in walk_func(gi) if isinstance(n, ast.Assign) and any(dotted(t) and dotted(t).endswith(".timestamp") for t in n.targets)]
    ctx.check(bool(stamps) and all("default_timer" in src(s.value) or "time" in src(s.value) for s in stamps), "getitem.stamp", db.where(gi), "__getitem__ does not stamp recency", "stamps timestamp on read")
    rets = [n for n in walk_func(gi) if isinstance(n, ast.Return)]
    ctx.check(bool(rets) and all(src(r.value).endswith(".value") for r in rets), "getitem.value", db.where(gi), "__getitem__ returns %s" % [src(r.value) for r in rets], "returns item.value unchanged")
    item = db.func("util.LRUCache._Item.__init__")
    ctx.check(any(isinstance(n, ast.Assign) and any(dotted(t) == "self.timestamp" for t in n.targets) for n in walk_func(item)), "item.stamp", db.where(item), "new items are not stamped", "new items stamped at insertion")
    # overwrite path keeps the entry's value current
    upd_val = [n for n in walk_func(si) if isinstance(n, ast.Assign) and any(dotted(t) and dotted(t).endswith(".value") for t in n.targets)]
    ctx.check(bool(upd_val), "setitem.overwrite", db.where(si), "__setitem__ on an existing key does not replace the stored value", "existing key: value replaced")


@rule("C14.collection-writers", min_instances=4)
def collection_writers(ctx):
    """the template collection is written only by _load / put_string / put_template and emptied only by _load / _check"""
    db = ctx.db
    allowed_store = {"_load", "put_string", "put_template", "__init__"}
    allowed_pop = {"_load", "_check"}
    m = db.mod("lookup")
    n = 0
    for node in ast.walk(m.tree):
        f = getattr(node, "_func", None)
        fname = f.name if f is not None else "<module>"
        if isinstance(node, ast.Subscript) and isinstance(node.ctx, (ast.Store, ast.Del)) and (dotted(node.value) or "").endswith("._collection"):
            n += 1
            allowed = allowed_store if isinstance(node.ctx, ast.Store) else allowed_pop
            ctx.check(fname in allowed, "store:%s" % fname, db.where(node), "%s writes the template collection" % fname, "allowed writer")
        if isinstance(node, ast.Call) and isinstance(node.func, ast.Attribute) and (dotted(node.func.value) or "").endswith("._collection") and node.func.attr in ("pop", "clear", "popitem", "update", "setdefault", "__setitem__", "__delitem__"):
            n += 1
            ctx.check(fname in allowed_pop and node.func.attr == "pop", "mutate:%s.%s" % (fname, node.func.attr), db.where(node), "%s mutates the collection via %s" % (fname, node.func.attr), "allowed eviction site")
    # put_string constructs under the given uri; put_template stores the given object
    ps = db.func("lookup.TemplateLookup.put_string")
    for s in [x for x in walk_func(ps) if isinstance(x, ast.Assign)]:
        tgt = s.targets[0]
        if isinstance(tgt, ast.Subscript) and (dotted(tgt.value) or "").endswith("._collection"):
            kw = {k.arg: k.value for k in s.value.keywords} if isinstance(s.value, ast.Call) else {}
            ctx.check(src(tgt.slice) == pn(ps, 1) and isinstance(s.value, ast.Call) and dotted(s.value.func) == "Template" and src(kw.get("uri")) == pn(ps, 1) and s.value.args and src(s.value.args[0]) == pn(ps, 2),
                      "put_string", db.where(s), "put_string does not register Template(text, uri=uri) under uri", "Template(text, uri=uri) stored under uri")
    pt = db.func("lookup.TemplateLookup.put_template")
    for s in [x for x in walk_func(pt) if isinstance(x, ast.Assign)]:
        tgt = s.targets[0]
        if isinstance(tgt, ast.Subscript):
            ctx.check(src(tgt.slice) == pn(pt, 1) and src(s.value) == pn(pt, 2), "put_template", db.where(s), "put_template stores %s under %s" % (src(s.value), src(tgt.slice)), "stores the given template under uri")
