"""C06 - inheritance chains dispatch self/next/parent correctly; blocks render once.

Narrow claim: the compile-time sentences (duplicate / misplaced blocks are
rejected on every path) and the shape of the dispatch (block guard,
self-dispatch, lookup order callables -> own members -> inherits in every
namespace kind, inherits/parent/local/next wiring).  The dispatch result for
chains of every length is a run-time linked list and is not decided."""

import ast

from ..core import rule, AnalysisError
from ..engine import flow, cfg as cfgmod
from ..engine import pattern as P
from ..engine.facts import ancestors, dotted, const, src, walk_func, enclosing_stmt
from . import skeletons as sk
from .common import calls, contains, pn, access_paths, assigned_from, branch_paths, resolve, resolve_deep, guards_of, facts_at, sym_cases
from .common import _fold_not as _fold


@rule("C06.block-guard", min_instances=3)
def block_guard(ctx):
    """a named block is called through context['self'] only in the base-most template that declares it (no parent, or parent lacks it); anonymous blocks are called directly"""
    db = ctx.db
    S = sk.get(db)
    n = 0
    for s in S.build("visitBlockTag"):
        anon = [v for k, v in s.trace.asg.items() if "is_anonymous" in k]
        ctx.require(anon, "visitBlockTag: is_anonymous atom not found")
        n += 1
        if s.tree is None:
            ctx.violation("wf[anon=%d]" % anon[0], "mako/codegen.py (visitBlockTag)", "block call skeleton does not parse:\n" + s.source)
            continue
        body = s.tree.body[0].body
        if anon[0]:
            ok = len(body) == 1 and isinstance(body[0], ast.Expr) and isinstance(body[0].value, ast.Call) and isinstance(body[0].value.func, ast.Name) and not body[0].value.args
            ctx.check(ok, "anonymous", "mako/codegen.py (visitBlockTag)", "anonymous block is not rendered in place by a direct call:\n" + s.source, "direct call in place")
        else:
            ifs = [x for x in body if isinstance(x, ast.If)]
            ok = bool(ifs)
            why = "no guard"
            if ok:
                t = src(ifs[0].test)
                ok = "'parent' not in context._data" in t and "not hasattr(context._data['parent']" in t and isinstance(ifs[0].test, ast.BoolOp) and isinstance(ifs[0].test.op, ast.Or)
                why = "guard is `%s`" % t
                call = ifs[0].body[0] if ifs[0].body else None
                ok2 = isinstance(call, ast.Expr) and isinstance(call.value, ast.Call) and src(call.value.func).startswith("context['self'].")
                ok = ok and ok2
                if not ok2:
                    why = "the block is not dispatched through context['self'] (most-derived definition)"
            ctx.check(ok, "named", "mako/codegen.py (visitBlockTag)", "named block call: %s\n%s" % (why, s.source), "guarded by 'no parent or parent lacks the block', dispatched through context['self'], **pageargs forwarded")
    vb = db.func("codegen._GenerateRenderMethod.visitBlockTag")
    fm = [x for x in walk_func(vb) if isinstance(x, ast.BinOp) and isinstance(x.left, ast.Constant) and "hasattr(context._data['parent']" in str(x.left.value)]
    nd = pn(vb, 1)
    fw = P.has(vb, "$n = %s.get_argument_expressions(as_call=True)\n$n += ['**pageargs']\n...\nself.printer.writeline($f %% (%s.funcname, ','.join($n)))\n..." % (nd, nd))
    if not fw:
        # any spelling: the list joined into the emitted call is the block's argument expressions (as a call) followed by **pageargs
        for j_ in [c_ for c_ in walk_func(vb) if isinstance(c_, ast.Call) and P.matches(c_, "','.join($n)")]:
            v_ = resolve_deep(vb, j_.args[0], 2)
            if P.matches(v_, "%s.get_argument_expressions(as_call=True) + ['**pageargs']" % nd):
                par = [a_ for a_ in ancestors(j_) if isinstance(a_, ast.BinOp) and isinstance(a_.op, ast.Mod) and isinstance(a_.left, ast.Constant) and "context['self']" in str(a_.left.value)]
                fw = bool(par)
    ctx.check(bool(fw), "forwards-pageargs", db.where(vb), "the block call does not forward **pageargs", "nameargs += ['**pageargs']")
    ctx.check(bool(fm) and src(resolve_deep(vb, fm[0].right, 2)) == nd + ".funcname", "guard-names-block", db.where(vb), "the guard tests another attribute than the block's own name", "hasattr(parent, <block name>)")
    # named blocks are emitted as top-level render_<name> callables taking **pageargs
    init = db.func("codegen._GenerateRenderMethod.__init__")
    ctx.check(P.has(init, "if $n.is_block and not $n.is_anonymous:\n    $a += ['**pageargs']"), "block-callable-pageargs", db.where(init), "named block callables do not accept **pageargs", "render_<block>(context, **pageargs)")


@rule("C06.registration", min_instances=7, props=["C01", "C11"])
def registration(ctx):
    """def/block registries are written only through _check_name_exists (duplicate involving a block -> CompileException); named blocks inside defs or call tags are rejected"""
    db = ctx.db
    cls = db.cls("codegen._Identifiers")
    for n in ast.walk(cls):
        if isinstance(n, ast.Subscript) and isinstance(n.ctx, ast.Store):
            base = dotted(n.value) or ""
            if base in ("self.topleveldefs", "self.closuredefs", "collection"):
                f = getattr(n, "_func", None)
                ctx.check(f is not None and f.name == "_check_name_exists", "store:%s@%s" % (base, f.name if f else "?"), db.where(n), "%s is written outside _check_name_exists: a duplicate block name goes unnoticed" % base, "registry written only in _check_name_exists")
    cn = db.func("codegen._Identifiers._check_name_exists")
    ifs = [i for i in walk_func(cn) if isinstance(i, ast.If)]
    t = src(ifs[0].test).replace("\n", " ") if ifs else ""
    ok = bool(ifs) and P.has(ifs[0].test, "$e is not None") and P.has(ifs[0].test, "$e is not $n") and (P.has(ifs[0].test, "$n.is_block or $e.is_block") or P.has(ifs[0].test, "$e.is_block or $n.is_block")) and flow.always_raises(ifs[0].body) and "CompileException" in src(ifs[0])
    ctx.check(ok, "duplicate-raises", db.where(cn), "duplicate def/block names involving a block do not raise CompileException (test: %s)" % t, "duplicate involving a block -> CompileException")
    ctx.check(P.has(cn, "exceptions.CompileException($m, **node.exception_kwargs)"), "duplicate-position", db.where(cn), "duplicate-name error carries no position", "position of the second definition")
    ex = [s for s in walk_func(cn) if isinstance(s, ast.Assign) and src(s.targets[0]) == "existing"]
    st = [s for s in walk_func(cn) if isinstance(s, ast.Assign) and src(s.targets[0]) == "collection[node.funcname]"]
    ctx.check(P.has(cn, "$e = $c.get($n.funcname)\n$c[$n.funcname] = $n"), "lookup-before-store", db.where(cn), "the existing entry is not read before being overwritten", "existing read before the store")
    vb = db.func("codegen._Identifiers.visitBlockTag")
    cc = calls(vb, "self._check_name_exists")
    ctx.check(len(cc) >= 2, "block-registers", db.where(vb), "visitBlockTag registers through _check_name_exists %d times (named + anonymous expected)" % len(cc), "named -> topleveldefs, anonymous -> closuredefs")
    named = [c for c in cc if src(c.args[0]) == "self.topleveldefs"]
    ctx.check(bool(named) and any(isinstance(a, ast.If) and src(a.test) == "not node.is_anonymous" for a in _anc(named[0])), "named-block-toplevel", db.where(vb), "named blocks are not registered as top-level callables", "named block -> topleveldefs")
    vd = db.func("codegen._Identifiers.visitDefTag")
    ctx.check(len(calls(vd, "self._check_name_exists")) >= 2, "def-registers", db.where(vd), "visitDefTag does not register defs through _check_name_exists", "defs registered")
    # misplaced named blocks
    rs = [r for r in walk_func(vb) if isinstance(r, ast.Raise)]
    msgs = " ".join(src(r) for r in rs)
    # rejections: a raise that is reached exactly for a named block which is not the scope's own node, when the scope's node is of a given class
    np_ = pn(vb, 1)
    rejects = {}
    for r in rs:
        fa = facts_at(r, vb, resolve_locals=True)
        if ("%s is self.node" % np_, False) in fa and ("%s.is_anonymous" % np_, False) in fa:
            for t_, v_ in fa:
                if v_ and t_.startswith("isinstance(self.node, "):
                    for cls_ in ("DefTag", "CallTag", "CallNamespaceTag"):
                        if "parsetree." + cls_ in t_:
                            rejects.setdefault(cls_, []).append(r)
    guard = [r_ for v_ in rejects.values() for r_ in v_]
    ctx.check(bool(guard), "misplaced.guard", db.where(vb), "no test for a named block nested in another construct", "named block other than the scope's own node")
    if guard:
        ctx.check("DefTag" in rejects, "misplaced.in-def", db.where(guard[0]), "named block inside <%def> is not rejected", "rejected inside def")
        ctx.check("CallTag" in rejects and "CallNamespaceTag" in rejects, "misplaced.in-call", db.where(guard[0]), "named block inside <%call>/<%ns:def> is not rejected for both call tag classes", "rejected inside both call tag classes")
        ctx.check(all("**%s.exception_kwargs" % np_ in src(r) for r in guard), "misplaced.position", db.where(guard[0]), "misplaced-block error carries no position", "position carried")
    # exhaustive over parsetree classes that take a body declaration and an expression (call-like tags)
    pt = db.mod("parsetree")
    calllike = [c.name for c in pt.tree.body if isinstance(c, ast.ClassDef) and any(isinstance(s, ast.Assign) and dotted(s.targets[0]) == "self.body_decl" for s in ast.walk(c)) and any(isinstance(s, ast.Assign) and dotted(s.targets[0]) == "self.expression" for s in ast.walk(c))]
    for name in calllike:
        ctx.check(name in rejects or any(("parsetree." + name) in t_ for r_ in guard for t_, v_ in facts_at(r_, vb, resolve_locals=True) if v_), "misplaced.class:" + name, db.where(vb), "tag class %s takes a body like <%%call> but named blocks inside it are not rejected" % name, "covered")
    ns = db.func("codegen._GenerateRenderMethod.write_namespaces")
    # the visitor that exports the defs written inside a <%namespace> tag (a class local to write_namespaces or one it instantiates)
    # rejects anonymous blocks
    vis = [c_ for c_ in ast.walk(ns) if isinstance(c_, ast.ClassDef)]
    used = {dotted(c_.func) for c_ in walk_func(ns) if isinstance(c_, ast.Call) and dotted(c_.func)}
    vis += [c_ for c_ in db.mod("codegen").tree.body if isinstance(c_, ast.ClassDef) and c_.name in used]
    okv = False
    for c_ in vis:
        ms_ = {m_.name: m_ for m_ in c_.body if isinstance(m_, ast.FunctionDef)}
        todo, seen_ = ["visitBlockTag"], set()
        while todo:
            nm_ = todo.pop()
            if nm_ in seen_ or nm_ not in ms_:
                continue
            seen_.add(nm_)
            m_ = ms_[nm_]
            for x_ in walk_func(m_):
                if isinstance(x_, ast.Call) and isinstance(x_.func, ast.Attribute) and isinstance(x_.func.value, ast.Name) and x_.func.value.id == pn(m_, 0):
                    todo.append(x_.func.attr)
                if isinstance(x_, ast.Raise) and isinstance(x_.exc, ast.Call) and (dotted(x_.exc.func) or "").endswith("CompileException") and len(m_.args.args) > 1 and ("%s.is_anonymous" % pn(m_, 1), True) in facts_at(x_, m_):
                    okv = True
    ctx.check(okv, "anon-in-namespace", db.where(ns), "anonymous blocks inside <%namespace> are not rejected", "rejected")


def _anc(n):
    from ..engine.facts import ancestors
    return list(ancestors(n))


@rule("C06.getattr-order", min_instances=8)
def getattr_order(ctx):
    """Namespace / TemplateNamespace / ModuleNamespace.__getattr__ consult callables, then their own members, then inherits, else AttributeError; _NSAttr walks inherits the same way"""
    db = ctx.db
    own = {"runtime.Namespace": None, "runtime.TemplateNamespace": "self.template.has_def(%s)", "runtime.ModuleNamespace": "hasattr(self.module, %s)"}
    for q, own_test in own.items():
        fn = db.func(q + ".__getattr__")
        kp = pn(fn, 1)
        own_test = own_test % kp if own_test else None
        # decisions of the method, however its if/elif/else or guard clauses are spelled
        paths = branch_paths(fn.body, fn=fn)
        want = [kp + " in self.callables"] + ([own_test] if own_test else []) + ["self.inherits"]
        miss = [p for p in paths if isinstance(p.exit, ast.Raise)]
        ctx.check(bool(miss) and all("AttributeError" in src(p.exit) for p in miss), "miss:" + q.split(".")[1], db.where(fn), "a missing member does not raise AttributeError", "AttributeError")
        # the path that misses has decided every test false, in the order of evaluation
        order = miss[0].order() if miss else []
        ctx.check(order == want and all(not v for p in miss[:1] for v in [_fold(t, v)[1] for t, v in p.conds]), "order:" + q.split(".")[1], db.where(fn), "lookup order is %s, expected %s (own definition, else the nearest one toward the base)" % (order, want), " -> ".join(want))

        def value_on(cond):
            """what the method yields on the path where `cond` is the first test that holds"""
            for p in paths:
                o = p.order()
                if cond in o and p.holds(cond, True) and all(p.holds(c, False) for c in o[: o.index(cond)]) and o[-1] == cond:
                    vals = {}
                    for st in p.stmts:
                        if isinstance(st, ast.Assign) and isinstance(st.targets[0], ast.Name):
                            vals[st.targets[0].id] = st.value
                    if isinstance(p.exit, ast.Return) and p.exit.value is not None:
                        rv = p.exit.value
                        return vals.get(rv.id, rv) if isinstance(rv, ast.Name) else rv
            return None
        inh = value_on("self.inherits")
        ctx.check(inh is not None and P.matches(resolve_deep(fn, inh, 2), "getattr(self.inherits, %s)" % kp), "delegates:" + q.split(".")[1], db.where(fn), "inherited members are not fetched from self.inherits", "getattr(self.inherits, key)")
        if own_test:
            ov = value_on(own_test)
            okb = ov is not None and (P.matches(ov, "functools.partial($c, self.context)"))
            if ov is not None and not okb and isinstance(ov, ast.Call):
                okb = False
            # the callable may be fetched into a local first
            if not okb:
                okb = any(P.has(fn, "functools.partial($c, self.context)") for _ in [0]) and ov is not None and "partial" in src(ov)
            ctx.check(okb, "binds-context:" + q.split(".")[1], db.where(fn), "own members are not bound to the namespace's context", "partial(callable, self.context)")
    na = db.func("runtime._NSAttr.__getattr__")
    okw = P.has(na, "while $ns:\n    if hasattr($ns.module, $k):\n        return getattr($ns.module, $k)\n    else:\n        $ns = $ns.inherits\nraise AttributeError($k)") or P.has(na, "while $ns:\n    if hasattr($ns.module, $k):\n        return getattr($ns.module, $k)\n    $ns = $ns.inherits\nraise AttributeError($k)")
    if not okw:
        # the module read into a local first
        kp_ = pn(na, 1)
        for lp_ in [w_ for w_ in walk_func(na) if isinstance(w_, ast.While) and isinstance(w_.test, ast.Name)]:
            nsv = lp_.test.id
            rets_ = [r_ for r_ in ast.walk(lp_) if isinstance(r_, ast.Return) and r_.value is not None]
            step = any(P.matches(s_, "%s = %s.inherits" % (nsv, nsv)) for s_ in lp_.body)
            good = bool(rets_) and all(P.matches(resolve_deep(na, r_.value, 1), "getattr(%s.module, %s)" % (nsv, kp_)) and any(P.matches(resolve_deep(na, ast.parse(t_, mode="eval").body, 1), "hasattr(%s.module, %s)" % (nsv, kp_)) and v_ for t_, v_ in guards_of(r_, lp_)) for r_ in rets_)
            tail = [s_ for s_ in na.body if isinstance(s_, ast.Raise)]
            okw = step and good and bool(tail) and "AttributeError" in src(tail[-1])
    ctx.check(okw, "attr-walk", db.where(na), "_NSAttr does not walk module attributes along inherits", "own module attribute, else along inherits, else AttributeError")


@rule("C06.wiring", min_instances=7, props=["C17"])
def wiring(ctx):
    """_inherit_from appends the parent namespace at the base end of the chain and publishes it as parent/local; next is the previous tail; the body executed is the base-most one"""
    db = ctx.db
    fn = db.func("runtime._inherit_from")
    t = src(fn)
    w = [s for s in walk_func(fn) if isinstance(s, ast.While)]
    ctx.check(P.has(fn, "while $ih.inherits is not None:\n    $ih = $ih.inherits"), "walk-to-tail", db.where(fn), "the chain is not walked to its base-most namespace", "ih walks to the tail of self's chain")
    ctx.check(P.has(fn, "$s = $c['self']\n$ih = $s\nwhile $ih.inherits is not None:\n    ...") or P.has(fn, "$ih = $c['self']\nwhile $ih.inherits is not None:\n    ..."), "starts-at-self", db.where(fn), "the walk does not start at context['self']", "starts at the most-derived namespace")
    lc = [s for s in walk_func(fn) if isinstance(s, ast.Assign) and src(s.targets[0]) == "lclcontext"]
    ctx.check(P.has(fn, "while $ih.inherits is not None:\n    ...\n$l = $c._locals({'next': $ih})"), "next", db.where(fn), "`next` of the parent is not the previous tail of the chain", "next = previous tail")
    ihs = {env_["ih"][1].id for _n, env_ in P.find(fn, "while $ih.inherits is not None:\n    $ih = $ih.inherits") if isinstance(env_["ih"][1], ast.Name)}
    lcs = assigned_from(fn, "$c._locals({'next': $ih})")
    tvs = assigned_from(fn, "_lookup_template(...)")
    a = [s for s in walk_func(fn) if isinstance(s, ast.Assign) and isinstance(s.targets[0], ast.Attribute) and s.targets[0].attr == "inherits" and src(s.targets[0].value) in ihs]
    ctx.require(a and len(ihs) == 1 and len(lcs) == 1 and len(tvs) == 1, "_inherit_from does not assign <tail>.inherits (tail %s, parent context %s, template %s)" % (sorted(ihs), sorted(lcs), sorted(tvs)))
    ih, lcl, tv = sorted(ihs)[0], sorted(lcs)[0], sorted(tvs)[0]
    v = resolve(fn, a[0].value)
    kw = {k.arg: src(k.value) for k in v.keywords} if isinstance(v, ast.Call) else {}
    ctx.check(isinstance(v, ast.Call) and dotted(v.func) == "TemplateNamespace" and src(v.args[1]) == lcl and kw.get("template") == tv and kw.get("populate_self") == "False", "parent-namespace", db.where(a[0]), "parent namespace is built as %s" % src(v), "TemplateNamespace('self:<uri>', lclcontext, template=template, populate_self=False)")
    # what is published under both names is the object stored as <tail>.inherits (read back, or the same local)
    same = {ih + ".inherits", src(a[0].value)} if isinstance(a[0].value, ast.Name) else {ih + ".inherits"}
    published = {}
    pub_stmts = []
    for s in walk_func(fn):
        if isinstance(s, ast.Assign):
            for x in s.targets:
                if src(x) in ("%s._data['parent']" % pn(fn, 0), "%s._data['local']" % lcl):
                    published.setdefault(src(x), []).append(src(s.value))
                    pub_stmts.append(s)
    ok = len(published) == 2 and all(len(vs) == 1 and vs[0] in same for vs in published.values())
    # both are in place before anything of the parent runs (its own <%inherit>, its namespaces) and on every path out
    g_ = cfgmod.function_cfg(fn)
    later = [s_ for s_ in fn.body if any(isinstance(c_, ast.Call) and isinstance(c_.func, ast.Name) and c_.func.id not in ("getattr", "TemplateNamespace", "_lookup_template") for c_ in ast.walk(s_))]
    for ps in pub_stmts:
        if ps not in fn.body:
            ok = False
        for lt_ in later:
            if ps in fn.body and lt_ in fn.body and fn.body.index(lt_) < fn.body.index(ps):
                ok = False
    ctx.check(ok, "parent-local", db.where(fn), "the namespace stored as ih.inherits is not the one published as `parent` of the child and `local` of the parent", "parent (child's context) = local (parent's context) = ih.inherits")
    def _via_module(attr, then):
        for _n, env_ in P.find(fn, "$f = getattr($mod, '%s', None)\nif $f is not None:\n%s" % (attr, then)):
            m_ = env_["mod"][1]
            if src(m_) == tv + ".module" or (isinstance(m_, ast.Name) and src(resolve(fn, m_, 1)) == tv + ".module"):
                return True
        return False
    ctx.check(_via_module("_mako_inherit", "    $r = $f(%s, %s)\n    if $r:\n        return $r" % (tv, lcl)), "recursive-inherit", db.where(fn), "the parent's own _mako_inherit is not followed", "follows the parent's <%inherit> first")
    r = [x for x in walk_func(fn) if isinstance(x, ast.Return)]
    ctx.check(P.has(fn, "$l = $c._locals($_)\n...\nreturn ($t.callable_, $l)"), "returns-base-body", db.where(fn), "does not return the base-most template's body with its context", "returns (base body, its context)")
    ctx.check(_via_module("_mako_generate_namespaces", "    $f(%s)" % pn(fn, 0)), "parent-namespaces", db.where(fn), "the parent's namespaces are not generated", "parent's <%namespace> tags generated")
    ps = db.func("runtime._populate_self_namespace")
    t = src(ps)
    ctx.check(P.has(ps, "$c._data['self'] = $c._data['local'] = $s") or P.has(ps, "$c._data['local'] = $c._data['self'] = $s"), "self-local", db.where(ps), "self and local are not the template's own namespace at the start", "self = local = own namespace")
    ctx.check(P.has(ps, "if hasattr($t.module, '_mako_inherit'):\n    $r = $t.module._mako_inherit($t, $c)\n    if $r:\n        return $r\nreturn ($t.callable_, $c)"), "populate-returns", db.where(ps), "_populate_self_namespace does not return the inherit result or the template's own body", "base body if inheriting, else own body")
    rc = db.func("runtime._render_context")
    t = src(rc)
    # what is executed for a whole template: the two things _populate_self_namespace(context, template) returned
    ex_ = [c_ for c_ in walk_func(rc) if isinstance(c_, ast.Call) and dotted(c_.func) == "_exec_template"]
    pop_ = "_populate_self_namespace(%s, %s)" % (pn(rc, 2), pn(rc, 0))
    okx = False
    for e_ in ex_:
        for conds_, v_ in sym_cases(rc, e_):
            if any(P.matches(t_, "isinstance(%s, $cls)" % pn(rc, 0)) and not tv_ for t_, tv_ in conds_) and len(v_.args) >= 2:
                okx = src(v_.args[0]) == pop_ + "[0]" and src(v_.args[1]) == pop_ + "[1]"
    ctx.check(okx, "executes-base", db.where(rc), "_render_context does not execute what _populate_self_namespace returned", "executes the base-most body with its context")
    wi = db.func("codegen._GenerateRenderMethod.write_inherit")
    c = calls(db.func("codegen._GenerateRenderMethod.write_toplevel"), "self.write_inherit")
    wt_ = db.func("codegen._GenerateRenderMethod.write_toplevel")
    okl = False
    if c and isinstance(c[0].args[0], ast.Subscript) and isinstance(c[0].args[0].value, ast.Name) and src(c[0].args[0].slice) == "-1":
        lst = c[0].args[0].value.id
        appenders = [f_ for f_ in ast.walk(wt_) if isinstance(f_, ast.FunctionDef) and f_ is not wt_ and P.has(f_, "%s.append(%s)" % (lst, pn(f_, 1)))]
        okl = P.has(wt_, "%s = []" % lst) and [f_.name for f_ in appenders] == ["visitInheritTag"]
        # every <%inherit> tag is recorded: the append is the visitor's unconditional statement
        if okl:
            f_ = appenders[0]
            okl = any(isinstance(s_, ast.Expr) and P.matches(s_.value, "%s.append(%s)" % (lst, pn(f_, 1))) for s_ in f_.body)
    ctx.check(okl, "last-inherit-wins", db.where(c[0]) if c else db.where(wi), "not the last <%inherit> tag is used", "inherit[-1]")
    ns = db.func("codegen._GenerateRenderMethod.write_namespaces")
    ctx.check("context['self'].%s = ns" in src(ns) and "inheritable" in src(ns), "inheritable-namespaces", db.where(ns), "inheritable namespaces are not attached to self", "inheritable -> context['self'].<name>")
