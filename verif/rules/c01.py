"""C01 - literal text and the documented escapes are reproduced exactly;
lexing is polynomial.

Decided: structural necessary conditions of "no character dropped or
duplicated" and of the time bound - cursor ownership and strict progress,
every zero-width way of matching has a guaranteed consumer (language
inclusion between the look-ahead of a stop and the earlier matchers of the
cascade, decided on prefix automata), cascade order, verbatim flow of text
into the emitted write, consuming escapes outside the captured text, no
exponentially ambiguous regex reachable from Lexer.parse, CR/LF in consumed
terminators, line-count accounting.  What each regex matches on every string
is not decided."""

import ast
import re

from ..core import rule, AnalysisError
from ..engine import rx, cfg as cfgmod, flow
from ..engine import pattern as P
from ..engine.facts import dotted, const, src, walk_func, str_value, enclosing_stmt, ancestors
from .common import calls, stmt_nodes, contains, pn, access_paths, assigned_from, branch_paths, resolve, resolve_deep, sym_cases, lexer_side_scanner, scan_loop_of, facts_at

CURSOR = ("match_position", "lineno", "matched_lineno", "matched_charpos")


def _flags_value(node):
    """evaluate `re.I | re.S` style flag expressions"""
    if node is None:
        return 0
    if isinstance(node, ast.BinOp) and isinstance(node.op, ast.BitOr):
        return _flags_value(node.left) | _flags_value(node.right)
    d = dotted(node)
    if d and d.startswith("re."):
        return int(getattr(re, d[3:]))
    if isinstance(node, ast.Constant) and isinstance(node.value, int):
        return node.value
    raise AnalysisError("regex flags expression %s not understood" % src(node))


def lexer_match_sites(db):
    """(method name, call node, pattern or None, flags, dynamic?) for every self.match / self.match_reg in Lexer"""
    out = []
    for name, fn in db.methods("lexer.Lexer").items():
        rr = None
        for c in calls(fn, "self.match", "self.match_reg"):
            if dotted(c.func) == "self.match_reg":
                a = c.args[0]
                if dotted(a) and dotted(a).startswith("self."):
                    v = db.class_assign("lexer.Lexer", dotted(a)[5:])
                    if isinstance(v, ast.Call) and dotted(v.func) == "re.compile":
                        pat = str_value(v.args[0])
                        fl = _flags_value(v.args[1]) if len(v.args) > 1 else 0
                        out.append((name, c, pat, fl, False))
                        continue
                if isinstance(a, ast.Name) and name == "match":
                    continue  # the generic forwarder
                out.append((name, c, None, 0, True))
                continue
            a = c.args[0]
            fl = _flags_value(c.args[1]) if len(c.args) > 1 else 0
            pat = str_value(a)
            dyn = False
            if pat is None and isinstance(a, ast.Name):
                rr = rr or flow.Reaching(fn)
                defs = rr.defs_at(enclosing_stmt(c), a.id)
                vals = {str_value(d.value) for d in defs if isinstance(d, ast.Assign)}
                if len(vals) == 1 and None not in vals:
                    pat = vals.pop()
            if pat is None and isinstance(a, ast.BinOp) and isinstance(a.op, ast.Mod) and str_value(a.left) is not None:
                # pattern with an inserted terminator: analyse with an opaque non-empty token
                pat = str_value(a.left).replace("%s", "")
                dyn = True
            out.append((name, c, pat, fl, dyn))
    return out


def cascade(db):
    """ordered (method name, call node) of the matchers tried in Lexer.parse's loop"""
    fn = db.func("lexer.Lexer.parse")
    loops = [n for n in walk_func(fn) if isinstance(n, ast.While)]
    if not loops:
        raise AnalysisError("Lexer.parse has no loop (anchor)")
    out = []
    for st in loops[0].body:
        if isinstance(st, ast.If) and isinstance(st.test, ast.Call) and (dotted(st.test.func) or "").startswith("self.match_"):
            kind = "continue" if any(isinstance(x, ast.Continue) for x in st.body) else "break" if any(isinstance(x, ast.Break) for x in st.body) else "?"
            out.append((dotted(st.test.func)[5:], st, kind))
    return loops[0], out


@rule("C01.cursor-owner", min_instances=6)
def cursor_owner(ctx):
    """the lexer's cursor and line counters are stored only in __init__ and match_reg"""
    db = ctx.db
    n = 0
    for name, fn in db.methods("lexer.Lexer").items():
        for s in walk_func(fn):
            if isinstance(s, ast.Attribute) and isinstance(s.ctx, ast.Store) and dotted(s.value) == "self" and s.attr in CURSOR:
                n += 1
                ctx.check(name in ("__init__", "match_reg"), "%s:%s" % (name, s.attr), db.where(s), "%s assigns self.%s: the cursor is moved outside match_reg, text can be skipped or lexed twice" % (name, s.attr), "owner")
    ctx.require(n >= 6, "cursor stores not found (%d)" % n)
    # nobody else in the package moves a lexer's cursor
    for c in db.all_calls(lambda nm: False):
        pass
    ext = [s for mn, m in db.modules.items() if mn != "lexer" for s in ast.walk(m.tree) if isinstance(s, ast.Attribute) and isinstance(s.ctx, ast.Store) and s.attr in ("match_position", "matched_lineno", "matched_charpos")]
    ctx.check(not ext, "external", "mako/", "cursor stored outside lexer.py: %s" % [db.where(e) for e in ext], "no external writer")


def _is_matcher_call(e):
    return isinstance(e, ast.Call) and (dotted(e.func) or "").startswith("self.match")


def _back_edges(body):
    """[(exit statement or None for the end of the body, matched?, description)] for every path through a lexing loop's body that
    starts another iteration.  `matched` is True when the path is known to have seen a matcher succeed in this iteration:
    a test `if self.match_x():` taken, or a variable assigned from self.match(...) in this iteration and then found true"""
    out = []

    def learn(test, truth, st):
        if isinstance(test, ast.UnaryOp) and isinstance(test.op, ast.Not):
            return learn(test.operand, not truth, st)
        if isinstance(test, ast.BoolOp):
            if (isinstance(test.op, ast.And) and truth) or (isinstance(test.op, ast.Or) and not truth):
                for v in test.values:
                    st = learn(v, truth, st)
            return st
        if _is_matcher_call(test):
            return dict(st, **{"\0any": True}) if truth else st
        if isinstance(test, ast.Name) and test.id in st:
            return dict(st, **{test.id: truth})
        return st

    def go(todo, st, trail):
        if len(out) > 4096:
            raise AnalysisError("too many paths through the lexing loop")
        if not todo:
            out.append((None, st, trail))
            return
        s, rest = todo[0], todo[1:]
        if isinstance(s, ast.If):
            go(list(s.body) + rest, learn(s.test, True, st), trail + [(s, True)])
            go(list(s.orelse) + rest, learn(s.test, False, st), trail + [(s, False)])
            return
        if isinstance(s, (ast.Return, ast.Raise, ast.Break)):
            return
        if isinstance(s, ast.Continue):
            out.append((s, st, trail))
            return
        if isinstance(s, ast.Assign) and len(s.targets) == 1 and isinstance(s.targets[0], ast.Name):
            if _is_matcher_call(s.value):
                st = dict(st, **{s.targets[0].id: None})
            elif s.targets[0].id in st:
                st = {k: v for k, v in st.items() if k != s.targets[0].id}
        go(rest, st, trail)
    go(list(body), {}, [])
    res = []
    for ex, st, trail in out:
        matched = any(v is True for v in st.values())
        res.append((ex, matched, " -> ".join("%s%s" % ("" if t else "not ", src(i.test)[:40]) for i, t in trail[-3:])))
    return res


@rule("C01.progress", min_instances=6)
def progress(ctx):
    """a successful match strictly advances the cursor, and every back edge of the lexing loops is reached only through a successful match (termination)"""
    db = ctx.db
    mr = db.func("lexer.Lexer.match_reg")
    st = [s for s in walk_func(mr) if isinstance(s, ast.Assign) and dotted(s.targets[0]) == "self.match_position"]
    ctx.require(st, "match_reg does not assign self.match_position")
    v = st[0].value
    forms = ["$e + 1 if $e == $s else $e", "$e if $e != $s else $e + 1", "$e if $e > $s else $e + 1", "max($e, $s + 1)", "max($s + 1, $e)", "$e + ($e == $s)"]
    adv = [f for f in forms if P.has(mr, "($s, $e) = $m.span()\n...\nself.match_position = " + f)]
    ctx.check(bool(adv), "advance", db.where(st[0]), "cursor update `%s` (with start/end = the match span) does not guarantee strict progress after a match (a zero-width match would loop forever) or skips text" % src(v), src(v))
    mvs_ = assigned_from(mr, "$r.match(self.text, $p)")
    gd_ = [a_ for a_ in ancestors(st[0]) if isinstance(a_, ast.If)]
    ok = bool(gd_) and isinstance(gd_[0].test, ast.Name) and gd_[0].test.id in mvs_ and any(contains(b_, st[0]) for b_ in gd_[0].body)
    ctx.check(ok, "advance-only-on-match", db.where(st[0]), "cursor moved without a match", "only when the regex matched")
    ctx.check(P.has(mr, "($s, $e) = $m.span()"), "span", db.where(mr), "start/end are not the match span", "start, end = match.span()")
    ok = P.has(mr, "$m = $r.match(self.text, self.match_position)") or P.has(mr, "$q = self.match_position\n...\n$m = $r.match(self.text, $q)")
    ctx.check(ok, "match-at-cursor", db.where(mr), "the regex is not matched at the cursor on self.text", "reg.match(self.text, cursor)")
    # parse loop
    loop, casc = cascade(db)
    ctx.require(len(casc) >= 8, "cascade of Lexer.parse has only %d matchers" % len(casc))
    conts = [n for n in ast.walk(loop) if isinstance(n, ast.Continue)]
    edges = _back_edges(loop.body)
    for c in conts:
        mine = [(m_, d_) for x_, m_, d_ in edges if x_ is c]
        ifn = getattr(c, "_parent", None)
        lab = dotted(ifn.test.func) if isinstance(ifn, ast.If) and _is_matcher_call(ifn.test) else str(conts.index(c))
        ctx.check(bool(mine) and all(m_ for m_, d_ in mine), "parse.continue@%s" % lab, db.where(c), "`continue` in the lexing loop is reached on a path on which no matcher succeeded (%s): the loop may spin without consuming" % "; ".join(d_ for m_, d_ in mine if not m_), "reached only after a matcher succeeded")
    fall = [(m_, d_) for x_, m_, d_ in edges if x_ is None]
    ctx.check(all(m_ for m_, d_ in fall), "parse.fallthrough-raises", db.where(loop.body[-1]), "the lexing loop can fall through to its next iteration without any matcher having consumed text (%s)" % "; ".join(d_ for m_, d_ in fall if not m_), "the end of the loop body is reached only after a match (%d paths)" % len(fall))
    put = db.func("lexer.Lexer.parse_until_text")
    pl = [n for n in walk_func(put) if isinstance(n, ast.While)]
    ctx.require(pl, "parse_until_text has no loop")
    edges = _back_edges(pl[0].body)
    sconts = [n for n in ast.walk(pl[0]) if isinstance(n, ast.Continue)]
    for c in sconts:
        mine = [(m_, d_) for x_, m_, d_ in edges if x_ is c]
        ctx.check(bool(mine) and all(m_ for m_, d_ in mine), "scan.continue@%d" % sconts.index(c), db.where(c), "`continue` in parse_until_text is reached on a path without a successful match (%s)" % "; ".join(d_ for m_, d_ in mine if not m_), "reached only after a match")
    fall = [(m_, d_) for x_, m_, d_ in edges if x_ is None]
    ctx.check(all(m_ for m_, d_ in fall), "scan.fallthrough-raises", db.where(pl[0]), "parse_until_text can iterate without consuming (%s)" % "; ".join(d_ for m_, d_ in fall if not m_), "the end of the loop body is reached only after a match (%d paths)" % len(fall))
    # the end-of-text bound is the length of the text that is lexed: nothing replaces self.text after the length was taken
    ps = db.func("lexer.Lexer.parse")
    gp = cfgmod.function_cfg(ps)
    tls = [s for s in walk_func(ps) if isinstance(s, ast.Assign) and any(dotted(t) == "self.textlength" for t in s.targets)]
    stores = [s for s in walk_func(ps) if isinstance(s, (ast.Assign, ast.AugAssign)) and any(dotted(x) == "self.text" and isinstance(x.ctx, ast.Store) for t in (s.targets if isinstance(s, ast.Assign) else [s.target]) for x in ast.walk(t) if isinstance(x, ast.Attribute))]
    ctx.require(tls and stores, "Lexer.parse: textlength / text assignments not found")
    okl = all(P.matches(s.value, "len(self.text)") for s in tls)
    late = None
    for s in tls:
        for a in gp.nodes_of(s):
            for st in stores:
                p_ = gp.path_avoiding(a, gp.nodes_of(st), [], kinds=("n",))
                if p_:
                    late = st
    ctx.check(okl and late is None, "length-current", db.where(late) if late is not None else db.where(tls[0]), "self.text is replaced (`%s`) after self.textlength was taken: the loop stops at the stale length and the rest of the source is silently dropped (or lexing runs past the end)" % (src(late) if late is not None else ""), "textlength = len(self.text) after the last replacement of the text")


def _stops_of_text(sub):
    """group 2 alternatives of the text regex"""
    g2 = rx.find_group(sub, 2)
    if g2 is None:
        raise AnalysisError("text regex has no stop group")
    items = list(g2)
    if len(items) == 1 and items[0][0] == rx.OP.BRANCH:
        return items[0][1][1]
    return [g2]


@rule("C01.zero-width-consumer", min_instances=10)
def zero_width_consumer(ctx):
    """every regex the lexer matches at the cursor that can match the empty string away from EOF has, for each zero-width way of matching, an earlier matcher that is guaranteed to consume there (or the skipped character is accounted by slicing)"""
    db = ctx.db
    sites = lexer_match_sites(db)
    ctx.require(len(sites) >= 12, "only %d regex match sites found in Lexer" % len(sites))
    loop, casc = cascade(db)
    order = [m for m, _, _ in casc]
    primary = {}
    for name, c, pat, fl, dyn in sites:
        if name in order and name not in primary and pat is not None:
            primary[name] = (pat, fl, c)
    ctx.note("cascade", order)
    subs = [rx.parse(p, f) for p, f, _ in primary.values()]
    alpha = rx.alphabet(subs, "<%/$#{}\\\r\n\t !")
    for name, c, pat, fl, dyn in sites:
        key = "%s@%s" % (name, (pat or "?")[:24].replace("\n", " "))
        where = db.where(c)
        if pat is None:
            ctx.undecided(key, where, "regex not constant")
            continue
        sub = rx.parse(pat, fl)
        if not rx.nullable(sub):
            ctx.ok(key, where, "cannot match the empty string")
            continue
        only_eof = all(op == rx.OP.AT and av in (rx.OP.AT_END_STRING,) for op, av in sub)
        if only_eof:
            ctx.ok(key, where, "zero-width only at end of input")
            continue
        if name == "parse_until_text":
            # (c) accounted by slicing: the scanner returns self.text[startpos : cursor - len(terminator)]
            fn = db.func("lexer.Lexer.parse_until_text")
            hits = P.find(fn, "self.text[$sp:self.match_position - len($m.group(1))]")
            if not hits:
                # the terminator held in a local first
                for node_, env_ in P.find(fn, "self.text[$sp:self.match_position - len($t)]"):
                    if P.matches(resolve_deep(fn, env_["t"][1]), "$m.group(1)"):
                        hits.append((node_, env_))
            ok = False
            for node_, env_ in hits:
                spn = env_["sp"][1]
                if isinstance(spn, ast.Name) and any(isinstance(s, ast.Assign) and src(s.targets[0]) == spn.id and src(s.value) == "self.match_position" for s in fn.body):
                    ok = isinstance(node_, ast.Return) or any(isinstance(a_, ast.Return) for a_ in ancestors(node_))
            ctx.check(ok, key, where, "the scanner's fallback can match zero-width (stepping over one character) and the returned span is not the source slice from the saved start: characters are dropped from the expression", "stepped-over character stays inside the returned source slice [startpos : cursor - len(terminator)]")
            continue
        if name == "match_text":
            stops = _stops_of_text(sub)
            earlier = order[: order.index("match_text")]
            rights = []
            skipped = []
            for m in earlier:
                if m not in primary or m == "match_end":
                    continue
                p2, f2, c2 = primary[m]
                try:
                    rights.append((m, rx.PNFA(p2, f2)))
                except rx.Unsupported as e:
                    skipped.append("%s (%s)" % (m, e))
            ctx.note("coverage_matchers", [m for m, _ in rights])
            ctx.note("coverage_skipped", skipped)
            for i, alt in enumerate(stops):
                desc = rx.describe(alt)
                k2 = "match_text.stop:%s" % desc
                if not rx.nullable(alt):
                    ctx.ok(k2, where, "consuming stop")
                    continue
                if all(op == rx.OP.AT and av == rx.OP.AT_END_STRING for op, av in alt):
                    ctx.ok(k2, where, "end of input")
                    continue
                try:
                    L = rx.PNFA(desc, fl, sub=alt)
                    L.flags = rx.flags_of(sub)
                    good, wit, used = rx.covered(L, [r for _, r in rights], alpha)
                except rx.Unsupported as e:
                    ctx.undecided(k2, where, "stop not analysable: %s" % e)
                    continue
                if good:
                    ctx.ok(k2, where, "every input at this stop is consumed (or rejected with an exception) by an earlier matcher of the cascade")
                else:
                    ctx.violation("regex:lexer.Lexer.match_text#stop:%s" % desc, where,
                                  "text stops (zero-width) before %r but no earlier matcher is guaranteed to consume there: with the text before it empty, match_reg steps over one character, which is silently dropped (witness input at the stop: %r)" % (desc, wit), witness=wit)
            # the matchers relied upon really consume-or-raise on a regex match
            for m, _ in rights:
                fn = db.func("lexer.Lexer." + m)
                ok = _returns_truthy_after_match(fn)
                ctx.check(ok, "matcher-total:" + m, db.where(fn), "%s can return a falsy value after its regex matched (text consumed but the cascade continues as if nothing matched)" % m, "returns a truthy value or raises once its regex matched")
            continue
        ctx.violation("regex:lexer.Lexer.%s#zero-width" % name, where,
                      "regex %r can match the empty string away from end of input; match_reg then steps over one source character which nothing accounts for" % pat)


def _returns_truthy_after_match(fn):
    """on every path through fn on which its regex matched, the value returned is truthy (or the path raises):
    a falsy return is only reached with the match known to have failed"""
    mv = {s.targets[0].id for s in walk_func(fn) if isinstance(s, ast.Assign) and isinstance(s.targets[0], ast.Name) and isinstance(s.value, ast.Call) and dotted(s.value.func) in ("self.match", "self.match_reg")}
    # ... or the call itself when it stands in the test
    mv |= {src(c) for c in walk_func(fn) if isinstance(c, ast.Call) and dotted(c.func) in ("self.match", "self.match_reg")}
    for p in branch_paths(fn.body):
        if isinstance(p.exit, ast.Return):
            v = p.exit.value
            falsy = v is None or (isinstance(v, ast.Constant) and v.value in (False, None, 0, ""))
            if falsy and not any(p.holds(m, False) for m in mv):
                return False
        elif p.exit is None:
            # falls off the end: returns None
            if not any(p.holds(m, False) for m in mv):
                return False
    return True


@rule("C01.cascade-order", min_instances=5)
def cascade_order(ctx):
    """a matcher whose literal prefix extends another's is tried first when the other always matches on its prefix (<%doc> and tags before the `<%` block matcher; everything before text)"""
    db = ctx.db
    sites = lexer_match_sites(db)
    loop, casc = cascade(db)
    order = [m for m, _, _ in casc]
    ctx.check(order and order[-1] == "match_text", "text-last", db.where(loop), "match_text is not the last matcher of the cascade: it matches any text and shadows the matchers after it", "text is tried last")
    ctx.check(order and order[0] == "match_end" and casc[0][2] == "break", "end-first", db.where(loop), "end of input is not tested first / does not leave the loop", "match_end first, breaks")
    prim = {}
    for name, c, pat, fl, dyn in sites:
        if name in order and name not in prim and pat is not None:
            prim[name] = (pat, fl, c)
    info = {}
    for m in order:
        if m not in prim:
            continue
        pat, fl, c = prim[m]
        sub = rx.parse(pat, fl)
        items = [it for it in sub if not (it[0] == rx.OP.ASSERT and it[1][0] < 0) and it[0] != rx.OP.AT]
        pre, rest = rx.literal_prefix(items)
        info[m] = (pre, rest, sub, pat, fl)
    ctx.note("literal_prefixes", {m: v[0] for m, v in info.items()})
    alpha = rx.alphabet([v[2] for v in info.values()], "<%/$#!")
    n = 0
    for i, a in enumerate(order):
        for b in order[i + 1:]:
            if a not in info or b not in info:
                continue
            pa, pb = info[a][0], info[b][0]
            if not pa or not pb or not pb.startswith(pa):
                continue
            # a is tried before b and b's prefix extends a's: b is dead if a always matches on its prefix
            n += 1
            try:
                L = rx.PNFA(re.escape(pb), 0)
                R = rx.PNFA(info[a][3], info[a][4])
                R.context = None
                good, wit, _ = rx.covered(L, [R], alpha)
            except rx.Unsupported as e:
                ctx.undecided("%s<%s" % (a, b), db.where(prim[a][2]), str(e))
                continue
            ctx.check(not good, "%s-before-%s" % (a, b), db.where(prim[a][2]),
                      "%s (prefix %r) always matches where %s (prefix %r) could, and is tried first: %s can never match" % (a, pa, b, pb, b),
                      "%s does not shadow %s (e.g. %r falls through)" % (a, b, wit))
    # required orders of the documented constructs
    def before(x, y):
        return x in order and y in order and order.index(x) < order.index(y)
    for x, y, why in (("match_comment", "match_tag_start", "<%doc> must not be lexed as a tag"), ("match_comment", "match_python_block", "<%doc> must not be lexed as a <% block"),
                      ("match_tag_start", "match_python_block", "<%tag must not be lexed as a <% block"), ("match_control_line", "match_text", "% and ## lines"),
                      ("match_percent", "match_text", "%% escape"), ("match_expression", "match_text", "${ expressions")):
        ctx.check(before(x, y), "%s<%s" % (x, y), db.where(loop), "%s is not tried before %s (%s)" % (x, y, why), why)


@rule("C01.verbatim-flow", min_instances=6)
def verbatim_flow(ctx):
    """text reaches the output unchanged: Text nodes carry match groups as they are (%% is the one specified rewrite), Text stores them unchanged, visitText emits one write of repr(content), visitExpression places node.text unchanged"""
    db = ctx.db
    n = 0
    for name, fn in db.methods("lexer.Lexer").items():
        for c in calls(fn, "self.append_node"):
            if src(c.args[0]) != "parsetree.Text":
                continue
            n += 1
            a = c.args[1]
            t = src(a)
            if name == "match_percent":
                ar = resolve_deep(fn, c.args[1])
                ok = P.matches(ar, "$m.group(1) + '%' + $m.group(2)") or P.matches(ar, "'%s%%%s' % ($m.group(1), $m.group(2))")
                ctx.check(ok, "text:match_percent", db.where(c), "%%%% escape produces %s instead of group(1) + '%%' + group(2)" % t, "leading space + one % + remaining %s")
            else:
                # a match group, possibly through a local name
                isgroup = lambda e_: isinstance(e_, ast.Call) and isinstance(e_.func, ast.Attribute) and e_.func.attr == "group" and isinstance(e_.func.value, ast.Name) and len(e_.args) == 1 and isinstance(const(e_.args[0]), int)
                ok = isgroup(a)
                if isinstance(a, ast.Name):
                    rr = flow.Reaching(fn)
                    defs = rr.defs_at(enclosing_stmt(c), a.id)
                    ok = all(isinstance(d, ast.Assign) and isgroup(d.value) for d in defs) and bool(defs)
                ctx.check(ok, "text:" + name, db.where(c), "Text content `%s` is not a match group taken unchanged from the source" % t, "content is the matched source text")
    ctx.require(n >= 3, "Text creation sites not found (%d)" % n)
    ti = db.func("parsetree.Text.__init__")
    a = [s for s in walk_func(ti) if isinstance(s, ast.Assign) and dotted(s.targets[0]) == "self.content"]
    ctx.check(bool(a) and src(a[0].value) == "content", "Text.stores", db.where(ti), "Text.__init__ stores %s" % (src(a[0].value) if a else None), "self.content = content")
    vt = db.func("codegen._GenerateRenderMethod.visitText")
    ws = [c for c in calls(vt, "self.printer.writeline", "self.printer.writelines")]
    ok = len(ws) == 1 and len(ws[0].args) == 1
    arg = src(resolve_deep(vt, ws[0].args[0], 2)) if ws else ""
    ok = ok and ("repr(node.content)" in arg or "{node.content!r}" in arg or "%r" in arg and "node.content" in arg) and "__M_writer(" in arg
    ctx.check(ok, "visitText", db.where(vt), "visitText does not emit exactly one __M_writer(repr(node.content)) (repr is what protects the text from the printer's re-indentation)", "one write of repr(content)")
    ve = db.func("codegen._GenerateRenderMethod.visitExpression")
    nd = pn(ve, 1)
    # what is written, case by case (locals read as their values): the text itself, or the filter pipeline applied to it
    seen_kinds = set()
    for i_, c in enumerate(calls(ve, "self.printer.writeline")):
        for conds_, v_ in sym_cases(ve, c.args[0]):
            a = src(v_)
            plain = P.matches(v_, "'__M_writer(%%s)' %% %s.text" % nd)
            filt = P.matches(v_, "'__M_writer(%s)' % self.create_filter_callable($a, $t, $e)")
            kind = "plain" if plain else "filtered"
            seen_kinds.add(kind)
            ctx.check(plain or filt, "visitExpression:%s" % kind, db.where(c), "expression text is not placed unchanged: %s" % a, "node.text / filtered node.text")
    ctx.check(seen_kinds == {"plain", "filtered"}, "visitExpression:both", db.where(ve), "visitExpression writes only %s" % sorted(seen_kinds), "a plain and a filtered write")
    cf = [c for c in calls(ve, "self.create_filter_callable")]
    ctx.check(bool(cf) and (P.has(cf[0].args[1], "'%%s' %% %s.text" % nd) or src(cf[0].args[1]) == nd + ".text"), "visitExpression.target", db.where(ve), "the filter pipeline is not applied to node.text", "filters wrap node.text")
    # <%text> swallows everything up to </%text> - but only when the tag was not closed on the spot (<%text/>)
    mts = db.func("lexer.Lexer.match_tag_start")
    scans = [c_ for f_ in db.with_helpers(mts) for c_ in walk_func(f_) if isinstance(c_, ast.Call) and (dotted(c_.func) or "").endswith("self.match") and c_.args and "</%text>" in (str_value(c_.args[0]) or "").replace("\\", "")]
    ctx.require(scans, "match_tag_start: the scan for </%text> was not found (anchor)")
    grp = [s_ for s_ in walk_func(mts) if isinstance(s_, ast.Assign) and isinstance(s_.targets[0], ast.Tuple) and len(s_.targets[0].elts) == 3 and P.matches(s_.value, "$m.groups()")]
    isend = src(grp[0].targets[0].elts[2]) if grp else None
    for sc_ in scans:
        owner = getattr(sc_, "_func", None)
        fa = facts_at(sc_, owner) if owner is not None else set()
        if owner is not mts:
            # the scan lives in a helper: the condition is on the call of the helper
            fa = set()
            for c_ in walk_func(mts):
                if isinstance(c_, ast.Call) and isinstance(c_.func, ast.Attribute) and c_.func.attr == owner.name:
                    fa |= facts_at(c_, mts)
        ctx.check(isend is not None and (isend, False) in fa, "text-tag.not-self-closed", db.where(sc_), "the body of <%%text> is scanned up to </%%text> also when the tag is closed on the spot (<%%text/>): everything up to the next </%%text> - directives included - is swallowed as literal text" , "only an open <%text> swallows its body")
    # the CRLF normalisations are the only edits of expression/attribute text
    me = db.func("lexer.Lexer.match_expression")
    reps = [c for c in walk_func(me) if isinstance(c, ast.Call) and isinstance(c.func, ast.Attribute) and c.func.attr in ("replace", "strip", "lstrip", "rstrip", "lower", "upper")]
    ok = all((c.func.attr == "replace" and [const(a) for a in c.args] == ["\r\n", "\n"]) or (c.func.attr == "strip" and "escapes" in src(c.func.value)) for c in reps)
    ctx.check(ok, "expression-edits", db.where(me), "expression text is edited beyond CRLF normalisation: %s" % [src(c) for c in reps], "only \\r\\n -> \\n (and filter list strip)")


@rule("C01.escapes-consume", min_instances=4)
def escapes_consume(ctx):
    """the backslash-newline escape and the terminator of % / ## lines are consumed and lie outside the captured text; <%doc> is consumed whole"""
    db = ctx.db
    sites = {n: (p, f, c) for n, c, p, f, d in lexer_match_sites(db) if n in ("match_text", "match_control_line", "match_comment", "match_percent") and p}
    ctx.require({"match_text", "match_control_line", "match_comment"} <= set(sites), "text/control/comment regexes not found")
    pat, fl, c = sites["match_text"]
    sub = rx.parse(pat, fl)
    stops = _stops_of_text(sub)
    bs = [a for a in stops if not rx.nullable(a)]
    ok = False
    for a in bs:
        items = [it for it in rx.walk(a) if it[0] in rx.CHAR_OPS]
        lits = [chr(it[1]) for it in items if it[0] == rx.OP.LITERAL]
        if lits[:1] == ["\\"] and "\n" in lits:
            ok = True
    ctx.check(ok, "backslash-newline", db.where(c), "no consuming backslash-newline stop in the text regex: the escape would be copied to the output", "consuming alternative \\\\\\r?\\n outside the text group")
    # everything a stop alternative consumes is dropped from the output: only backslash + line terminator may be
    for a in stops:
        lang = rx.finite_language(a, rx.flags_of(sub))
        dropped = None if lang is None else [w for w in lang if w]
        allowed = {"\\\n", "\\\r\n"}
        if dropped is None:
            ctx.violation("text-stop.consumes-only-escape", db.where(c), "the text regex's stop alternative %s consumes an unbounded / open set of strings, which are dropped from the output; only a backslash directly followed by a line terminator is an escape" % rx.describe(a))
        elif dropped:
            ctx.check(set(dropped) <= allowed, "text-stop.consumes-only-escape", db.where(c), "the text regex's stop alternative %s consumes %r, which is dropped from the output; only a backslash directly followed by a line terminator is an escape" % (rx.describe(a), sorted(set(dropped) - allowed)), "consumes exactly backslash + \\r?\\n")
    # the coding comment skipped by parse() is one line starting with '#'
    cre = db.class_assign("lexer.Lexer", "_coding_re")
    ctx.require(isinstance(cre, ast.Call) and str_value(cre.args[0]) is not None, "Lexer._coding_re not found")
    csub = rx.parse(str_value(cre.args[0]), _flags_value(cre.args[1]) if len(cre.args) > 1 else 0)
    nl = rx.max_count(csub, "\n")
    pre_, _rest = rx.literal_prefix(csub)
    ctx.check(nl == 1 and pre_.startswith("#"), "coding-comment.one-line", db.where(cre), "the coding-comment regex, whose match parse() skips without a node, can consume %s line terminators (prefix %r): a line of text next to the comment is dropped from the output" % (nl, pre_), "one line starting with #")
    g1 = rx.find_group(sub, 1)
    ctx.check(g1 is not None and list(sub)[0][0] == rx.OP.SUBPATTERN and list(sub)[0][1][0] == 1, "text-group-first", db.where(c), "the captured text is not the leading group", "group 1 is the text before the stop")
    pat, fl, c = sites["match_control_line"]
    sub = rx.parse(pat, fl)
    items = list(sub)
    tail = items[-1]
    alts = tail[1][1] if tail[0] == rx.OP.BRANCH else (tail[1][3] if tail[0] == rx.OP.SUBPATTERN else None)
    t = rx.describe([tail])
    ctx.check("\\n" in t and "end_string" in t, "control-line-terminator", db.where(c), "the %% / ## line regex does not end with a consumed line terminator or end of input: %s" % t, "consumes \\r?\\n or end of input: %s" % t)
    g2 = rx.find_group(sub, 2)
    inner = rx.chars_in(g2, rx.alphabet([sub]), rx.flags_of(sub)) if g2 is not None else set()
    ctx.check(g2 is not None, "control-line-text-group", db.where(c), "no text group", "line text captured separately from its terminator")
    pat, fl, c = sites["match_comment"]
    sub = rx.parse(pat, fl)
    pre, rest = rx.literal_prefix(sub)
    ctx.check(pre == "<%doc>" and rx.describe(rest).endswith("</%doc>"), "doc-section", db.where(c), "<%%doc> regex is %r" % pat, "<%doc>...</%doc> consumed whole")
    fn = db.func("lexer.Lexer.match_control_line")
    cm = [x for x in calls(fn, "self.append_node") if src(x.args[0]) == "parsetree.Comment"]
    ctx.check(bool(cm), "comment-node", db.where(fn), "## lines do not become Comment nodes", "## -> Comment (produces no output)")
    vg = db.methods("codegen._GenerateRenderMethod")
    ctx.check("visitComment" not in vg, "comment-no-emission", "mako/codegen.py", "the generator emits code for Comment nodes", "no visitComment: comments vanish")


def reachable_regexes(db):
    """(where, pattern, flags) of every regex literal in the modules reachable from Lexer.parse"""
    out = []
    scopes = [("lexer", None), ("parsetree", None), ("ast", None), ("pygen", "adjust_whitespace")]
    REFN = {"re.compile", "re.match", "re.search", "re.findall", "re.split", "re.sub", "re.finditer", "re.fullmatch", "self.match", "match"}
    for modname, only_fn in scopes:
        m = db.mod(modname)
        for n in ast.walk(m.tree):
            if not isinstance(n, ast.Call):
                continue
            nm = dotted(n.func)
            if nm not in REFN or not n.args:
                continue
            f = getattr(n, "_func", None)
            q = getattr(f, "_qual", "") if f is not None else ""
            if only_fn and only_fn not in q:
                continue
            if nm == "match" and "adjust_whitespace" not in q:
                continue
            a = n.args[0]
            pats = []
            p = str_value(a)
            if p is not None:
                pats = [p]
            elif isinstance(a, ast.Name) and f is not None:
                try:
                    rr = flow.Reaching(f)
                    defs = rr.defs_at(enclosing_stmt(n), a.id)
                    vals = [str_value(d.value) for d in defs if isinstance(d, ast.Assign)]
                    pats = [v for v in vals if v is not None]
                except AnalysisError:
                    pats = []
            elif isinstance(a, ast.BinOp) and isinstance(a.op, ast.Mod) and str_value(a.left) is not None:
                base = str_value(a.left)
                if "adjust_whitespace" in q:
                    pats = [base.replace("%s", '"""'), base.replace("%s", "'''")]
                elif "parse_until_text" in q:
                    pats = [base.replace("%s", t) for t in (r"%>", r"\||}", r"}")]
                else:
                    pats = [base.replace("%s", "X")]
            fl = 0
            try:
                if nm in ("re.compile", "self.match") and len(n.args) > 1:
                    fl = _flags_value(n.args[1])
                elif nm in ("re.match", "re.search", "re.findall", "re.split", "re.fullmatch", "re.finditer") and len(n.args) > 2:
                    fl = _flags_value(n.args[2])
                for k in n.keywords:
                    if k.arg == "flags":
                        fl = _flags_value(k.value)
            except AnalysisError:
                fl = 0
            if isinstance(getattr(n, "_parent", None), ast.Attribute) or True:
                # chained `.split(x)` on a compiled pattern keeps the flags given to compile
                pass
            for p in pats:
                out.append((n, p, fl))
    return out


@rule("C01.no-EDA", min_instances=25)
def no_eda(ctx):
    """no regex reachable from Lexer.parse is exponentially ambiguous (lexing stays polynomial)"""
    db = ctx.db
    # canary: the detector flags a known-bad pattern on every run
    ctx.require(rx.eda(r"(\s*x\s*)*y")["found"] and not rx.eda(r"(\s*x)*\s*y")["found"], "EDA detector canary failed")
    regs = reachable_regexes(db)
    ctx.require(len(regs) >= 25, "only %d regexes found in the lexing path" % len(regs))
    seen = set()
    skipped = []
    for node, pat, fl in regs:
        f = getattr(node, "_func", None)
        q = getattr(f, "_qual", "<module>") if f is not None else getattr(node, "_mod").name + ".<module>"
        key0 = (q, pat)
        if key0 in seen:
            continue
        seen.add(key0)
        try:
            r = rx.eda(pat, fl)
        except AnalysisError as e:
            ctx.undecided("regex:%s#%s" % (q, pat[:20]), db.where(node), str(e))
            continue
        if r["skipped"]:
            skipped.append((q, r["skipped"]))
        if r["found"]:
            ctx.violation("regex:%s#eda" % q, db.where(node), "exponentially ambiguous loop %s in %r: matching time doubles with every repetition of the pump %r followed by a non-matching tail" % (r["loop"], pat, r["pump"]), pump=r["pump"], loop=r["loop"])
        else:
            ctx.ok("regex:%s#%s" % (q, re.sub(r"\s+", " ", pat)[:28]), db.where(node), "no exponential ambiguity (%d NFA states)" % r["states"])
    ctx.note("loops_with_lookaround_skipped", skipped)


@rule("C01.crlf", min_instances=4)
def crlf(ctx):
    """wherever a lexer regex consumes a line terminator, \\n is preceded by an optional \\r"""
    db = ctx.db
    n = 0
    for node, pat, fl in reachable_regexes(db):
        f = getattr(node, "_func", None)
        q = getattr(f, "_qual", "<module>") if f is not None else "lexer.<class>"
        if not (q.startswith("lexer.") or q.endswith("write_indented_block") or "adjust_whitespace" in q):
            continue
        sub = rx.parse(pat, fl)
        for where_, seq in _sequences(sub):
            for i, (op, av) in enumerate(seq):
                if op == rx.OP.LITERAL and av == 10:
                    # consumed newline: previous item must be optional \r, unless the class before spans \r (.* with S / [^\\])
                    prev = seq[i - 1] if i > 0 else None
                    ok = False
                    if prev is not None and prev[0] in rx.REPEATS and prev[1][0] == 0 and prev[1][1] == 1 and list(prev[1][2]) == [(rx.OP.LITERAL, 13)]:
                        ok = True
                    if prev is not None and prev[0] in rx.REPEATS and prev[1][1] == rx.MAXREPEAT:
                        body = list(prev[1][2])
                        if len(body) == 1 and body[0][0] in rx.CHAR_OPS and rx.atom_matches(body[0], "\r", rx.flags_of(sub)):
                            ok = True  # `.*\n` style: \r is part of the preceding run
                    if where_ == "lookbehind":
                        ok = True
                    n += 1
                    key = "%s#%s" % (q, re.sub(r"\s+", " ", pat)[:24])
                    ctx.check(ok, key, db.where(node), "regex %r consumes \\n without an optional \\r before it: CRLF templates keep a stray \\r / are lexed differently" % pat, "\\r?\\n")
    ctx.require(n >= 4, "expected >=4 consumed newlines in lexer regexes, found %d" % n)
    pg = db.func("pygen.PythonPrinter.write_indented_block")
    sp = [c for c in walk_func(pg) if isinstance(c, ast.Call) and dotted(c.func) == "re.split"]
    ctx.check(bool(sp) and str_value(sp[0].args[0]) == r"\r?\n", "pygen.block-split", db.where(pg), "code blocks are not split on \\r?\\n", "split on \\r?\\n")


def _sequences(sub, where="top"):
    """yield (context, list of items) for every sequence in the tree"""
    items = list(sub)
    yield where, items
    for op, av in items:
        if op == rx.OP.BRANCH:
            for alt in av[1]:
                yield from _sequences(alt, where)
        elif op in rx.REPEATS:
            yield from _sequences(av[2], where)
        elif op == rx.OP.SUBPATTERN:
            yield from _sequences(av[3], where)
        elif op in (rx.OP.ASSERT, rx.OP.ASSERT_NOT):
            yield from _sequences(av[1], "lookbehind")  # look-arounds consume nothing


@rule("C01.line-count", min_instances=3, props=["C11"])
def line_count(ctx):
    """match_reg advances the line counter by the newlines in exactly the consumed span and computes the column from the old cursor"""
    db = ctx.db
    mr = db.func("lexer.Lexer.match_reg")
    inc = [s for s in walk_func(mr) if isinstance(s, ast.AugAssign) and dotted(s.target) == "self.lineno"]
    ctx.require(inc, "match_reg does not advance self.lineno")
    ok = P.has(mr, "$mp = self.match_position\n...\nif $m:\n    ...\n    self.lineno += self.text[$mp:self.match_position].count('\\n')\n    ...") or P.has(mr, "($s, $e) = $m.span()\n...\nself.lineno += self.text[$s:self.match_position].count('\\n')")
    if not ok:
        # the new cursor spelled out again instead of read back: text[old : <the expression just stored in match_position>]
        for _n, env_ in P.find(mr, "self.match_position = $new\n...\nself.lineno += self.text[$mp:$new].count('\\n')"):
            mpn = env_["mp"][1]
            ok = isinstance(mpn, ast.Name) and P.has(mr, "%s = self.match_position\n..." % mpn.id)
    ctx.check(ok, "lineno-span", db.where(inc[0]),
              "line counter advanced by `%s`, not by the newlines of the consumed span text[old cursor : new cursor]" % src(inc[0].value), "newlines of text[old cursor : new cursor]")
    mp = [s for s in walk_func(mr) if isinstance(s, ast.Assign) and isinstance(s.targets[0], ast.Name) and src(s.value) == "self.match_position"]
    pos = [s for s in walk_func(mr) if isinstance(s, ast.Assign) and dotted(s.targets[0]) == "self.match_position"]
    ctx.check(bool(mp) and bool(pos) and mp[0].lineno < pos[0].lineno < inc[0].lineno, "old-cursor-saved", db.where(mr), "the old cursor is not saved before the cursor moves / line count precedes the move", "mp saved, cursor moved, then lines counted")
    ml = [s for s in walk_func(mr) if isinstance(s, ast.Assign) and dotted(s.targets[0]) == "self.matched_lineno"]
    ctx.check(bool(ml) and src(ml[0].value) == "self.lineno" and ml[0].lineno < inc[0].lineno, "matched-lineno", db.where(mr), "matched_lineno is not the line at the start of the match", "matched_lineno = line before advancing")
    # the column: old cursor minus the index of the last newline before it (-1 when there is none)
    forms = [
        "$cp = $mp - 1\nif $cp >= 0 and $cp < self.textlength:\n    $cp = self.text[:$cp + 1].rfind('\\n')\nself.matched_charpos = $mp - $cp",
        "$cp = self.text[:$mp].rfind('\\n')\nself.matched_charpos = $mp - $cp",
        # text[:cp + 1] with cp = mp - 1 written as text[:mp]
        "$cp = $mp - 1\nif $cp >= 0 and $cp < self.textlength:\n    $cp = self.text[:$mp].rfind('\\n')\nself.matched_charpos = $mp - $cp",
        "$cp = self.text.rfind('\\n', 0, $mp)\nself.matched_charpos = $mp - $cp",
        "self.matched_charpos = $mp - self.text.rfind('\\n', 0, $mp)",
    ]
    wrong = [
        "$cp = $mp - 1\nif $cp > 0 and $cp < self.textlength:\n    $cp = self.text[:$cp + 1].rfind('\\n')\nself.matched_charpos = $mp - $cp",
        "$cp = $mp - 1\nif $cp >= 0 and $cp < self.textlength:\n    $cp = self.text[:$cp].rfind('\\n')\nself.matched_charpos = $mp - $cp",
    ]
    if any(P.has(mr, f) for f in forms):
        ctx.ok("column.last-newline", db.where(mr), "column counted from the last newline before the old cursor (text[:cursor])")
    elif any(P.has(mr, f) for f in wrong) or not P.has(mr, "self.text[:$x + 1].rfind('\\n')") and not P.has(mr, "rfind"):
        ctx.violation("column.last-newline", db.where(mr), "the column is not computed from the last newline strictly before the old cursor for every cursor position (a node starting at offset 1 gets the column of offset 0): two nodes report the same position")
    else:
        g_ = [i for i in walk_func(mr) if isinstance(i, ast.If) and "rfind" in src(i)]
        bad_guard = any(isinstance(i.test, ast.BoolOp) and any(isinstance(c, ast.Compare) and isinstance(c.ops[0], ast.Gt) and const(c.comparators[0]) == 0 for c in i.test.values) for i in g_)
        if bad_guard:
            ctx.violation("column.last-newline", db.where(mr), "the newline search is skipped when the previous character is at offset 0 (`> 0` instead of `>= 0`): a node starting at offset 1 reports the column of offset 0")
        else:
            ctx.ok("column.last-newline", db.where(mr), "column computation not in a recognised normal form (not decided)")
    cp = [s for s in walk_func(mr) if isinstance(s, ast.Assign) and dotted(s.targets[0]) == "self.matched_charpos"]
    # the reported position is that of the last *successful* match: errors raised after a failed attempt still point at the construct
    mvs_ = assigned_from(mr, "$r.match(self.text, $p)")
    for attr in ("matched_lineno", "matched_charpos"):
        for s_ in [x for x in walk_func(mr) if isinstance(x, ast.Assign) and dotted(x.targets[0]) == "self." + attr]:
            gd_ = [a_ for a_ in ancestors(s_) if isinstance(a_, ast.If)]
            okm = any(isinstance(g_.test, ast.Name) and g_.test.id in mvs_ and any(contains(b_, s_) for b_ in g_.body) for g_ in gd_)
            ctx.check(okm, "position-only-on-match:" + attr, db.where(s_), "self.%s is updated by a failed match attempt as well: an error raised after the attempt (unclosed <%%text>) is reported at the cursor, not where the construct began" % attr, "updated only when the regex matched")
    ctx.check(bool(cp) and bool(mp) and isinstance(cp[0].value, ast.BinOp) and isinstance(cp[0].value.op, ast.Sub) and src(cp[0].value.left) == src(mp[0].targets[0]), "column", db.where(mr), "column is `%s`" % (src(cp[0].value) if cp else None), "column = old cursor - position of the previous newline")


# ----------------------------------------------------------------------
# line scanners of pygen (run by the lexer on every <% %> block, and by the printer)
# ----------------------------------------------------------------------

QUOTES = ['"""', "'''"]


def _regex_instances(node):
    """pattern strings of a regex argument: a literal, or `literal % <state>` instantiated with both triple quotes"""
    p = str_value(node)
    if p is not None:
        return [p]
    if isinstance(node, ast.BinOp) and isinstance(node.op, ast.Mod) and str_value(node.left) is not None and str_value(node.left).count("%s") == 1:
        return [str_value(node.left).replace("%s", q) for q in QUOTES]
    return None


def _lookahead_alternatives(sub):
    """for a regex of the shape <lazy repeat><look-ahead>: the finite strings the look-ahead accepts ('' = end of line)"""
    items = list(sub)
    if len(items) == 2 and items[0][0] in rx.REPEATS and items[0][1][0] == 0 and items[1][0] == rx.OP.ASSERT and items[1][1][0] > 0:
        return rx.finite_language(items[1][1][1], rx.flags_of(sub))
    return None


class _ScanLoop:
    """symbolic walk over the body of `while line:`; decides that every path back to the loop head has shortened `line`"""

    def __init__(self, fn, loop, var, helper):
        self.fn, self.loop, self.var, self.helper = fn, loop, var, helper
        self.problems = []
        self.sites = 0

    def regexes(self, call, st=None):
        a = call.args[0]
        if isinstance(a, ast.Name) and st is not None and a.id in st.get("regs", {}):
            return st["regs"][a.id]
        return _regex_instances(a)

    def consuming(self, pats, failed):
        """does a successful match of every instance consume at least one character of a non-empty line on which `failed` did not match"""
        why = None
        for p in pats:
            sub = rx.parse(p)
            if not rx.nullable(sub):
                continue
            alts = _lookahead_alternatives(sub)
            if alts is None:
                return False, "regex %r can match the empty string" % p
            for w in alts:
                if w == "":
                    continue  # end of line: the loop ends
                if not any(any(w.startswith(x) for x in f if x) for f in failed):
                    return False, "regex %r matches the empty string in front of %r, which nothing tried before it consumes" % (p, w)
        return True, why

    def total(self, pats):
        for p in pats:
            sub = rx.parse(p)
            alpha = [c for c in rx.alphabet([sub], "\"'#\\ax \t") if c != "\n"]
            ok, wit = rx.prefix_total(rx.PNFA(p, 0, sub), alpha)
            if not ok:
                return False, "regex %r does not match every line (e.g. %r)" % (p, wit)
        return True, None

    def run(self, stmts, st):
        """st: dict(progress=bool, m={var: (pats, status)}, failed=[finite languages]) -> list of (outcome, st)"""
        states = [st]
        for s in stmts:
            nxt = []
            for cur in states:
                nxt.extend(self.step(s, cur))
            out = [x for x in nxt if x[0] != "fall"]
            for o in out:
                self.finish(o, s)
            states = [x[1] for x in nxt if x[0] == "fall"]
            if not states:
                return []
        return [("fall", x) for x in states]

    def finish(self, o, s):
        kind, st = o
        if kind == "continue" and not st["progress"]:
            self.problems.append((s, "`continue` reached without `%s` having been shortened" % self.var))

    def step(self, s, st):
        var = self.var
        # m, line = match(R, line)
        if isinstance(s, ast.Assign) and isinstance(s.targets[0], ast.Tuple) and len(s.targets[0].elts) == 2 and isinstance(s.value, ast.Call) and dotted(s.value.func) == self.helper and src(s.targets[0].elts[1]) == var and len(s.value.args) == 2 and src(s.value.args[1]) == var:
            pats = self.regexes(s.value, st)
            self.sites += 1
            if pats is None:
                self.problems.append((s, "regex of `%s` is not a constant" % src(s)))
                return [("fall", st)]
            mv = src(s.targets[0].elts[0])
            tot, _w = self.total(pats)
            new = dict(st, m=dict(st["m"]))
            if tot:
                ok, why = self.consuming(pats, st["failed"])
                if ok:
                    new["progress"] = True
                else:
                    new["note"] = why
                new["m"][mv] = (pats, True, True)
            else:
                new["m"][mv] = (pats, None, True)
                new["note"] = _w
            return [("fall", new)]
        # reg = "<pattern>" [% quote]
        if isinstance(s, ast.Assign) and isinstance(s.targets[0], ast.Name) and _regex_instances(s.value) is not None and s.targets[0].id != var:
            new = dict(st, regs=dict(st.get("regs", {})))
            new["regs"][s.targets[0].id] = _regex_instances(s.value)
            return [("fall", new)]
        # the unfolded helper:  m, line = (mx, line[len(mx.group(0)):]) if mx else (None, line)
        env_ = {}
        unfolded = False
        if isinstance(s, ast.Assign):
            for cut_ in ("len($mx.group(0))", "len($mx.group())", "$mx.end()"):
                env_ = {}
                if P.matches(s, "($m, %s) = ($mx, %s[%s:]) if $mx else (None, %s)" % (var, var, cut_, var), env_):
                    unfolded = True
                    break
        if unfolded and isinstance(env_["mx"][1], ast.Name) and env_["mx"][1].id in st["m"]:
            pats, status, _c = st["m"][env_["mx"][1].id]
            self.sites += 0
            mv = src(env_["m"][1])
            new = dict(st, m=dict(st["m"]))
            if pats is None:
                self.problems.append((s, "regex of `%s` is not a constant" % src(s)))
                return [("fall", st)]
            tot, _w = self.total(pats)
            if tot:
                ok, why = self.consuming(pats, st["failed"])
                if ok:
                    new["progress"] = True
                else:
                    new["note"] = why
                new["m"][mv] = (pats, True, True)
            else:
                new["m"][mv] = (pats, None, True)
                new["note"] = _w
            return [("fall", new)]
        # m = re.match(R, line)
        if isinstance(s, ast.Assign) and isinstance(s.targets[0], ast.Name) and isinstance(s.value, ast.Call) and dotted(s.value.func) == "re.match" and len(s.value.args) >= 2 and src(s.value.args[1]) == var:
            pats = self.regexes(s.value, st)
            self.sites += 1
            new = dict(st, m=dict(st["m"]))
            new["m"][s.targets[0].id] = (pats, None, False)
            return [("fall", new)]
        # line = line[m.end():]
        if isinstance(s, ast.Assign) and src(s.targets[0]) == var:
            env = {}
            if P.matches(s, "%s = %s[$m.end():]" % (var, var), env) and isinstance(env["m"][1], ast.Name) and env["m"][1].id in st["m"]:
                pats, status, consumed = st["m"][env["m"][1].id]
                new = dict(st)
                if status is True and pats is not None and all(not rx.nullable(rx.parse(p)) for p in pats):
                    new["progress"] = True
                else:
                    new["note"] = "`%s` is cut at the end of a match that may be empty or absent" % var
                return [("fall", new)]
            self.problems.append((s, "`%s` is rebound in a way the analysis does not follow: %s" % (var, src(s))))
            return [("fall", st)]
        if isinstance(s, ast.Continue):
            return [("continue", st)]
        if isinstance(s, ast.Break):
            return [("break", st)]
        if isinstance(s, ast.Return):
            return [("return", st)]
        if isinstance(s, ast.If):
            t, f = self.refine(s.test, st)
            out = []
            if t is not None:
                out.extend(self.run(s.body, t))
            if f is not None:
                out.extend(self.run(s.orelse, f) if s.orelse else [("fall", f)])
            return out
        if isinstance(s, (ast.While, ast.For, ast.Try, ast.With)):
            self.problems.append((s, "nested %s inside the scan loop is not followed" % type(s).__name__))
        return [("fall", st)]

    def refine(self, test, st):
        """(state if test true, state if test false)"""
        def known(mv, val, base):
            pats, status, consumed = base["m"][mv]
            if status is not None and status != val:
                return None
            new = dict(base, m=dict(base["m"]), failed=list(base["failed"]))
            new["m"][mv] = (pats, val, consumed)
            if val and consumed and pats is not None and all(not rx.nullable(rx.parse(p)) for p in pats):
                new["progress"] = True
            if not val and pats is not None:
                langs = [rx.finite_language(rx.parse(p)) for p in pats]
                if all(l is not None for l in langs):
                    new["failed"].append(sorted({w for l in langs for w in l}))
            return new
        if isinstance(test, ast.Name) and test.id in st["m"]:
            return known(test.id, True, st), known(test.id, False, st)
        if isinstance(test, ast.UnaryOp) and isinstance(test.op, ast.Not) and isinstance(test.operand, ast.Name) and test.operand.id in st["m"]:
            return known(test.operand.id, False, st), known(test.operand.id, True, st)
        if isinstance(test, ast.BoolOp) and isinstance(test.op, ast.Or) and isinstance(test.values[0], ast.UnaryOp) and isinstance(test.values[0].op, ast.Not) and isinstance(test.values[0].operand, ast.Name) and test.values[0].operand.id in st["m"]:
            # `not m or X`: false only when m matched
            return st, known(test.values[0].operand.id, True, st)
        return st, st


@rule("C01.python-errors-translated", min_instances=2, props=["C11"])
def python_errors_translated(ctx):
    """whatever Python's parser raises for embedded code leaves pyparser.parse as a SyntaxException: the handler is as wide as Exception and reads nothing from the caught exception that only a SyntaxError has"""
    db = ctx.db
    pp = db.func("pyparser.parse")
    hs = [h for t in walk_func(pp) if isinstance(t, ast.Try) for h in t.handlers]
    ctx.require(hs, "pyparser.parse has no except clause (anchor)")
    h = hs[0]
    wide = h.type is None or src(h.type) in ("Exception", "BaseException")
    ctx.check(wide, "handler-wide", db.where(h), "pyparser.parse catches only %s: other failures of Python's parser (ValueError for NUL bytes, MemoryError/RecursionError for deep nesting, UnicodeEncodeError) escape untranslated" % (src(h.type) if h.type else ""), "catches Exception")
    # attribute reads on the caught exception, in the handler and the helpers it hands the exception to
    reads = []
    scopes = [(h, h.name)] if h.name else []
    for c in ast.walk(h):
        if isinstance(c, ast.Call) and h.name and any(isinstance(a, ast.Name) and a.id == h.name for a in c.args):
            d = dotted(c.func)
            if d and db.has("pyparser." + d):
                f = db.func("pyparser." + d)
                i = [k for k, a in enumerate(c.args) if isinstance(a, ast.Name) and a.id == h.name][0]
                if i < len(f.args.args):
                    scopes.append((f, f.args.args[i].arg))
    for sc, nm in scopes:
        for n in ast.walk(sc):
            if isinstance(n, ast.Attribute) and isinstance(n.value, ast.Name) and n.value.id == nm and isinstance(n.ctx, ast.Load) and not n.attr.startswith("__") and n.attr not in ("args", "with_traceback"):
                reads.append(n)
    ctx.check(not reads or not wide, "exception-attributes", db.where(reads[0]) if reads else db.where(h), "the handler reads `%s` from whatever exception was caught: only SyntaxError has that attribute, for any other failure of Python's parser an AttributeError escapes instead of a SyntaxException" % (src(reads[0]) if reads else ""), "attributes of the caught exception are read with getattr(..., default) only")
    rs = [r for r in ast.walk(h) if isinstance(r, ast.Raise) and isinstance(r.exc, ast.Call)]
    ctx.check(bool(rs) and all((dotted(r.exc.func) or "").endswith("SyntaxException") for r in rs), "raises-syntax-exception", db.where(h), "the handler does not raise exceptions.SyntaxException", "raises SyntaxException")


@rule("C01.scanner-loops", min_instances=2)
def scanner_loops(ctx):
    """the line scanners the lexer runs over every <% %> block (and the printer over every emitted block) shorten the line on every trip round their loop: they terminate on every input"""
    db = ctx.db
    for q, helper in (("pygen.adjust_whitespace.in_multi_line", "match"), ("pygen.PythonPrinter._in_multi_line", None)):
        fn = db.func(q) if "PythonPrinter" in q else lexer_side_scanner(db)
        lp_ = scan_loop_of(fn)
        ctx.require(lp_ is not None, "%s: `while <line>:` loop not found" % q)
        line = lp_.test.id
        loops = [lp_]
        h = [f for f in fn.body if isinstance(f, ast.FunctionDef) and f.name == helper] if helper else []
        if helper and not h:
            helper = None  # the helper was unfolded into the loop (or never existed): the loop is followed directly
        if helper:
            hp = h[0]
            ok = P.has(hp, "$m = re.match(%s, %s)\nif $m:\n    return ($m, %s[len($m.group(0)):])\nelse:\n    return (None, %s)" % (pn(hp, 0), pn(hp, 1), pn(hp, 1), pn(hp, 1)))
            ctx.check(ok, "helper:" + q.split(".")[-2], db.where(hp), "the match helper does not return (match, rest after the match) / (None, unchanged text)", "match() returns the rest after a match, the text unchanged otherwise")
        sl = _ScanLoop(fn, loops[0], line, helper)
        outs = sl.run(loops[0].body, dict(progress=False, m={}, failed=[]))
        for kind, st in outs:
            if kind == "fall" and not st["progress"]:
                sl.problems.append((loops[0], "the end of the loop body is reached without `%s` having been shortened%s" % (line, (": " + st["note"]) if st.get("note") else "")))
        ctx.require(sl.sites >= 2, "%s: match sites in the scan loop not recognised (%d)" % (q, sl.sites))
        key = "progress:" + q.split(".", 1)[1]
        if sl.problems:
            s, why = sl.problems[0]
            ctx.violation(key, db.where(s), "%s may loop forever: %s" % (q, why))
        else:
            ctx.ok(key, db.where(loops[0]), "every trip round the loop shortens `%s` (%d match sites)" % (line, sl.sites))


@rule("C01.text-stops-cover", min_instances=2, props=["C03"])
def text_stops_cover(ctx):
    """wherever a construct tried before the text matcher can begin inside running text (on one line, after its indentation), the text regex has a stop: otherwise the construct is swallowed as text"""
    db = ctx.db
    sites = lexer_match_sites(db)
    loop, casc = cascade(db)
    order = [m for m, _, _ in casc]
    primary = {}
    for name, c, pat, fl, dyn in sites:
        if name in order and name not in primary and pat is not None:
            primary[name] = (pat, fl, c)
    ctx.require("match_text" in primary, "text regex not found")
    pat, fl, c = primary["match_text"]
    sub = rx.parse(pat, fl)
    stops = _stops_of_text(sub)
    alpha = [ch for ch in rx.alphabet([rx.parse(p, f) for p, f, _ in primary.values()], "<%/$#{}\\\t !\x0b") if ch not in "\r\n"]
    rights = []
    for alt in stops:
        try:
            r = rx.PNFA(rx.describe(alt), fl, sub=alt)
            r.flags = rx.flags_of(sub)
            rights.append(r)
        except rx.Unsupported as e:
            ctx.undecided("stop:" + rx.describe(alt), db.where(c), "stop not analysable: %s" % e)
    n = 0
    for m in order[: order.index("match_text")]:
        if m not in primary or m == "match_end":
            continue
        if ctx.prop == "C03" and m not in ("match_control_line", "match_python_block"):
            continue  # C03 is concerned with % lines and <% %> blocks only
        p2, f2, c2 = primary[m]
        try:
            L = rx.PNFA(p2, f2)
        except rx.Unsupported as e:
            ctx.note("skipped:" + m, str(e))
            continue
        if L.context == "linestart":
            L.context = "after-nl"  # inside running text a line start is a position after a newline
        n += 1
        good, wit, used = rx.covered(L, rights, alpha)
        if good:
            ctx.ok("cover:" + m, db.where(c2), "the text regex stops wherever %s can begin" % m)
        else:
            cls = "other-whitespace" if wit[:1].isspace() and wit[:1] not in " \t" else wit[:2].encode("unicode_escape").decode("ascii")
            ctx.violation("cover:lexer.Lexer.%s#begins-with:%s" % (m, cls), db.where(c),
                          "%s can begin with %r at a line position inside running text, but the text regex has no stop there: the construct is copied to the output as text there, while the same line directly after another directive is recognised" % (m, wit), witness=wit)
    ctx.require(n >= (6 if ctx.prop != "C03" else 2), "only %d matchers before match_text analysed" % n)


@rule("C01.match-result-checked", min_instances=1, props=["C11"])
def match_result_checked(ctx):
    """in the lexer and the modules it drives, a regex match result is dereferenced only where it is known to be a match: input that does not match ends in a Mako exception or the next matcher, never in AttributeError on None"""
    db = ctx.db
    from .common import unguarded_match_uses
    bad, n = unguarded_match_uses(db, ["lexer", "parsetree", "ast", "pygen", "pyparser", "codegen"])
    ctx.require(n >= 25, "only %d uses of regex match results found" % n)
    for q, u, name in bad:
        ctx.violation("unchecked:%s:%s.%s" % (q, "match", u.attr), db.where(u), "`%s` dereferences the result of a regex match that is None when the text does not match (no test of `%s` guards this use): such input raises AttributeError instead of a Mako exception" % (src(enclosing_stmt(u))[:80], name))
    if not bad:
        ctx.ok("all-checked", "mako/lexer.py, parsetree.py, ast.py, pygen.py, pyparser.py, codegen.py", "%d uses of match results, each guarded by a test of the match" % n)
