"""C09 - template lookup never escapes its configured directories.

Decided: the containment guard dominates every source read / module-path
derivation; the two URI normalisers (lookup and Template) apply the same
canonicalisations in a safe order; the module path derives from the validated
value; the URI handed to Template is the one whose normal form located the
file; nobody else opens files.  Not decided: symlinks, Windows path
semantics, user modulename_callable."""

import ast

from ..core import rule, AnalysisError
from ..engine import flow, rx
from ..engine import pattern as P
from ..engine.facts import dotted, const, src, call_name, walk_func
from .common import pn, access_paths
from ..engine import cfg as cfgmod
from . import c15  # atomic-publish (module files are created beside their final path, beneath module_directory) is registered for C09 there


def canon(chain):
    """canonical tokens of an op chain, in order."""
    out = []
    for op in chain.ops:
        if op[0] == "replace" and len(op) >= 3 and op[1] == "\\" and op[2] == "/":
            out.append("BS2SLASH")
        elif op[0] == "lstrip" and len(op) >= 2 and isinstance(op[1], str) and "/" in op[1] and set(op[1]) <= set("/\\"):
            out.append("STRIP")
        elif op[0] == "lstrip" and len(op) >= 2 and isinstance(op[1], str) and op[1] and set(op[1]) <= set("/\\"):
            out.append("STRIPBS")  # strips backslashes only
        elif op[0] == "re.sub" and isinstance(op[1], str) and op[2] == "" and rx.is_anchored_leading(op[1], "/"):
            out.append("STRIP")
        elif op[0] == "re.sub" and isinstance(op[1], str) and op[2] == "" and rx.only_literals(op[1], "/"):
            out.append("WEAKSTRIP")  # removes some but not all leading slashes
        elif op[0] == "normpath":
            out.append("NORM")
        elif op[0] == "join2":
            out.append("JOIN")
        elif op[0] == "concat":
            out.append("CONCAT")
        elif op[0] == "abspath":
            out.append("ABS")
        else:
            out.append("?" + op[0])
    return out


def leading_run_survivors(chain, maxlen=4):
    """evaluate the chain's own string operations (those before normpath / join) on every
    leading run of up to four slashes and backslashes followed by `x`: the runs
    which are not removed completely, or None when an operation is not modelled"""
    import itertools
    import re as _re
    ops = []
    for op in chain.ops:
        if op[0] in ("normpath", "join2", "abspath", "concat"):
            break
        ops.append(op)
    bad = []
    for n in range(0, maxlen + 1):
        for run in itertools.product("/\\", repeat=n):
            s = "".join(run) + "x"
            for op in ops:
                if op[0] == "replace" and len(op) >= 3 and isinstance(op[1], str) and isinstance(op[2], str):
                    s = s.replace(op[1], op[2])
                elif op[0] == "lstrip" and len(op) >= 2 and isinstance(op[1], str):
                    s = s.lstrip(op[1])
                elif op[0] == "re.sub" and isinstance(op[1], str) and isinstance(op[2], str):
                    s = _re.sub(op[1], op[2], s)
                else:
                    return None
            if s != "x":
                bad.append(("".join(run) + "x", s))
    return bad


def _find_guard(fn):
    """the If in Template.__init__ that rejects a normalised uri starting with '..'"""
    cands = []
    for n in walk_func(fn):
        if isinstance(n, ast.If) and flow.always_raises(n.body):
            for c in ast.walk(n.test):
                if isinstance(c, ast.Call) and isinstance(c.func, ast.Attribute) and c.func.attr == "startswith":
                    a = c.args[0] if c.args else None
                    if isinstance(const(a), str) and const(a).startswith(".."):
                        cands.append((n, c))
    return cands


def _guard_is_prefix_test(test, call):
    """test is exactly X.startswith('..') or an `or` of it with further
    rejections (which only strengthen the guard)."""
    if test is call:
        return const(call.args[0]) == ".."
    if isinstance(test, ast.BoolOp) and isinstance(test.op, ast.Or):
        return any(v is call and const(call.args[0]) == ".." for v in test.values) or (
            any(isinstance(v, ast.Compare) and len(v.ops) == 1 and isinstance(v.ops[0], ast.Eq) and const(v.comparators[0]) == ".." for v in test.values)
            and any(v is call and const(call.args[0]) in ("../", "..") for v in test.values))
    return False


@rule("C09.guard-dominates", min_instances=4)
def guard_dominates(ctx):
    """containment guard in Template.__init__ raises TemplateLookupException and dominates every source read / module path derivation"""
    db = ctx.db
    fn = db.func("template.Template.__init__")
    cands = _find_guard(fn)
    ctx.require(cands, "no `if <norm>.startswith('..'): raise` guard found in Template.__init__ (anchor)") if False else None
    if not cands:
        ctx.violation("guard", db.where(fn), "Template.__init__ has no guard rejecting a normalised URI that starts with '..'")
        return
    guard, call = cands[0]
    w = db.where(guard)
    # raises the documented exception
    raised = [dotted(r.exc.func) if isinstance(r.exc, ast.Call) else dotted(r.exc) for r in ast.walk(guard) if isinstance(r, ast.Raise) and r.exc is not None]
    ctx.check(all(r and r.split(".")[-1] == "TemplateLookupException" for r in raised) and raised, "guard.raises", w,
              "guard raises %s, not TemplateLookupException" % raised, "raises TemplateLookupException on every path of its body")
    ctx.check(_guard_is_prefix_test(guard.test, call), "guard.test", w,
              "guard test `%s` is not a prefix test for '..' on the normalised URI" % src(guard.test),
              "test is %s" % src(guard.test))
    g = cfgmod.function_cfg(fn)
    sinks = []
    for n in walk_func(fn):
        if isinstance(n, ast.Call):
            nm = dotted(n.func) or ""
            if nm in ("_compile_text", "self._compile_from_file", "_compile_module_file", "util.read_file", "open", "compat.load_module"):
                sinks.append((nm, n))
            elif nm in ("os.path.join", "posixpath.join") and any("module_directory" in src(a) for a in n.args):
                sinks.append(("module-path " + nm, n))
    ctx.require(len(sinks) >= 3, "expected >=3 guarded sinks (compile_text, compile_from_file, module path join) in Template.__init__, found %d" % len(sinks))
    from ..engine.facts import enclosing_stmt
    for nm, n in sinks:
        st = enclosing_stmt(n)
        # statement nested in compound statements: use the outermost statement that is in the CFG
        ok = g.stmt_dominates(guard, st) and all(st is not x for x in ast.walk(guard))
        # additionally the sink must not be reachable when the guard's body ran
        ctx.check(ok, "sink:" + nm, db.where(n),
                  "call %s is not dominated by the '..' guard: a URI escaping the root reaches it" % nm,
                  "dominated by guard at line %d" % getattr(guard, "_srcline", guard.lineno))


def _chains_for(db, fnq, expr, stmt):
    fn = db.func(fnq)
    r = flow.Reaching(fn)
    return flow.chains(expr, r, stmt)


@rule("C09.normaliser-agreement", min_instances=4)
def normaliser_agreement(ctx):
    """lookup's path builder and Template's validator canonicalise the URI identically (backslash->slash, strip leading slashes, normpath) in a safe order"""
    db = ctx.db
    from ..engine.facts import enclosing_stmt
    # ---- lookup side: value tested with os.path.isfile in get_template
    gt = db.func("lookup.TemplateLookup.get_template")
    isfile = [n for n in walk_func(gt) if isinstance(n, ast.Call) and (dotted(n.func) or "").endswith("isfile")]
    ctx.require(isfile, "no isfile() probe in TemplateLookup.get_template (anchor)")
    r = flow.Reaching(gt)
    lk = []
    for c in isfile:
        lk.extend(flow.chains(c.args[0], r, enclosing_stmt(c)))
    # ---- template side: value tested by the guard
    ti = db.func("template.Template.__init__")
    cands = _find_guard(ti)
    if not cands:
        ctx.violation("template.guard", db.where(ti), "no '..' guard in Template.__init__, nothing validates the URI")
        return
    guard, call = cands[0]
    r2 = flow.Reaching(ti)
    tk = flow.chains(call.func.value, r2, guard)
    ctx.note("lookup_chains", [repr(c) for c in lk])
    ctx.note("template_chains", [repr(c) for c in tk])
    need = ["BS2SLASH", "STRIP", "NORM"]
    for side, chs, where in (("lookup", lk, db.where(isfile[0])), ("template", tk, db.where(guard))):
        for i, ch in enumerate(chs):
            toks = canon(ch)
            key = "%s#%d" % (side, i) if len(chs) > 1 else side
            unknown = [t for t in toks if t.startswith("?")]
            if unknown:
                ctx.undecided(key + ".ops", where, "unrecognised op(s) %s in chain %r" % (unknown, ch))
                continue
            missing = [t for t in need if t not in toks]
            if missing:
                ctx.violation(key + ".has:" + ",".join(missing), where,
                              "%s normaliser lacks %s: chain is %r" % (side, missing, ch), chain=repr(ch))
                continue
            order_ok = toks.index("BS2SLASH") < toks.index("NORM") and toks.index("STRIP") < toks.index("NORM")
            ctx.check(order_ok, key + ".order", where,
                      "%s normaliser applies %s out of order (need backslash->slash and strip before normpath): %r" % (side, toks, ch),
                      "ops %s" % toks)
            surv = leading_run_survivors(ch, 4 if ctx.tier != "thorough" else 8)
            if surv is None:
                ctx.undecided(key + ".leading-run", where, "an operation of %r is not modelled" % ch)
            else:
                ctx.check(not surv, key + ".leading-run", where,
                          "%s normaliser leaves a leading separator on some mixtures of slashes and backslashes (e.g. %r becomes %r): normpath then clamps `..` at the root and the '..' test passes, while the other side strips the whole run and resolves outside the root" % (side, surv[0][0] if surv else None, surv[0][1] if surv else None),
                          "every leading run of / and \\ (length <= 4) is removed")
            if side == "lookup":
                if "JOIN" not in toks:
                    ctx.violation(key + ".join", where, "lookup path is not built by join(directory, uri): %r" % ch)
                else:
                    j = toks.index("JOIN")
                    ctx.check(toks.index("STRIP") < j < len(toks) - 1 - toks[::-1].index("NORM") + 0 or (toks.index("STRIP") < j and "NORM" in toks[j:]),
                              key + ".strip-before-join", where,
                              "leading slashes must be stripped before join() (an absolute second argument discards the directory) and normpath applied after: %s" % toks,
                              "STRIP < JOIN < NORM")
            root_ok = ch.root in ("uri", "self.uri")
            ctx.check(root_ok, key + ".root", where, "normalised value derives from %r, not from the URI" % ch.root, "root %s" % ch.root)
    # both sides must have the same canonical set
    lset = set(t for c in lk for t in canon(c) if t in need)
    tset = set(t for c in tk for t in canon(c) if t in need)
    ctx.check(lset == tset, "agreement", db.where(guard),
              "canonicalisation sets differ: lookup %s vs template %s" % (sorted(lset), sorted(tset)),
              "both sides: %s" % sorted(lset))
    # the self.uri the guard normalises is the uri argument when one is given
    assigns = [n for n in walk_func(ti) if isinstance(n, ast.Assign) and any(dotted(t) == "self.uri" for t in n.targets)]
    ctx.require(assigns, "self.uri is never assigned in Template.__init__")
    first = min(assigns, key=lambda a: a.lineno)
    ctx.check(isinstance(first.value, ast.Name) and first.value.id == "uri", "template.self-uri", db.where(first),
              "self.uri is not the `uri` argument on the uri branch", "self.uri = uri")
    ctx.check(all(a.lineno < guard.lineno for a in assigns), "template.uri-before-guard", db.where(guard),
              "self.uri is (re)assigned after the guard validated it", "all %d assignments precede the guard" % len(assigns))


@rule("C09.module-path", min_instances=2)
def module_path(ctx):
    """generated module path = join(normpath(module_directory), <validated normal form> + '.py')"""
    db = ctx.db
    from ..engine.facts import enclosing_stmt
    ti = db.func("template.Template.__init__")
    cands = _find_guard(ti)
    if not cands:
        ctx.violation("guard", db.where(ti), "no '..' guard")
        return
    guard, call = cands[0]
    r = flow.Reaching(ti)
    joins = [n for n in walk_func(ti) if isinstance(n, ast.Call) and dotted(n.func) in ("os.path.join", "posixpath.join") and any("module_directory" in src(a) for a in n.args)]
    ctx.require(joins, "module path join not found in Template.__init__")
    gdefs = None
    if isinstance(call.func.value, ast.Name):
        gdefs = r.defs_at(guard, call.func.value.id)
    for j in joins:
        st = enclosing_stmt(j)
        w = db.where(j)
        ctx.check("module_directory" in src(j.args[0]) and "uri" not in src(j.args[0]), "join.first", w,
                  "first join argument is not derived from module_directory alone: %s" % src(j.args[0]), src(j.args[0]))
        second = j.args[-1]
        gchains = flow.chains(call.func.value, r, guard)
        gset = {(c.root, tuple(c.ops)) for c in gchains}
        schains = flow.chains(second, r, st)
        bad = []
        for c in schains:
            ops = list(c.ops)
            while ops and ops[-1][0] == "concat":
                ops.pop()
            if (c.root, tuple(ops)) not in gset:
                bad.append(repr(c))
        ctx.check(not bad, "join.second", w,
                  "second join argument `%s` is not the validated value: %s (validated: %s)" % (src(second), bad, [repr(c) for c in gchains]),
                  "same provenance as the value the guard tests")
        # nothing after normalisation re-introduces separators: only '+ <const suffix>'
        chs = flow.chains(second, r, st)
        for ch in chs:
            toks = canon(ch)
            post = toks[len(toks) - toks[::-1].index("NORM"):] if "NORM" in toks else toks
            ctx.check(all(t == "CONCAT" for t in post), "join.post-ops", w,
                      "operations %s applied after validation" % post, "only a constant suffix is appended")


@rule("C09.same-uri", min_instances=4)
def same_uri(ctx):
    """_load constructs Template with the uri whose normal form located the file; _check reloads the stored filename under the same uri"""
    db = ctx.db
    gt = db.func("lookup.TemplateLookup.get_template")
    loads = [n for n in walk_func(gt) if isinstance(n, ast.Call) and dotted(n.func) == "self._load"]
    ctx.require(loads, "get_template does not call self._load")
    r = flow.Reaching(gt)
    from ..engine.facts import enclosing_stmt
    isfile = [n for n in walk_func(gt) if isinstance(n, ast.Call) and (dotted(n.func) or "").endswith("isfile")]
    for c in loads:
        w = db.where(c)
        ctx.check(len(c.args) == 2 and isinstance(c.args[1], ast.Name) and c.args[1].id == "uri" and r.defs_at(enclosing_stmt(c), "uri") == {"param"},
                  "get_template.load-uri", w, "_load is not given the caller's uri unchanged: %s" % src(c), "second argument is the parameter uri")
        probe_ok = isfile and isinstance(c.args[0], ast.Name) and any(isinstance(p.args[0], ast.Name) and p.args[0].id == c.args[0].id for p in isfile)
        if probe_ok:
            # the isfile probe must guard the load: load inside `if isfile(x):`
            probe_ok = any(isinstance(a, ast.If) and any(p in list(ast.walk(a.test)) for p in isfile) for a in _anc(c))
        ctx.check(bool(probe_ok), "get_template.load-file", w, "_load's filename is not the path probed with isfile()", "loads the probed path")
    ld = db.func("lookup.TemplateLookup._load")
    tcalls = [n for n in walk_func(ld) if isinstance(n, ast.Call) and dotted(n.func) == "Template"]
    ctx.require(tcalls, "_load does not construct Template")
    for c in tcalls:
        kw = {k.arg: k.value for k in c.keywords}
        ctx.check(isinstance(kw.get("uri"), ast.Name) and kw["uri"].id == "uri", "_load.uri", db.where(c),
                  "Template(uri=...) is not _load's uri parameter", "uri=uri")
        fnv = kw.get("filename")
        ctx.check(fnv is not None and "filename" in flow.names_loaded(fnv) and not (flow.names_loaded(fnv) - {"filename", "posixpath", "os"}),
                  "_load.filename", db.where(c), "Template(filename=...) does not derive from _load's filename parameter", "filename from parameter")
        ctx.check(isinstance(kw.get("lookup"), ast.Name) and kw["lookup"].id == "self", "_load.lookup", db.where(c), "lookup=self missing", "lookup=self")
    ck = db.func("lookup.TemplateLookup._check")
    for c in [n for n in walk_func(ck) if isinstance(n, ast.Call) and dotted(n.func) == "self._load"]:
        ctx.check(len(c.args) == 2 and src(c.args[0]) == ck.args.args[2].arg + ".filename" and src(c.args[1]) == ck.args.args[1].arg, "_check.reload", db.where(c),
                  "_check reloads %s instead of (template.filename, uri)" % src(c), "reloads the stored filename under the same uri")


def _anc(n):
    from ..engine.facts import ancestors
    return ancestors(n)


FILE_PRIMS = {"open", "io.open", "os.open", "codecs.open", "util.read_file", "util.read_python_file", "read_file",
              "read_python_file", "os.listdir", "os.scandir", "os.walk", "glob.glob", "os.readlink", "shutil.copy", "shutil.copyfile"}


@rule("C09.who-may-open", min_instances=3)
def who_may_open(ctx):
    """no file-reading primitive in runtime.py / lookup.py; template source is read only inside Template"""
    db = ctx.db
    # canary: the matcher recognises the primitives
    canary = ast.parse("def f(p):\n    return open(p).read() + util.read_file(p)\n")
    hits = [n for n in ast.walk(canary) if isinstance(n, ast.Call) and dotted(n.func) in FILE_PRIMS]
    ctx.require(len(hits) == 2, "canary for file primitives failed")
    for modname in ("runtime", "lookup"):
        m = db.mod(modname)
        ncalls = 0
        bad = []
        for n in ast.walk(m.tree):
            if isinstance(n, ast.Call):
                ncalls += 1
                nm = dotted(n.func)
                if nm in FILE_PRIMS or (nm or "").endswith(".read_text") or (nm or "").endswith(".read_bytes"):
                    bad.append(n)
        for n in bad:
            ctx.violation("%s:%s" % (modname, dotted(n.func)), db.where(n), "file-reading primitive %s in %s.py bypasses Template's containment guard" % (dotted(n.func), modname))
        if not bad:
            ctx.ok(modname, m.relpath, "%d call sites scanned, no file-reading primitive" % ncalls)
    # lookup probes the file system only with isfile / stat
    m = db.mod("lookup")
    probes = sorted({dotted(n.func) for n in ast.walk(m.tree) if isinstance(n, ast.Call) and (dotted(n.func) or "").startswith(("os.", "posixpath.")) and (dotted(n.func) or "").split(".")[-1] in ("isfile", "stat", "exists", "lstat", "access", "getmtime", "isdir")})
    ctx.check(set(probes) <= {"os.path.isfile", "os.stat", "os.path.exists", "os.path.getmtime"}, "lookup.probes", m.relpath, "unexpected fs probes %s" % probes, "probes: %s" % probes)


@rule("C09.probe-leads-to-guard", min_instances=2)
def probe_leads_to_guard(ctx):
    """every file-system probe on a path built from a URI has one use only: handing the probed file to _load (and so to Template's containment guard); nothing else learns whether a file outside the roots exists"""
    db = ctx.db
    from ..engine.facts import enclosing_stmt, ancestors
    from ..engine import pattern as P
    m = db.mod("lookup")
    PROBES = ("isfile", "exists", "stat", "lstat", "access", "getmtime", "isdir", "listdir", "scandir")
    n = 0
    for c in ast.walk(m.tree):
        if not (isinstance(c, ast.Call) and (dotted(c.func) or "").split(".")[-1] in PROBES and (dotted(c.func) or "").startswith(("os.", "posixpath."))):
            continue
        f = getattr(c, "_func", None)
        q = getattr(f, "_qual", "<module>")
        if f is None or not c.args:
            continue
        params = {a.arg for a in f.args.args if a.arg != "self"}
        r = flow.Reaching(f)
        chs = flow.chains(c.args[0], r, enclosing_stmt(c))
        roots = {ch.root for ch in chs}
        from_uri = any(rt in params for rt in roots)
        n += 1
        if not from_uri:
            ctx.ok("probe:%s:%s" % (q, dotted(c.func)), db.where(c), "probes a path taken from %s (a loaded template), not from a URI" % sorted(roots))
            continue
        guard = [a for a in ancestors(c) if isinstance(a, ast.If) and any(x is c for x in ast.walk(a.test))]
        ok = bool(guard) and len(guard[0].body) == 1 and P.matches(guard[0].body[0], "return self._load(%s, $u)" % src(c.args[0]))
        ctx.check(ok, "probe:%s:%s" % (q, dotted(c.func)), db.where(c),
                  "%s probes the file system for a path built from a URI and the answer is used for something else than `return self._load(path, uri)`: whether a file outside the configured directories exists is disclosed without passing Template's containment guard" % q,
                  "positive probe only leads to _load -> Template (guard)")
    ctx.require(n >= 2, "fewer than 2 file-system probes found in lookup.py (%d)" % n)
    # has_template is answered by get_template
    for q in ("lookup.TemplateCollection.has_template", "lookup.TemplateLookup.has_template"):
        if not db.has(q):
            continue
        fn = db.func(q)
        ctx.check(P.has(fn, "try:\n    self.get_template(%s)\n    return True\nexcept exceptions.TemplateLookupException:\n    return False" % pn(fn, 1)), "has_template:" + q.split(".")[1], db.where(fn), "%s is not answered by attempting get_template (which applies the containment guard)" % q, "has_template = get_template succeeded")
